/-
  C04 — arc length: what the 24-point Gauss–Legendre formula of ArcLengthMixin.length satisfies exactly.
  Theorems about Gen/Length.lean (regenerated from arclengthmixin.py / legendregauss.py / line.py with
  the abscissae and weights as parameters, plus the actual tables as exact rationals).
  NOT proved (analytic): "within 2 % / 0.01 % of the true arc length" — sampled against certified enclosures.
-/
import BezierVerif.Gen.Eval
import BezierVerif.Gen.Affine
import BezierVerif.Gen.Length
import BezierVerif.Tactics
import Mathlib.Analysis.SpecialFunctions.Sqrt
import Mathlib.Algebra.BigOperators.Group.List.Basic
import Mathlib.Tactic.NormNum

set_option linter.unusedSectionVars false
set_option linter.unusedVariables false
set_option linter.unusedTactic false
set_option linter.unnecessarySeqFocus false
set_option maxRecDepth 100000

namespace C04
open Gen

section generic
variable {K : Type} [Field K] [LinearOrder K] [IsStrictOrderedRing K]

/-- the quadrature functional the code implements: `z * Σ C_i * f (z * T_i + z)`, `z = 1/2` -/
def glQuad (T C : List K) (f : K → K) : K :=
  (List.zipWith (fun t c => c * f ((1 / 2) * t + 1 / 2)) T C).sum * (1 / 2)

/-- speed of a cubic / quadratic at t, as the code evaluates it: sqrt(x'(t)·x'(t) + y'(t)·y'(t)) with the
    derivative segment of C01 -/
def speedC (sqrt : K → K) (p0x p0y p1x p1y p2x p2y p3x p3y t : K) : K :=
  sqrt ((quad_pointAtTime_x (cubic_derivative_d0x p0x p0y p1x p1y p2x p2y p3x p3y) (cubic_derivative_d0y p0x p0y p1x p1y p2x p2y p3x p3y) (cubic_derivative_d1x p0x p0y p1x p1y p2x p2y p3x p3y) (cubic_derivative_d1y p0x p0y p1x p1y p2x p2y p3x p3y) (cubic_derivative_d2x p0x p0y p1x p1y p2x p2y p3x p3y) (cubic_derivative_d2y p0x p0y p1x p1y p2x p2y p3x p3y) t) * (quad_pointAtTime_x (cubic_derivative_d0x p0x p0y p1x p1y p2x p2y p3x p3y) (cubic_derivative_d0y p0x p0y p1x p1y p2x p2y p3x p3y) (cubic_derivative_d1x p0x p0y p1x p1y p2x p2y p3x p3y) (cubic_derivative_d1y p0x p0y p1x p1y p2x p2y p3x p3y) (cubic_derivative_d2x p0x p0y p1x p1y p2x p2y p3x p3y) (cubic_derivative_d2y p0x p0y p1x p1y p2x p2y p3x p3y) t) + (quad_pointAtTime_y (cubic_derivative_d0x p0x p0y p1x p1y p2x p2y p3x p3y) (cubic_derivative_d0y p0x p0y p1x p1y p2x p2y p3x p3y) (cubic_derivative_d1x p0x p0y p1x p1y p2x p2y p3x p3y) (cubic_derivative_d1y p0x p0y p1x p1y p2x p2y p3x p3y) (cubic_derivative_d2x p0x p0y p1x p1y p2x p2y p3x p3y) (cubic_derivative_d2y p0x p0y p1x p1y p2x p2y p3x p3y) t) * (quad_pointAtTime_y (cubic_derivative_d0x p0x p0y p1x p1y p2x p2y p3x p3y) (cubic_derivative_d0y p0x p0y p1x p1y p2x p2y p3x p3y) (cubic_derivative_d1x p0x p0y p1x p1y p2x p2y p3x p3y) (cubic_derivative_d1y p0x p0y p1x p1y p2x p2y p3x p3y) (cubic_derivative_d2x p0x p0y p1x p1y p2x p2y p3x p3y) (cubic_derivative_d2y p0x p0y p1x p1y p2x p2y p3x p3y) t))
def speedQ (sqrt : K → K) (p0x p0y p1x p1y p2x p2y t : K) : K :=
  sqrt ((line_pointAtTime_x (quad_derivative_d0x p0x p0y p1x p1y p2x p2y) (quad_derivative_d0y p0x p0y p1x p1y p2x p2y) (quad_derivative_d1x p0x p0y p1x p1y p2x p2y) (quad_derivative_d1y p0x p0y p1x p1y p2x p2y) t) * (line_pointAtTime_x (quad_derivative_d0x p0x p0y p1x p1y p2x p2y) (quad_derivative_d0y p0x p0y p1x p1y p2x p2y) (quad_derivative_d1x p0x p0y p1x p1y p2x p2y) (quad_derivative_d1y p0x p0y p1x p1y p2x p2y) t) + (line_pointAtTime_y (quad_derivative_d0x p0x p0y p1x p1y p2x p2y) (quad_derivative_d0y p0x p0y p1x p1y p2x p2y) (quad_derivative_d1x p0x p0y p1x p1y p2x p2y) (quad_derivative_d1y p0x p0y p1x p1y p2x p2y) t) * (line_pointAtTime_y (quad_derivative_d0x p0x p0y p1x p1y p2x p2y) (quad_derivative_d0y p0x p0y p1x p1y p2x p2y) (quad_derivative_d1x p0x p0y p1x p1y p2x p2y) (quad_derivative_d1y p0x p0y p1x p1y p2x p2y) t))

/-- **structure**: `length` is the quadrature functional applied to the speed — for any tables -/
theorem cubic_length_struct (sqrt : K → K) (T0 T1 T2 T3 T4 T5 T6 T7 T8 T9 T10 T11 T12 T13 T14 T15 T16 T17 T18 T19 T20 T21 T22 T23 C0 C1 C2 C3 C4 C5 C6 C7 C8 C9 C10 C11 C12 C13 C14 C15 C16 C17 C18 C19 C20 C21 C22 C23 p0x p0y p1x p1y p2x p2y p3x p3y : K) :
    cubic_length_v sqrt T0 T1 T2 T3 T4 T5 T6 T7 T8 T9 T10 T11 T12 T13 T14 T15 T16 T17 T18 T19 T20 T21 T22 T23 C0 C1 C2 C3 C4 C5 C6 C7 C8 C9 C10 C11 C12 C13 C14 C15 C16 C17 C18 C19 C20 C21 C22 C23 p0x p0y p1x p1y p2x p2y p3x p3y = glQuad [T0, T1, T2, T3, T4, T5, T6, T7, T8, T9, T10, T11, T12, T13, T14, T15, T16, T17, T18, T19, T20, T21, T22, T23] [C0, C1, C2, C3, C4, C5, C6, C7, C8, C9, C10, C11, C12, C13, C14, C15, C16, C17, C18, C19, C20, C21, C22, C23] (speedC sqrt p0x p0y p1x p1y p2x p2y p3x p3y) := by
  simp only [gen_def, glQuad, speedC, List.zipWith_cons_cons, List.zipWith_nil_left, List.sum_cons, List.sum_nil]
  ring
theorem quad_length_struct (sqrt : K → K) (T0 T1 T2 T3 T4 T5 T6 T7 T8 T9 T10 T11 T12 T13 T14 T15 T16 T17 T18 T19 T20 T21 T22 T23 C0 C1 C2 C3 C4 C5 C6 C7 C8 C9 C10 C11 C12 C13 C14 C15 C16 C17 C18 C19 C20 C21 C22 C23 p0x p0y p1x p1y p2x p2y : K) :
    quad_length_v sqrt T0 T1 T2 T3 T4 T5 T6 T7 T8 T9 T10 T11 T12 T13 T14 T15 T16 T17 T18 T19 T20 T21 T22 T23 C0 C1 C2 C3 C4 C5 C6 C7 C8 C9 C10 C11 C12 C13 C14 C15 C16 C17 C18 C19 C20 C21 C22 C23 p0x p0y p1x p1y p2x p2y = glQuad [T0, T1, T2, T3, T4, T5, T6, T7, T8, T9, T10, T11, T12, T13, T14, T15, T16, T17, T18, T19, T20, T21, T22, T23] [C0, C1, C2, C3, C4, C5, C6, C7, C8, C9, C10, C11, C12, C13, C14, C15, C16, C17, C18, C19, C20, C21, C22, C23] (speedQ sqrt p0x p0y p1x p1y p2x p2y) := by
  simp only [gen_def, glQuad, speedQ, List.zipWith_cons_cons, List.zipWith_nil_left, List.sum_cons, List.sum_nil]
  ring

theorem glQuad_congr (T C : List K) (f g : K → K) (h : ∀ t, f t = g t) : glQuad T C f = glQuad T C g := by
  have : f = g := funext h
  rw [this]

theorem glQuad_smul (T C : List K) (f : K → K) (k : K) : glQuad T C (fun t => k * f t) = k * glQuad T C f := by
  unfold glQuad
  induction T generalizing C with
  | nil => simp
  | cons t ts ih =>
    cases C with
    | nil => simp
    | cons c cs =>
      simp only [List.zipWith_cons_cons, List.sum_cons] at ih ⊢
      have := ih cs
      linear_combination this

theorem glQuad_nonneg (T C : List K) (f : K → K) (hC : ∀ c ∈ C, 0 ≤ c) (hf : ∀ t, 0 ≤ f t) : 0 ≤ glQuad T C f := by
  unfold glQuad
  apply mul_nonneg _ (by norm_num)
  induction T generalizing C with
  | nil => simp
  | cons t ts ih =>
    cases C with
    | nil => simp
    | cons c cs =>
      simp only [List.zipWith_cons_cons, List.sum_cons]
      exact add_nonneg (mul_nonneg (hC c (by simp)) (hf _)) (ih cs (fun x hx => hC x (List.mem_cons_of_mem _ hx)))

theorem glQuad_const (T C : List K) (a : K) (h : T.length = C.length) :
    glQuad T C (fun _ => a) = a * (C.sum * (1 / 2)) := by
  unfold glQuad
  induction T generalizing C with
  | nil => cases C <;> simp_all
  | cons t ts ih =>
    cases C with
    | nil => simp at h
    | cons c cs =>
      simp only [List.zipWith_cons_cons, List.sum_cons, List.length_cons, Nat.add_right_cancel_iff] at h ih ⊢
      have := ih cs h
      linear_combination this

/-- tables made of ± pairs with equal weights (the shape of legendregauss.py) -/
def pairT (l : List (K × K)) : List K := l.flatMap fun p => [-p.1, p.1]
def pairC (l : List (K × K)) : List K := l.flatMap fun p => [p.2, p.2]

/-- for a ± symmetric table the formula is invariant under t ↦ 1 − t (reversal of the curve) -/
theorem glQuad_reflect (l : List (K × K)) (f : K → K) :
    glQuad (pairT l) (pairC l) (fun t => f (1 - t)) = glQuad (pairT l) (pairC l) f := by
  unfold glQuad pairT pairC
  congr 1
  induction l with
  | nil => simp
  | cons p ps ih =>
    simp only [List.flatMap_cons, List.cons_append, List.nil_append, List.zipWith_cons_cons, List.sum_cons] at ih ⊢
    rw [ih]
    have e1 : (1 : K) - (1 / 2 * -p.1 + 1 / 2) = 1 / 2 * p.1 + 1 / 2 := by ring
    have e2 : (1 : K) - (1 / 2 * p.1 + 1 / 2) = 1 / 2 * -p.1 + 1 / 2 := by ring
    rw [e1, e2]; ring

/-! ### identities of `length` that hold exactly (real arithmetic), for any tables -/

theorem cubic_speed_translated (sqrt : K → K) (p0x p0y p1x p1y p2x p2y p3x p3y vx vy t : K) :
    speedC sqrt (cubic_translated_q0x p0x p0y p1x p1y p2x p2y p3x p3y vx vy) (cubic_translated_q0y p0x p0y p1x p1y p2x p2y p3x p3y vx vy) (cubic_translated_q1x p0x p0y p1x p1y p2x p2y p3x p3y vx vy) (cubic_translated_q1y p0x p0y p1x p1y p2x p2y p3x p3y vx vy)
      (cubic_translated_q2x p0x p0y p1x p1y p2x p2y p3x p3y vx vy) (cubic_translated_q2y p0x p0y p1x p1y p2x p2y p3x p3y vx vy) (cubic_translated_q3x p0x p0y p1x p1y p2x p2y p3x p3y vx vy) (cubic_translated_q3y p0x p0y p1x p1y p2x p2y p3x p3y vx vy) t
      = speedC sqrt p0x p0y p1x p1y p2x p2y p3x p3y t := by
  simp only [speedC, gen_def]; ring_nf

/-- length is unchanged by translation -/
theorem cubic_length_translated (sqrt : K → K) (T0 T1 T2 T3 T4 T5 T6 T7 T8 T9 T10 T11 T12 T13 T14 T15 T16 T17 T18 T19 T20 T21 T22 T23 C0 C1 C2 C3 C4 C5 C6 C7 C8 C9 C10 C11 C12 C13 C14 C15 C16 C17 C18 C19 C20 C21 C22 C23 p0x p0y p1x p1y p2x p2y p3x p3y vx vy : K) :
    cubic_length_v sqrt T0 T1 T2 T3 T4 T5 T6 T7 T8 T9 T10 T11 T12 T13 T14 T15 T16 T17 T18 T19 T20 T21 T22 T23 C0 C1 C2 C3 C4 C5 C6 C7 C8 C9 C10 C11 C12 C13 C14 C15 C16 C17 C18 C19 C20 C21 C22 C23 (cubic_translated_q0x p0x p0y p1x p1y p2x p2y p3x p3y vx vy) (cubic_translated_q0y p0x p0y p1x p1y p2x p2y p3x p3y vx vy) (cubic_translated_q1x p0x p0y p1x p1y p2x p2y p3x p3y vx vy) (cubic_translated_q1y p0x p0y p1x p1y p2x p2y p3x p3y vx vy)
      (cubic_translated_q2x p0x p0y p1x p1y p2x p2y p3x p3y vx vy) (cubic_translated_q2y p0x p0y p1x p1y p2x p2y p3x p3y vx vy) (cubic_translated_q3x p0x p0y p1x p1y p2x p2y p3x p3y vx vy) (cubic_translated_q3y p0x p0y p1x p1y p2x p2y p3x p3y vx vy)
      = cubic_length_v sqrt T0 T1 T2 T3 T4 T5 T6 T7 T8 T9 T10 T11 T12 T13 T14 T15 T16 T17 T18 T19 T20 T21 T22 T23 C0 C1 C2 C3 C4 C5 C6 C7 C8 C9 C10 C11 C12 C13 C14 C15 C16 C17 C18 C19 C20 C21 C22 C23 p0x p0y p1x p1y p2x p2y p3x p3y := by
  rw [cubic_length_struct, cubic_length_struct]
  exact glQuad_congr _ _ _ _ (fun t => cubic_speed_translated sqrt p0x p0y p1x p1y p2x p2y p3x p3y vx vy t)

theorem cubic_speed_reversed (sqrt : K → K) (p0x p0y p1x p1y p2x p2y p3x p3y t : K) :
    speedC sqrt p3x p3y p2x p2y p1x p1y p0x p0y t = speedC sqrt p0x p0y p1x p1y p2x p2y p3x p3y (1 - t) := by
  simp only [speedC, gen_def]; ring_nf

/-- length is unchanged by reversal when the table is ± symmetric -/
theorem cubic_length_reversed_sym (sqrt : K → K) (l : List (K × K)) (T0 T1 T2 T3 T4 T5 T6 T7 T8 T9 T10 T11 T12 T13 T14 T15 T16 T17 T18 T19 T20 T21 T22 T23 C0 C1 C2 C3 C4 C5 C6 C7 C8 C9 C10 C11 C12 C13 C14 C15 C16 C17 C18 C19 C20 C21 C22 C23 p0x p0y p1x p1y p2x p2y p3x p3y : K)
    (hT : [T0, T1, T2, T3, T4, T5, T6, T7, T8, T9, T10, T11, T12, T13, T14, T15, T16, T17, T18, T19, T20, T21, T22, T23] = pairT l) (hC : [C0, C1, C2, C3, C4, C5, C6, C7, C8, C9, C10, C11, C12, C13, C14, C15, C16, C17, C18, C19, C20, C21, C22, C23] = pairC l) :
    cubic_length_v sqrt T0 T1 T2 T3 T4 T5 T6 T7 T8 T9 T10 T11 T12 T13 T14 T15 T16 T17 T18 T19 T20 T21 T22 T23 C0 C1 C2 C3 C4 C5 C6 C7 C8 C9 C10 C11 C12 C13 C14 C15 C16 C17 C18 C19 C20 C21 C22 C23 p3x p3y p2x p2y p1x p1y p0x p0y = cubic_length_v sqrt T0 T1 T2 T3 T4 T5 T6 T7 T8 T9 T10 T11 T12 T13 T14 T15 T16 T17 T18 T19 T20 T21 T22 T23 C0 C1 C2 C3 C4 C5 C6 C7 C8 C9 C10 C11 C12 C13 C14 C15 C16 C17 C18 C19 C20 C21 C22 C23 p0x p0y p1x p1y p2x p2y p3x p3y := by
  rw [cubic_length_struct, cubic_length_struct, hT, hC]
  rw [glQuad_congr _ _ _ _ (fun t => cubic_speed_reversed sqrt p0x p0y p1x p1y p2x p2y p3x p3y t)]
  exact glQuad_reflect l (speedC sqrt p0x p0y p1x p1y p2x p2y p3x p3y)
end generic

/-! ### the actual tables -/

/-- the (abscissa, weight) pairs of legendregauss.py, read off the generated tables -/
noncomputable def glPairs : List (ℝ × ℝ) :=
  (List.range 12).map fun i => ((gl_Tvalues (K := ℝ)).getD (2 * i + 1) 0, (gl_Cvalues (K := ℝ)).getD (2 * i + 1) 0)

theorem table_symmetric : gl_Tvalues (K := ℝ) = pairT glPairs ∧ gl_Cvalues (K := ℝ) = pairC glPairs := by
  constructor <;> simp [glPairs, gl_Tvalues, gl_Cvalues, pairT, pairC, List.range, List.range.loop]

theorem table_facts :
    (gl_Tvalues (K := ℚ)).length = 24 ∧ (gl_Cvalues (K := ℚ)).length = 24 ∧
    (∀ c ∈ gl_Cvalues (K := ℚ), 0 < c) ∧ (∀ t ∈ gl_Tvalues (K := ℚ), -1 < t ∧ t < 1) ∧
    |(gl_Cvalues (K := ℚ)).sum * (1 / 2) - 1| ≤ 1 / 10 ^ 15 := by
  refine ⟨by simp [gl_Tvalues], by simp [gl_Cvalues], ?_, ?_, ?_⟩
  · simp only [gl_Cvalues]; intro c hc; simp only [List.mem_cons, List.mem_nil_iff, or_false] at hc
    rcases hc with rfl | rfl | rfl | rfl | rfl | rfl | rfl | rfl | rfl | rfl | rfl | rfl | rfl | rfl | rfl | rfl | rfl | rfl | rfl | rfl | rfl | rfl | rfl | rfl <;> norm_num
  · simp only [gl_Tvalues]; intro c hc; simp only [List.mem_cons, List.mem_nil_iff, or_false] at hc
    rcases hc with rfl | rfl | rfl | rfl | rfl | rfl | rfl | rfl | rfl | rfl | rfl | rfl | rfl | rfl | rfl | rfl | rfl | rfl | rfl | rfl | rfl | rfl | rfl | rfl <;> norm_num
  · simp only [gl_Cvalues, List.sum_cons, List.sum_nil]; rw [abs_le]; constructor <;> norm_num

/-! ### over the reals: Euclidean line length, scaling by |k|, non-negativity -/

theorem line_length_euclid (p0x p0y p1x p1y : ℝ) :
    line_length_v Real.sqrt p0x p0y p1x p1y = Real.sqrt ((p0x - p1x) ^ 2 + (p0y - p1y) ^ 2) := by
  simp only [gen_def]; congr 1; ring

theorem sqrt_scale (k a b : ℝ) : Real.sqrt ((k * a) * (k * a) + (k * b) * (k * b)) = |k| * Real.sqrt (a * a + b * b) := by
  have : (k * a) * (k * a) + (k * b) * (k * b) = k ^ 2 * (a * a + b * b) := by ring
  rw [this, Real.sqrt_mul (sq_nonneg k), Real.sqrt_sq_eq_abs]

theorem cubic_speed_scaled (p0x p0y p1x p1y p2x p2y p3x p3y k t : ℝ) :
    speedC Real.sqrt (cubic_scaled_q0x p0x p0y p1x p1y p2x p2y p3x p3y k) (cubic_scaled_q0y p0x p0y p1x p1y p2x p2y p3x p3y k) (cubic_scaled_q1x p0x p0y p1x p1y p2x p2y p3x p3y k) (cubic_scaled_q1y p0x p0y p1x p1y p2x p2y p3x p3y k)
      (cubic_scaled_q2x p0x p0y p1x p1y p2x p2y p3x p3y k) (cubic_scaled_q2y p0x p0y p1x p1y p2x p2y p3x p3y k) (cubic_scaled_q3x p0x p0y p1x p1y p2x p2y p3x p3y k) (cubic_scaled_q3y p0x p0y p1x p1y p2x p2y p3x p3y k) t
      = |k| * speedC Real.sqrt p0x p0y p1x p1y p2x p2y p3x p3y t := by
  simp only [speedC]
  rw [← sqrt_scale]
  congr 1
  simp only [gen_def]; ring

/-- length is multiplied by |k| under scaling by k -/
theorem cubic_length_scaled (T0 T1 T2 T3 T4 T5 T6 T7 T8 T9 T10 T11 T12 T13 T14 T15 T16 T17 T18 T19 T20 T21 T22 T23 C0 C1 C2 C3 C4 C5 C6 C7 C8 C9 C10 C11 C12 C13 C14 C15 C16 C17 C18 C19 C20 C21 C22 C23 p0x p0y p1x p1y p2x p2y p3x p3y k : ℝ) :
    cubic_length_v Real.sqrt T0 T1 T2 T3 T4 T5 T6 T7 T8 T9 T10 T11 T12 T13 T14 T15 T16 T17 T18 T19 T20 T21 T22 T23 C0 C1 C2 C3 C4 C5 C6 C7 C8 C9 C10 C11 C12 C13 C14 C15 C16 C17 C18 C19 C20 C21 C22 C23 (cubic_scaled_q0x p0x p0y p1x p1y p2x p2y p3x p3y k) (cubic_scaled_q0y p0x p0y p1x p1y p2x p2y p3x p3y k) (cubic_scaled_q1x p0x p0y p1x p1y p2x p2y p3x p3y k) (cubic_scaled_q1y p0x p0y p1x p1y p2x p2y p3x p3y k)
      (cubic_scaled_q2x p0x p0y p1x p1y p2x p2y p3x p3y k) (cubic_scaled_q2y p0x p0y p1x p1y p2x p2y p3x p3y k) (cubic_scaled_q3x p0x p0y p1x p1y p2x p2y p3x p3y k) (cubic_scaled_q3y p0x p0y p1x p1y p2x p2y p3x p3y k)
      = |k| * cubic_length_v Real.sqrt T0 T1 T2 T3 T4 T5 T6 T7 T8 T9 T10 T11 T12 T13 T14 T15 T16 T17 T18 T19 T20 T21 T22 T23 C0 C1 C2 C3 C4 C5 C6 C7 C8 C9 C10 C11 C12 C13 C14 C15 C16 C17 C18 C19 C20 C21 C22 C23 p0x p0y p1x p1y p2x p2y p3x p3y := by
  rw [cubic_length_struct, cubic_length_struct, ← glQuad_smul]
  exact glQuad_congr _ _ _ _ (fun t => cubic_speed_scaled p0x p0y p1x p1y p2x p2y p3x p3y k t)

/-- rotation about the origin by an angle with (cos, sin) = (c, s) leaves the speed unchanged -/
theorem cubic_speed_rotated (p0x p0y p1x p1y p2x p2y p3x p3y c s t : ℝ) (h : c * c + s * s = 1) :
    speedC Real.sqrt (c * p0x - s * p0y) (s * p0x + c * p0y) (c * p1x - s * p1y) (s * p1x + c * p1y)
      (c * p2x - s * p2y) (s * p2x + c * p2y) (c * p3x - s * p3y) (s * p3x + c * p3y) t = speedC Real.sqrt p0x p0y p1x p1y p2x p2y p3x p3y t := by
  simp only [speedC]
  congr 1
  simp only [gen_def]
  have h2 : s * s = 1 - c * c := by linarith
  ring_nf
  rw [show s ^ 2 = 1 - c ^ 2 by nlinarith]
  ring

theorem cubic_length_rotated (T0 T1 T2 T3 T4 T5 T6 T7 T8 T9 T10 T11 T12 T13 T14 T15 T16 T17 T18 T19 T20 T21 T22 T23 C0 C1 C2 C3 C4 C5 C6 C7 C8 C9 C10 C11 C12 C13 C14 C15 C16 C17 C18 C19 C20 C21 C22 C23 p0x p0y p1x p1y p2x p2y p3x p3y c s : ℝ) (h : c * c + s * s = 1) :
    cubic_length_v Real.sqrt T0 T1 T2 T3 T4 T5 T6 T7 T8 T9 T10 T11 T12 T13 T14 T15 T16 T17 T18 T19 T20 T21 T22 T23 C0 C1 C2 C3 C4 C5 C6 C7 C8 C9 C10 C11 C12 C13 C14 C15 C16 C17 C18 C19 C20 C21 C22 C23 (c * p0x - s * p0y) (s * p0x + c * p0y) (c * p1x - s * p1y) (s * p1x + c * p1y)
      (c * p2x - s * p2y) (s * p2x + c * p2y) (c * p3x - s * p3y) (s * p3x + c * p3y)
      = cubic_length_v Real.sqrt T0 T1 T2 T3 T4 T5 T6 T7 T8 T9 T10 T11 T12 T13 T14 T15 T16 T17 T18 T19 T20 T21 T22 T23 C0 C1 C2 C3 C4 C5 C6 C7 C8 C9 C10 C11 C12 C13 C14 C15 C16 C17 C18 C19 C20 C21 C22 C23 p0x p0y p1x p1y p2x p2y p3x p3y := by
  rw [cubic_length_struct, cubic_length_struct]
  exact glQuad_congr _ _ _ _ (fun t => cubic_speed_rotated p0x p0y p1x p1y p2x p2y p3x p3y c s t h)

/-- with the actual (symmetric) table, length is unchanged by reversal -/
theorem cubic_length_reversed (p0x p0y p1x p1y p2x p2y p3x p3y : ℝ) :
    glQuad (gl_Tvalues (K := ℝ)) gl_Cvalues (speedC Real.sqrt p3x p3y p2x p2y p1x p1y p0x p0y)
      = glQuad (gl_Tvalues (K := ℝ)) gl_Cvalues (speedC Real.sqrt p0x p0y p1x p1y p2x p2y p3x p3y) := by
  rw [table_symmetric.1, table_symmetric.2]
  rw [glQuad_congr _ _ _ _ (fun t => cubic_speed_reversed Real.sqrt p0x p0y p1x p1y p2x p2y p3x p3y t)]
  exact glQuad_reflect glPairs (speedC Real.sqrt p0x p0y p1x p1y p2x p2y p3x p3y)

/-- non-negative for non-negative weights -/
theorem cubic_length_nonneg (T0 T1 T2 T3 T4 T5 T6 T7 T8 T9 T10 T11 T12 T13 T14 T15 T16 T17 T18 T19 T20 T21 T22 T23 C0 C1 C2 C3 C4 C5 C6 C7 C8 C9 C10 C11 C12 C13 C14 C15 C16 C17 C18 C19 C20 C21 C22 C23 p0x p0y p1x p1y p2x p2y p3x p3y : ℝ) (hC : ∀ c ∈ ([C0, C1, C2, C3, C4, C5, C6, C7, C8, C9, C10, C11, C12, C13, C14, C15, C16, C17, C18, C19, C20, C21, C22, C23] : List ℝ), 0 ≤ c) :
    0 ≤ cubic_length_v Real.sqrt T0 T1 T2 T3 T4 T5 T6 T7 T8 T9 T10 T11 T12 T13 T14 T15 T16 T17 T18 T19 T20 T21 T22 T23 C0 C1 C2 C3 C4 C5 C6 C7 C8 C9 C10 C11 C12 C13 C14 C15 C16 C17 C18 C19 C20 C21 C22 C23 p0x p0y p1x p1y p2x p2y p3x p3y := by
  rw [cubic_length_struct]
  exact glQuad_nonneg _ _ _ hC (fun t => Real.sqrt_nonneg _)

end C04
