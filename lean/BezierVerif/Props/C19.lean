/-
  C19 — bounding-box predicates and the sweep pairing match their definitions.
  `includes` / `overlaps`: theorems about Gen/Box.lean (regenerated from boundingbox.py).
  Sweep: theorems about Model/Sweep.lean with the *generated* overlap test plugged in.
-/
import BezierVerif.Gen.Box
import BezierVerif.Model.Sweep
import BezierVerif.Tactics

set_option linter.unusedSectionVars false
set_option linter.unusedVariables false
set_option linter.unusedTactic false
set_option linter.unnecessarySeqFocus false

namespace C19
open Gen Sweep
variable {K : Type} [Field K] [LinearOrder K] [IsStrictOrderedRing K]

/-! ### the two predicates -/

/-- a box includes a point iff the point lies in the closed x-range and the closed y-range -/
theorem includes_iff (l1 b1 r1 t1 px py : K) :
    bbox_includes l1 b1 r1 t1 px py = true ↔ (l1 ≤ px ∧ px ≤ r1) ∧ (b1 ≤ py ∧ py ≤ t1) := by
  simp only [gen_def]
  split_ifs <;> simp_all <;> (try constructor) <;> (try linarith) <;> (intros; linarith)

/-- two boxes overlap iff their closed x-ranges intersect and their closed y-ranges intersect -/
theorem overlaps_iff (l1 b1 r1 t1 l2 b2 r2 t2 : K) :
    bbox_overlaps l1 b1 r1 t1 l2 b2 r2 t2 = true ↔ (l2 ≤ r1 ∧ l1 ≤ r2) ∧ (b2 ≤ t1 ∧ b1 ≤ t2) := by
  simp only [gen_def]
  split_ifs <;> simp_all <;> (try constructor) <;> (try linarith) <;> (intros; linarith)

theorem overlaps_symm (l1 b1 r1 t1 l2 b2 r2 t2 : K) :
    bbox_overlaps l1 b1 r1 t1 l2 b2 r2 t2 = bbox_overlaps l2 b2 r2 t2 l1 b1 r1 t1 := by
  rw [Bool.eq_iff_iff, overlaps_iff, overlaps_iff]; tauto

/-- degenerate boxes are covered: a zero-width, zero-height box includes exactly its own point -/
example : bbox_includes (3 : ℚ) 4 3 4 3 4 = true := by rw [includes_iff]; norm_num
example : bbox_overlaps (0 : ℚ) 0 1 1 1 1 2 2 = true := by rw [overlaps_iff]; norm_num

/-! ### the sweep -/

structure Box (K : Type) where
  l : K
  b : K
  r : K
  t : K

/-- the overlap test the sweep performs: the generated `BoundingBox.overlaps` on the shapes' boxes -/
def ovOf (box : Obj → Box K) (o o2 : Obj) : Bool :=
  bbox_overlaps (box o).l (box o).b (box o).r (box o).t (box o2).l (box o2).b (box o2).r (box o2).t

def key (box : Obj → Box K) : Ev → K
  | .add o => (box o).l
  | .rem o => (box o).r

theorem foldl_step_out_mono (ov : Obj → Obj → Bool) (s : St) (evs : List Ev) (p : Obj × Obj) (h : p ∈ s.out) :
    p ∈ (evs.foldl (step ov) s).out := by
  induction evs generalizing s with
  | nil => exact h
  | cons e es ih =>
    apply ih
    cases e with
    | add o => simp only [step]; split <;> simp [h]
    | rem o => simp only [step]; split <;> exact h

/-- **soundness**: every emitted pair joins one shape of each collection and their boxes overlap
    (as decided by the generated `overlaps`, hence by `overlaps_iff`) — for every event order. -/
theorem sweep_sound_aux (ov : Obj → Obj → Bool) (evs : List Ev) :
    ∀ s : St, (∀ o ∈ s.actA, o.side = false) → (∀ o ∈ s.actB, o.side = true) →
      (∀ p ∈ s.out, ov p.1 p.2 = true ∧ p.1.side ≠ p.2.side) →
      ∀ p ∈ (evs.foldl (step ov) s).out, ov p.1 p.2 = true ∧ p.1.side ≠ p.2.side := by
  induction evs with
  | nil => intro s _ _ h; exact h
  | cons e es ih =>
    intro s hA hB hout
    apply ih
    · cases e with
      | add o => simp only [step]; split
                 · rename_i hs; intro x hx; simp at hx; rcases hx with hx | hx; exact hA x hx; subst hx; exact hs
                 · exact hA
      | rem o => simp only [step]; split
                 · intro x hx; simp at hx; exact hA x hx.1
                 · exact hA
    · cases e with
      | add o => simp only [step]; split
                 · exact hB
                 · rename_i hs; intro x hx; simp at hx; rcases hx with hx | hx; exact hB x hx; subst hx; simpa using hs
      | rem o => simp only [step]; split
                 · exact hB
                 · intro x hx; simp at hx; exact hB x hx.1
    · cases e with
      | add o =>
        simp only [step]; split
        · rename_i hs
          intro p hp; simp at hp
          rcases hp with hp | ⟨o2, ⟨ho2, hov⟩, rfl⟩
          · exact hout p hp
          · exact ⟨hov, by simp [hs, hB o2 ho2]⟩
        · rename_i hs
          intro p hp; simp at hp
          rcases hp with hp | ⟨o2, ⟨ho2, hov⟩, rfl⟩
          · exact hout p hp
          · have : o.side = true := by simpa using hs
            exact ⟨hov, by simp [this, hA o2 ho2]⟩
      | rem o => simp only [step]; split <;> exact hout

theorem sweep_sound (box : Obj → Box K) (evs : List Ev) (p : Obj × Obj) (hp : p ∈ (run (ovOf box) evs).out) :
    p.1.side ≠ p.2.side ∧
    (((box p.2).l ≤ (box p.1).r ∧ (box p.1).l ≤ (box p.2).r) ∧ ((box p.2).b ≤ (box p.1).t ∧ (box p.1).b ≤ (box p.2).t)) := by
  have h := sweep_sound_aux (ovOf box) evs ⟨[], [], []⟩ (by simp) (by simp) (by simp) p hp
  exact ⟨h.2, (overlaps_iff _ _ _ _ _ _ _ _).mp h.1⟩

def active (s : St) (o : Obj) : Prop := if o.side = false then o ∈ s.actA else o ∈ s.actB

theorem active_after_add (ov : Obj → Obj → Bool) (s : St) (o : Obj) : active (step ov s (.add o)) o := by
  unfold active step
  by_cases h : o.side = false <;> simp [h]

theorem active_preserved (ov : Obj → Obj → Bool) (s : St) (o : Obj) (e : Ev) (he : e ≠ .rem o) (h : active s o) :
    active (step ov s e) o := by
  unfold active at *
  cases e with
  | add o' =>
    simp only [step]
    by_cases h1 : o.side = false <;> by_cases h2 : o'.side = false <;> simp_all
  | rem o' =>
    have hne : o ≠ o' := by intro hh; apply he; rw [hh]
    simp only [step]
    by_cases h1 : o.side = false <;> by_cases h2 : o'.side = false <;> simp_all

theorem active_foldl (ov : Obj → Obj → Bool) (l : List Ev) (o : Obj) (hl : Ev.rem o ∉ l) :
    ∀ s, active s o → active (l.foldl (step ov) s) o := by
  induction l with
  | nil => intro s h; exact h
  | cons e es ih =>
    intro s h
    simp only [List.foldl_cons]
    apply ih (by intro hh; exact hl (by simp [hh]))
    exact active_preserved ov s o e (by intro hh; exact hl (by simp [hh])) h

/-- completeness core: if `x` is added, not removed before `y` from the other side is added, and the
    overlap test succeeds, the pair is reported. -/
theorem complete_core (ov : Obj → Obj → Bool) (l1 l2 l3 : List Ev) (x y : Obj) (hside : x.side ≠ y.side)
    (hov : ov y x = true) (hnr : Ev.rem x ∉ l2) :
    (y, x) ∈ (run ov (l1 ++ Ev.add x :: l2 ++ Ev.add y :: l3)).out := by
  unfold run
  rw [List.foldl_append, List.foldl_cons, List.foldl_append, List.foldl_cons]
  apply foldl_step_out_mono
  generalize l1.foldl (step ov) ⟨[], [], []⟩ = s1
  have hact : active (l2.foldl (step ov) (step ov s1 (.add x))) x :=
    active_foldl ov l2 x hnr _ (active_after_add ov s1 x)
  generalize l2.foldl (step ov) (step ov s1 (.add x)) = s2 at hact ⊢
  unfold active at hact
  simp only [step]
  by_cases hy : y.side = false
  · have hx : x.side = true := by
      cases hxs : x.side with
      | true => rfl
      | false => exact absurd (hxs.trans hy.symm) hside
    simp [hy, hx] at hact ⊢
    right; exact ⟨hact, hov⟩
  · have hy' : y.side = true := by simpa using hy
    have hx : x.side = false := by
      cases hxs : x.side with
      | false => rfl
      | true => exact absurd (hxs.trans hy'.symm) hside
    simp [hy, hx] at hact ⊢
    right; exact ⟨hact, hov⟩

/-- In a list sorted by key, two members with strictly ordered keys appear in that order. -/
theorem sorted_split (box : Obj → Box K) (evs : List Ev)
    (hs : evs.Pairwise (fun a b => key box a ≤ key box b)) (e1 e2 : Ev) (h1 : e1 ∈ evs) (h2 : e2 ∈ evs)
    (hk : key box e1 < key box e2) :
    ∃ l1 l2 l3, evs = l1 ++ e1 :: l2 ++ e2 :: l3 ∧ ∀ e ∈ l2, key box e ≤ key box e2 := by
  induction evs with
  | nil => simp at h1
  | cons a as ih =>
    rw [List.pairwise_cons] at hs
    obtain ⟨ha, has⟩ := hs
    rcases List.mem_cons.mp h1 with rfl | h1'
    · -- e1 is the head; e2 must be in the tail
      rcases List.mem_cons.mp h2 with rfl | h2'
      · exact absurd hk (lt_irrefl _)
      · obtain ⟨m, n, hmn⟩ := List.append_of_mem h2'
        -- choose the first occurrence split of e2 in `as`
        refine ⟨[], m, n, by simp [hmn], ?_⟩
        intro e he
        have : e ∈ as := by rw [hmn]; simp [he]
        rw [hmn] at has
        have hp := List.pairwise_append.mp has
        exact hp.2.2 e he e2 (by simp)
    · rcases List.mem_cons.mp h2 with rfl | h2'
      · -- e2 is the head but e1 is later with a smaller key: contradiction with sortedness
        have := ha e1 h1'
        exact absurd (lt_of_lt_of_le hk this) (lt_irrefl _)
      · obtain ⟨l1, l2, l3, he, hl2⟩ := ih has h1' h2'
        exact ⟨a :: l1, l2, l3, by simp [he], hl2⟩

/-- **completeness**: for *every* ordering of the instructions that is sorted by key (whatever the sort
    does with ties), a pair of shapes from the two collections whose boxes overlap, with x-ranges
    overlapping in positive length, is reported (in one orientation or the other). -/
theorem sweep_complete (box : Obj → Box K) (evs : List Ev)
    (hs : evs.Pairwise (fun a b => key box a ≤ key box b))
    (x y : Obj) (hside : x.side ≠ y.side)
    (hx : Ev.add x ∈ evs) (hy : Ev.add y ∈ evs)
    (hov : ovOf box x y = true)
    (hpos : max (box x).l (box y).l < min (box x).r (box y).r) :
    (x, y) ∈ (run (ovOf box) evs).out ∨ (y, x) ∈ (run (ovOf box) evs).out := by
  have hov' : ovOf box y x = true := by
    unfold ovOf at *; rw [overlaps_symm]; exact hov
  have hxl : (box x).l < (box y).r := lt_of_le_of_lt (le_max_left _ _) (lt_of_lt_of_le hpos (min_le_right _ _))
  have hyl : (box y).l < (box x).r := lt_of_le_of_lt (le_max_right _ _) (lt_of_lt_of_le hpos (min_le_left _ _))
  -- which add comes first?
  have hne : Ev.add x ≠ Ev.add y := by
    intro h; injection h with h; exact hside (by rw [h])
  -- general lemma: if add a occurs before add b in evs (as a decomposition), conclude
  have main : ∀ a b : Obj, a.side ≠ b.side → ovOf box b a = true → (box b).l < (box a).r →
      (∃ l1 l2 l3, evs = l1 ++ Ev.add a :: l2 ++ Ev.add b :: l3) → (b, a) ∈ (run (ovOf box) evs).out := by
    intro a b hsd ho hlt ⟨l1, l2, l3, he⟩
    rw [he]
    apply complete_core _ _ _ _ _ _ hsd ho
    intro hmem
    -- rem a ∈ l2 would put an event with key (box a).r before add b with key (box b).l < (box a).r
    rw [he] at hs
    have h1 : (l1 ++ Ev.add a :: l2 ++ Ev.add b :: l3) = (l1 ++ Ev.add a :: l2) ++ (Ev.add b :: l3) := by simp
    rw [h1] at hs
    have hp := (List.pairwise_append.mp hs).2.2 (Ev.rem a) (by simp [hmem]) (Ev.add b) (by simp)
    simp only [key] at hp
    exact absurd (lt_of_lt_of_le hlt hp) (lt_irrefl _)
  -- order of the two adds
  obtain ⟨m, n, hmn⟩ := List.append_of_mem hx
  rw [hmn] at hy
  rcases List.mem_append.mp hy with hy1 | hy2
  · -- add y in m (before add x)
    obtain ⟨m1, m2, hm⟩ := List.append_of_mem hy1
    left
    exact main y x (fun h => hside h.symm) hov hxl ⟨m1, m2, n, by rw [hmn, hm]; try simp⟩
  · rcases List.mem_cons.mp hy2 with h | h
    · exact absurd h.symm hne
    · obtain ⟨n1, n2, hn⟩ := List.append_of_mem h
      right
      exact main x y hside hov' hyl ⟨m, n1, n2, by rw [hmn, hn]; try simp⟩

/-- every `add` instruction is in the instruction list (so the hypothesis of `sweep_complete` is met
    by any permutation of it, in particular by the sorted list) -/
theorem add_mem_instructions (nA nB : Nat) (o : Obj) (h : if o.side = false then o.idx < nA else o.idx < nB) :
    Ev.add o ∈ instructions nA nB := by
  unfold instructions
  rcases o with ⟨sd, i⟩
  cases sd <;> simp at h ⊢ <;> exact h

end C19
