/-
  C19 — bounding-box predicates and the sweep pairing match their definitions.
  `includes` / `overlaps`: theorems about Gen/Box.lean (regenerated from boundingbox.py).
  Sweep: theorems about Model/Sweep.lean with the *generated* overlap test plugged in.
-/
import BezierVerif.Gen.Box
import BezierVerif.Model.Sweep
import BezierVerif.Tactics
import Mathlib.Data.List.Nodup

set_option linter.unusedSectionVars false
set_option linter.unusedVariables false
set_option linter.unusedTactic false
set_option linter.unnecessarySeqFocus false

namespace C19
open Gen Sweep
variable {K : Type} [Field K] [LinearOrder K] [IsStrictOrderedRing K]

/-! ### the two predicates -/

/-- a box includes a point iff the point lies in the closed x-range and the closed y-range -/
theorem includes_iff (l1 b1 r1 t1 px py : K) :
    bbox_includes l1 b1 r1 t1 px py = true ↔ (l1 ≤ px ∧ px ≤ r1) ∧ (b1 ≤ py ∧ py ≤ t1) := by
  simp only [gen_def]
  split_ifs <;> simp_all <;> (try constructor) <;> (try linarith) <;> (intros; linarith)

/-- two boxes overlap iff their closed x-ranges intersect and their closed y-ranges intersect -/
theorem overlaps_iff (l1 b1 r1 t1 l2 b2 r2 t2 : K) :
    bbox_overlaps l1 b1 r1 t1 l2 b2 r2 t2 = true ↔ (l2 ≤ r1 ∧ l1 ≤ r2) ∧ (b2 ≤ t1 ∧ b1 ≤ t2) := by
  simp only [gen_def]
  split_ifs <;> simp_all <;> (try constructor) <;> (try linarith) <;> (intros; linarith)

theorem overlaps_symm (l1 b1 r1 t1 l2 b2 r2 t2 : K) :
    bbox_overlaps l1 b1 r1 t1 l2 b2 r2 t2 = bbox_overlaps l2 b2 r2 t2 l1 b1 r1 t1 := by
  rw [Bool.eq_iff_iff, overlaps_iff, overlaps_iff]; tauto

/-- degenerate boxes are covered: a zero-width, zero-height box includes exactly its own point -/
example : bbox_includes (3 : ℚ) 4 3 4 3 4 = true := by rw [includes_iff]; norm_num
example : bbox_overlaps (0 : ℚ) 0 1 1 1 1 2 2 = true := by rw [overlaps_iff]; norm_num

/-! ### the sweep -/

structure Box (K : Type) where
  l : K
  b : K
  r : K
  t : K

/-- the overlap test the sweep performs: the generated `BoundingBox.overlaps` on the shapes' boxes -/
def ovOf (box : Obj → Box K) (o o2 : Obj) : Bool :=
  bbox_overlaps (box o).l (box o).b (box o).r (box o).t (box o2).l (box o2).b (box o2).r (box o2).t

def key (box : Obj → Box K) : Ev → K
  | .add o => (box o).l
  | .rem o => (box o).r

theorem foldl_step_out_mono (ov : Obj → Obj → Bool) (s : St) (evs : List Ev) (p : Obj × Obj) (h : p ∈ s.out) :
    p ∈ (evs.foldl (step ov) s).out := by
  induction evs generalizing s with
  | nil => exact h
  | cons e es ih =>
    apply ih
    cases e with
    | add o => simp only [step]; split <;> simp [h]
    | rem o => simp only [step]; split <;> exact h

/-- **soundness**: every emitted pair joins one shape of each collection and their boxes overlap
    (as decided by the generated `overlaps`, hence by `overlaps_iff`) — for every event order. -/
theorem sweep_sound_aux (ov : Obj → Obj → Bool) (evs : List Ev) :
    ∀ s : St, (∀ o ∈ s.actA, o.side = false) → (∀ o ∈ s.actB, o.side = true) →
      (∀ p ∈ s.out, ov p.1 p.2 = true ∧ p.1.side ≠ p.2.side) →
      ∀ p ∈ (evs.foldl (step ov) s).out, ov p.1 p.2 = true ∧ p.1.side ≠ p.2.side := by
  induction evs with
  | nil => intro s _ _ h; exact h
  | cons e es ih =>
    intro s hA hB hout
    apply ih
    · cases e with
      | add o => simp only [step]; split
                 · rename_i hs; intro x hx; simp at hx; rcases hx with hx | hx; exact hA x hx; subst hx; exact hs
                 · exact hA
      | rem o => simp only [step]; split
                 · intro x hx; simp at hx; exact hA x hx.1
                 · exact hA
    · cases e with
      | add o => simp only [step]; split
                 · exact hB
                 · rename_i hs; intro x hx; simp at hx; rcases hx with hx | hx; exact hB x hx; subst hx; simpa using hs
      | rem o => simp only [step]; split
                 · exact hB
                 · intro x hx; simp at hx; exact hB x hx.1
    · cases e with
      | add o =>
        simp only [step]; split
        · rename_i hs
          intro p hp; simp at hp
          rcases hp with hp | ⟨o2, ⟨ho2, hov⟩, rfl⟩
          · exact hout p hp
          · exact ⟨hov, by simp [hs, hB o2 ho2]⟩
        · rename_i hs
          intro p hp; simp at hp
          rcases hp with hp | ⟨o2, ⟨ho2, hov⟩, rfl⟩
          · exact hout p hp
          · have : o.side = true := by simpa using hs
            exact ⟨hov, by simp [this, hA o2 ho2]⟩
      | rem o => simp only [step]; split <;> exact hout

theorem sweep_sound (box : Obj → Box K) (evs : List Ev) (p : Obj × Obj) (hp : p ∈ (run (ovOf box) evs).out) :
    p.1.side ≠ p.2.side ∧
    (((box p.2).l ≤ (box p.1).r ∧ (box p.1).l ≤ (box p.2).r) ∧ ((box p.2).b ≤ (box p.1).t ∧ (box p.1).b ≤ (box p.2).t)) := by
  have h := sweep_sound_aux (ovOf box) evs ⟨[], [], []⟩ (by simp) (by simp) (by simp) p hp
  exact ⟨h.2, (overlaps_iff _ _ _ _ _ _ _ _).mp h.1⟩

def active (s : St) (o : Obj) : Prop := if o.side = false then o ∈ s.actA else o ∈ s.actB

theorem active_after_add (ov : Obj → Obj → Bool) (s : St) (o : Obj) : active (step ov s (.add o)) o := by
  unfold active step
  by_cases h : o.side = false <;> simp [h]

theorem active_preserved (ov : Obj → Obj → Bool) (s : St) (o : Obj) (e : Ev) (he : e ≠ .rem o) (h : active s o) :
    active (step ov s e) o := by
  unfold active at *
  cases e with
  | add o' =>
    simp only [step]
    by_cases h1 : o.side = false <;> by_cases h2 : o'.side = false <;> simp_all
  | rem o' =>
    have hne : o ≠ o' := by intro hh; apply he; rw [hh]
    simp only [step]
    by_cases h1 : o.side = false <;> by_cases h2 : o'.side = false <;> simp_all

theorem active_foldl (ov : Obj → Obj → Bool) (l : List Ev) (o : Obj) (hl : Ev.rem o ∉ l) :
    ∀ s, active s o → active (l.foldl (step ov) s) o := by
  induction l with
  | nil => intro s h; exact h
  | cons e es ih =>
    intro s h
    simp only [List.foldl_cons]
    apply ih (by intro hh; exact hl (by simp [hh]))
    exact active_preserved ov s o e (by intro hh; exact hl (by simp [hh])) h

/-- completeness core: if `x` is added, not removed before `y` from the other side is added, and the
    overlap test succeeds, the pair is reported. -/
theorem complete_core (ov : Obj → Obj → Bool) (l1 l2 l3 : List Ev) (x y : Obj) (hside : x.side ≠ y.side)
    (hov : ov y x = true) (hnr : Ev.rem x ∉ l2) :
    (y, x) ∈ (run ov (l1 ++ Ev.add x :: l2 ++ Ev.add y :: l3)).out := by
  unfold run
  rw [List.foldl_append, List.foldl_cons, List.foldl_append, List.foldl_cons]
  apply foldl_step_out_mono
  generalize l1.foldl (step ov) ⟨[], [], []⟩ = s1
  have hact : active (l2.foldl (step ov) (step ov s1 (.add x))) x :=
    active_foldl ov l2 x hnr _ (active_after_add ov s1 x)
  generalize l2.foldl (step ov) (step ov s1 (.add x)) = s2 at hact ⊢
  unfold active at hact
  simp only [step]
  by_cases hy : y.side = false
  · have hx : x.side = true := by
      cases hxs : x.side with
      | true => rfl
      | false => exact absurd (hxs.trans hy.symm) hside
    simp [hy, hx] at hact ⊢
    right; exact ⟨hact, hov⟩
  · have hy' : y.side = true := by simpa using hy
    have hx : x.side = false := by
      cases hxs : x.side with
      | false => rfl
      | true => exact absurd (hxs.trans hy'.symm) hside
    simp [hy, hx] at hact ⊢
    right; exact ⟨hact, hov⟩

/-- In a list sorted by key, two members with strictly ordered keys appear in that order. -/
theorem sorted_split (box : Obj → Box K) (evs : List Ev)
    (hs : evs.Pairwise (fun a b => key box a ≤ key box b)) (e1 e2 : Ev) (h1 : e1 ∈ evs) (h2 : e2 ∈ evs)
    (hk : key box e1 < key box e2) :
    ∃ l1 l2 l3, evs = l1 ++ e1 :: l2 ++ e2 :: l3 ∧ ∀ e ∈ l2, key box e ≤ key box e2 := by
  induction evs with
  | nil => simp at h1
  | cons a as ih =>
    rw [List.pairwise_cons] at hs
    obtain ⟨ha, has⟩ := hs
    rcases List.mem_cons.mp h1 with rfl | h1'
    · -- e1 is the head; e2 must be in the tail
      rcases List.mem_cons.mp h2 with rfl | h2'
      · exact absurd hk (lt_irrefl _)
      · obtain ⟨m, n, hmn⟩ := List.append_of_mem h2'
        -- choose the first occurrence split of e2 in `as`
        refine ⟨[], m, n, by simp [hmn], ?_⟩
        intro e he
        have : e ∈ as := by rw [hmn]; simp [he]
        rw [hmn] at has
        have hp := List.pairwise_append.mp has
        exact hp.2.2 e he e2 (by simp)
    · rcases List.mem_cons.mp h2 with rfl | h2'
      · -- e2 is the head but e1 is later with a smaller key: contradiction with sortedness
        have := ha e1 h1'
        exact absurd (lt_of_lt_of_le hk this) (lt_irrefl _)
      · obtain ⟨l1, l2, l3, he, hl2⟩ := ih has h1' h2'
        exact ⟨a :: l1, l2, l3, by simp [he], hl2⟩

/-- **completeness**: for *every* ordering of the instructions that is sorted by key (whatever the sort
    does with ties), a pair of shapes from the two collections whose boxes overlap, with x-ranges
    overlapping in positive length, is reported (in one orientation or the other). -/
theorem sweep_complete (box : Obj → Box K) (evs : List Ev)
    (hs : evs.Pairwise (fun a b => key box a ≤ key box b))
    (x y : Obj) (hside : x.side ≠ y.side)
    (hx : Ev.add x ∈ evs) (hy : Ev.add y ∈ evs)
    (hov : ovOf box x y = true)
    (hpos : max (box x).l (box y).l < min (box x).r (box y).r) :
    (x, y) ∈ (run (ovOf box) evs).out ∨ (y, x) ∈ (run (ovOf box) evs).out := by
  have hov' : ovOf box y x = true := by
    unfold ovOf at *; rw [overlaps_symm]; exact hov
  have hxl : (box x).l < (box y).r := lt_of_le_of_lt (le_max_left _ _) (lt_of_lt_of_le hpos (min_le_right _ _))
  have hyl : (box y).l < (box x).r := lt_of_le_of_lt (le_max_right _ _) (lt_of_lt_of_le hpos (min_le_left _ _))
  -- which add comes first?
  have hne : Ev.add x ≠ Ev.add y := by
    intro h; injection h with h; exact hside (by rw [h])
  -- general lemma: if add a occurs before add b in evs (as a decomposition), conclude
  have main : ∀ a b : Obj, a.side ≠ b.side → ovOf box b a = true → (box b).l < (box a).r →
      (∃ l1 l2 l3, evs = l1 ++ Ev.add a :: l2 ++ Ev.add b :: l3) → (b, a) ∈ (run (ovOf box) evs).out := by
    intro a b hsd ho hlt ⟨l1, l2, l3, he⟩
    rw [he]
    apply complete_core _ _ _ _ _ _ hsd ho
    intro hmem
    -- rem a ∈ l2 would put an event with key (box a).r before add b with key (box b).l < (box a).r
    rw [he] at hs
    have h1 : (l1 ++ Ev.add a :: l2 ++ Ev.add b :: l3) = (l1 ++ Ev.add a :: l2) ++ (Ev.add b :: l3) := by simp
    rw [h1] at hs
    have hp := (List.pairwise_append.mp hs).2.2 (Ev.rem a) (by simp [hmem]) (Ev.add b) (by simp)
    simp only [key] at hp
    exact absurd (lt_of_lt_of_le hlt hp) (lt_irrefl _)
  -- order of the two adds
  obtain ⟨m, n, hmn⟩ := List.append_of_mem hx
  rw [hmn] at hy
  rcases List.mem_append.mp hy with hy1 | hy2
  · -- add y in m (before add x)
    obtain ⟨m1, m2, hm⟩ := List.append_of_mem hy1
    left
    exact main y x (fun h => hside h.symm) hov hxl ⟨m1, m2, n, by rw [hmn, hm]; try simp⟩
  · rcases List.mem_cons.mp hy2 with h | h
    · exact absurd h.symm hne
    · obtain ⟨n1, n2, hn⟩ := List.append_of_mem h
      right
      exact main x y hside hov' hyl ⟨m, n1, n2, by rw [hmn, hn]; try simp⟩

/-- every `add` instruction is in the instruction list (so the hypothesis of `sweep_complete` is met
    by any permutation of it, in particular by the sorted list) -/
theorem add_mem_instructions (nA nB : Nat) (o : Obj) (h : if o.side = false then o.idx < nA else o.idx < nB) :
    Ev.add o ∈ instructions nA nB := by
  unfold instructions
  rcases o with ⟨sd, i⟩
  cases sd <;> simp at h ⊢ <;> exact h

def isAdd : Ev → Bool
  | .add _ => true
  | .rem _ => false

/-- the order of the repaired code: by x, and at equal x additions before removals -/
def LexLe (box : Obj → Box K) (a b : Ev) : Prop :=
  key box a < key box b ∨ (key box a = key box b ∧ (isAdd a = true ∨ isAdd b = false))

/-- **completeness for closed overlap** (the property as stated): with the instructions ordered by x and, at equal x, additions before
    removals, every pair of shapes from the two collections whose boxes overlap — touching in x included — is reported -/
theorem sweep_complete_closed (box : Obj → Box K) (evs : List Ev)
    (hs : evs.Pairwise (LexLe box))
    (x y : Obj) (hside : x.side ≠ y.side)
    (hx : Ev.add x ∈ evs) (hy : Ev.add y ∈ evs)
    (hov : ovOf box x y = true) :
    (x, y) ∈ (run (ovOf box) evs).out ∨ (y, x) ∈ (run (ovOf box) evs).out := by
  have hov' : ovOf box y x = true := by
    unfold ovOf at *; rw [overlaps_symm]; exact hov
  have hgeo := (overlaps_iff _ _ _ _ _ _ _ _).mp hov
  have hxl : (box y).l ≤ (box x).r := hgeo.1.1
  have hyl : (box x).l ≤ (box y).r := hgeo.1.2
  have hne : Ev.add x ≠ Ev.add y := by
    intro h; injection h with h; exact hside (by rw [h])
  have main : ∀ a b : Obj, a.side ≠ b.side → ovOf box b a = true → (box b).l ≤ (box a).r →
      (∃ l1 l2 l3, evs = l1 ++ Ev.add a :: l2 ++ Ev.add b :: l3) → (b, a) ∈ (run (ovOf box) evs).out := by
    intro a b hsd ho hle ⟨l1, l2, l3, he⟩
    rw [he]
    apply complete_core _ _ _ _ _ _ hsd ho
    intro hmem
    rw [he] at hs
    have h1 : (l1 ++ Ev.add a :: l2 ++ Ev.add b :: l3) = (l1 ++ Ev.add a :: l2) ++ (Ev.add b :: l3) := by simp
    rw [h1] at hs
    have hp := (List.pairwise_append.mp hs).2.2 (Ev.rem a) (by simp [hmem]) (Ev.add b) (by simp)
    unfold LexLe at hp
    simp only [key, isAdd] at hp
    rcases hp with hp | ⟨_, hp⟩
    · exact absurd (lt_of_lt_of_le hp hle) (lt_irrefl _)
    · rcases hp with hp | hp <;> simp at hp
  obtain ⟨m, n, hmn⟩ := List.append_of_mem hx
  rw [hmn] at hy
  rcases List.mem_append.mp hy with hy1 | hy2
  · obtain ⟨m1, m2, hm⟩ := List.append_of_mem hy1
    left
    exact main y x (fun h => hside h.symm) hov hyl ⟨m1, m2, n, by rw [hmn, hm]; try simp⟩
  · rcases List.mem_cons.mp hy2 with h | h
    · exact absurd h.symm hne
    · obtain ⟨n1, n2, hn⟩ := List.append_of_mem h
      right
      exact main x y hside hov' hxl ⟨m, n1, n2, by rw [hmn, hn]; try simp⟩

/-- **F27**: one box ending at x = 10 from the first collection, one beginning at x = 10 from the second (they overlap: closed ranges).
    In the pinned order — sorted by x alone, ties left as generated: the first box's removal before the second's addition — nothing is
    reported; with additions first the pair is reported -/
theorem pinned_tie_counterexample :
    let box : Obj → Box ℚ := fun o => if o.side then ⟨10, 0, 20, 5⟩ else ⟨0, 0, 10, 5⟩
    (run (ovOf box) [Ev.add ⟨false, 0⟩, Ev.rem ⟨false, 0⟩, Ev.add ⟨true, 0⟩, Ev.rem ⟨true, 0⟩]).out = []
    ∧ (run (ovOf box) [Ev.add ⟨false, 0⟩, Ev.add ⟨true, 0⟩, Ev.rem ⟨false, 0⟩, Ev.rem ⟨true, 0⟩]).out = [(⟨true, 0⟩, ⟨false, 0⟩)]
    ∧ ovOf box ⟨false, 0⟩ ⟨true, 0⟩ = true := by
  decide +kernel

/-- the objects added by a list of instructions, in order -/
def adds : List Ev → List Obj
  | [] => []
  | .add o :: es => o :: adds es
  | .rem _ :: es => adds es

/-- invariant of the event loop with respect to the objects added so far -/
structure Inv (s : St) (seen : List Obj) : Prop where
  a_sub : ∀ o ∈ s.actA, o ∈ seen
  b_sub : ∀ o ∈ s.actB, o ∈ seen
  a_nd : s.actA.Nodup
  b_nd : s.actB.Nodup
  out_fst : ∀ p ∈ s.out, p.1 ∈ seen
  out_nd : s.out.Nodup

theorem inv_step_add (ov : Obj → Obj → Bool) (s : St) (seen : List Obj) (o : Obj) (h : Inv s seen) (hn : o ∉ seen) :
    Inv (step ov s (.add o)) (seen ++ [o]) := by
  obtain ⟨ha, hb, nda, ndb, hf, ndo⟩ := h
  simp only [step]
  split
  · refine ⟨?_, ?_, ?_, ndb, ?_, ?_⟩
    · intro x hx; simp at hx ⊢; rcases hx with hx | hx; exact Or.inl (ha x hx); exact Or.inr hx
    · intro x hx; simp; exact Or.inl (hb x hx)
    · rw [List.nodup_append]; refine ⟨nda, by simp, ?_⟩
      intro x hx y hy; simp at hy; subst hy; intro he; subst he; exact hn (ha _ hx)
    · intro p hp; simp at hp ⊢
      rcases hp with hp | ⟨o2, _, rfl⟩
      · exact Or.inl (hf p hp)
      · exact Or.inr rfl
    · rw [List.nodup_append]
      refine ⟨ndo, ?_, ?_⟩
      · exact List.Nodup.map (fun a b hab => (Prod.mk.inj hab).2) (ndb.filter _)
      · intro p hp q hq; simp at hq
        obtain ⟨o2, _, rfl⟩ := hq
        intro he; subst he; exact hn (hf _ hp)
  · refine ⟨?_, ?_, nda, ?_, ?_, ?_⟩
    · intro x hx; simp; exact Or.inl (ha x hx)
    · intro x hx; simp at hx ⊢; rcases hx with hx | hx; exact Or.inl (hb x hx); exact Or.inr hx
    · rw [List.nodup_append]; refine ⟨ndb, by simp, ?_⟩
      intro x hx y hy; simp at hy; subst hy; intro he; subst he; exact hn (hb _ hx)
    · intro p hp; simp at hp ⊢
      rcases hp with hp | ⟨o2, _, rfl⟩
      · exact Or.inl (hf p hp)
      · exact Or.inr rfl
    · rw [List.nodup_append]
      refine ⟨ndo, ?_, ?_⟩
      · exact List.Nodup.map (fun a b hab => (Prod.mk.inj hab).2) (nda.filter _)
      · intro p hp q hq; simp at hq
        obtain ⟨o2, _, rfl⟩ := hq
        intro he; subst he; exact hn (hf _ hp)

theorem inv_step_rem (ov : Obj → Obj → Bool) (s : St) (seen : List Obj) (o : Obj) (h : Inv s seen) :
    Inv (step ov s (.rem o)) seen := by
  obtain ⟨ha, hb, nda, ndb, hf, ndo⟩ := h
  simp only [step]
  split
  · exact ⟨fun x hx => ha x (List.mem_filter.mp hx).1, hb, nda.filter _, ndb, hf, ndo⟩
  · exact ⟨ha, fun x hx => hb x (List.mem_filter.mp hx).1, nda, ndb.filter _, hf, ndo⟩

theorem inv_foldl (ov : Obj → Obj → Bool) (evs : List Ev) :
    ∀ (s : St) (seen : List Obj), Inv s seen → (seen ++ adds evs).Nodup → Inv (evs.foldl (step ov) s) (seen ++ adds evs) := by
  induction evs with
  | nil => intro s seen h _; simpa [adds] using h
  | cons e es ih =>
    intro s seen h hnd
    cases e with
    | add o =>
      simp only [adds, List.foldl_cons] at hnd ⊢
      have hn : o ∉ seen := by
        intro hm
        have := (List.nodup_append.mp hnd).2.2 o hm o (by simp)
        exact this rfl
      have := ih _ (seen ++ [o]) (inv_step_add ov s seen o h hn) (by simpa using hnd)
      simpa using this
    | rem o =>
      simp only [adds, List.foldl_cons] at hnd ⊢
      exact ih _ seen (inv_step_rem ov s seen o h) hnd

/-- **every pair is reported at most once** — for every order of the instructions, as long as no shape is added twice (each shape has one
    add instruction) -/
theorem sweep_once (ov : Obj → Obj → Bool) (evs : List Ev) (h : (adds evs).Nodup) : (run ov evs).out.Nodup := by
  have := inv_foldl ov evs ⟨[], [], []⟩ [] ⟨by simp, by simp, by simp, by simp, by simp, by simp⟩ (by simpa using h)
  exact this.out_nd

theorem adds_append (l1 l2 : List Ev) : adds (l1 ++ l2) = adds l1 ++ adds l2 := by
  induction l1 with
  | nil => rfl
  | cons e es ih => cases e <;> simp [adds, ih]

theorem adds_side (sd : Bool) (n : Nat) :
    adds ((List.range n).flatMap fun i => [Ev.add ⟨sd, i⟩, Ev.rem ⟨sd, i⟩]) = (List.range n).map fun i => (⟨sd, i⟩ : Obj) := by
  induction n with
  | zero => rfl
  | succ n ih =>
    rw [List.range_succ, List.flatMap_append, adds_append, ih, List.map_append]
    simp [adds]

/-- the instruction list of the code adds every shape once (and so does every reordering of it: `List.Perm.nodup_iff`) -/
theorem adds_instructions_nodup (nA nB : Nat) : (adds (instructions nA nB)).Nodup := by
  unfold instructions
  rw [adds_append, adds_side, adds_side, List.nodup_append]
  refine ⟨?_, ?_, ?_⟩
  · exact List.Nodup.map (fun a b h => by injection h) List.nodup_range
  · exact List.Nodup.map (fun a b h => by injection h) List.nodup_range
  · intro x hx y hy he
    rw [List.mem_map] at hx hy
    obtain ⟨i, _, rfl⟩ := hx
    obtain ⟨j, _, rfl⟩ := hy
    injection he with h1 _
    exact absurd h1 (by decide)

theorem adds_perm (l1 l2 : List Ev) (h : l1.Perm l2) : (adds l1).Perm (adds l2) := by
  induction h with
  | nil => exact List.Perm.refl _
  | cons e _ ih => cases e <;> simp [adds, ih]
  | swap a b l => cases a <;> cases b <;> simp [adds, List.Perm.swap]
  | trans _ _ ih1 ih2 => exact ih1.trans ih2

/-- **exactly once, for the code's instruction list in any order** (in particular the sorted one) -/
theorem sweep_once_sorted (ov : Obj → Obj → Bool) (nA nB : Nat) (evs : List Ev) (hp : evs.Perm (instructions nA nB)) :
    (run ov evs).out.Nodup :=
  sweep_once ov evs ((adds_perm _ _ hp).nodup_iff.mpr (adds_instructions_nodup nA nB))

end C19
