/-
  C11 (continued) — the ray crossing rule for straight edges, derived from the regenerated line/line code
  (`ray_line_eq_model`), and the even-odd theorem for closed chains of lines.
-/
import BezierVerif.Props.C05M
import BezierVerif.Props.C05
import BezierVerif.Props.C11
import Mathlib.Tactic.Linarith
import Mathlib.Tactic.FieldSimp
import Mathlib.Tactic.Ring
import Mathlib.Tactic.Positivity

set_option linter.unusedSectionVars false
set_option linter.unusedVariables false
set_option linter.unusedTactic false
set_option linter.unnecessarySeqFocus false
set_option maxHeartbeats 2000000

namespace C11B
open Gen C05M
variable {K : Type} [Field K] [LinearOrder K] [IsStrictOrderedRing K]

/-- the `limited` filter as one condition -/
theorem winFilter_eq (t1 t2 : K) :
    winFilter t1 t2 =
      if ((1 : K) / 5000000 ≤ t1 ∧ t1 ≤ (5000001 : K) / 5000000) ∧ ((1 : K) / 5000000 ≤ t2 ∧ t2 ≤ (5000001 : K) / 5000000)
      then [t1, t2] else [] := by
  unfold winFilter
  by_cases a : t1 < (1 : K) / 5000000
  · rw [if_pos a, if_neg]; rintro ⟨⟨h, _⟩, _⟩; linarith
  rw [if_neg a]
  by_cases b : t1 > (5000001 : K) / 5000000
  · rw [if_pos b, if_neg]; rintro ⟨⟨_, h⟩, _⟩; linarith
  rw [if_neg b]
  by_cases c : t2 < (1 : K) / 5000000
  · rw [if_pos c, if_neg]; rintro ⟨_, ⟨h, _⟩⟩; linarith
  rw [if_neg c]
  by_cases d : t2 > (5000001 : K) / 5000000
  · rw [if_pos d, if_neg]; rintro ⟨_, ⟨_, h⟩⟩; linarith
  rw [if_neg d, if_pos]
  exact ⟨⟨le_of_not_gt a, le_of_not_gt b⟩, ⟨le_of_not_gt c, le_of_not_gt d⟩⟩

/-- parameter of the edge a→b at the level py, the crossing's x, and the ray's parameter there -/
def T1 (ay by' py : K) : K := (py - ay) / (by' - ay)
def xstar (ax ay bx by' py : K) : K := ax + T1 ay by' py * (bx - ax)
def T2 (ax ay bx by' lx px py : K) : K := (xstar ax ay bx by' py - lx) / (px - lx)

/-- an edge and a ray in "clear" position: verticality / horizontality decided exactly, a non-vertical edge steeper than the
    parallelism tolerance, the level different from both end levels, and neither parameter inside the 2e-7 tolerance bands -/
structure Clear (ax ay bx by' lx px py : K) : Prop where
  vert : isclose bx ax ((1 : K) / 1000000000) 0 → bx = ax
  horiz : isclose ay by' ((1 : K) / 1000000000) 0 → ay = by'
  ray : ¬ isclose lx px ((1 : K) / 1000000000) 0
  steep : by' ≠ ay → bx ≠ ax → (1 : K) / 5000000 ≤ |(by' - ay) / (bx - ax)|
  level : ay ≠ py ∧ by' ≠ py
  band1 : ¬ (0 < T1 ay by' py ∧ T1 ay by' py < (1 : K) / 5000000) ∧ ¬ (1 < T1 ay by' py ∧ T1 ay by' py ≤ (5000001 : K) / 5000000)
  band2 : by' ≠ ay → (¬ (0 ≤ T2 ax ay bx by' lx px py ∧ T2 ax ay bx by' lx px py < (1 : K) / 5000000) ∧
                      ¬ (1 ≤ T2 ax ay bx by' lx px py ∧ T2 ax ay bx by' lx px py ≤ (5000001 : K) / 5000000))

/-- the edge's end levels strictly straddle py -/
def Straddle (ay by' py : K) : Prop := (ay < py ∧ py < by') ∨ (by' < py ∧ py < ay)

theorem straddle_iff (ay by' py : K) (hne : by' ≠ ay) (hl : ay ≠ py ∧ by' ≠ py) :
    Straddle ay by' py ↔ (0 < T1 ay by' py ∧ T1 ay by' py < 1) := by
  unfold Straddle T1
  have hd : by' - ay ≠ 0 := sub_ne_zero.mpr hne
  rcases lt_or_gt_of_ne hd with hneg | hpos
  · rw [div_pos_iff, div_lt_one_of_neg hneg]
    constructor
    · rintro (⟨h1, h2⟩ | ⟨h1, h2⟩)
      · exfalso; linarith
      · exact ⟨Or.inr ⟨by linarith, hneg⟩, by linarith⟩
    · rintro ⟨h1 | h1, h2⟩
      · exfalso; linarith [h1.2]
      · right; exact ⟨by linarith, by linarith [h1.1]⟩
  · rw [div_pos_iff, div_lt_one hpos]
    constructor
    · rintro (⟨h1, h2⟩ | ⟨h1, h2⟩)
      · exact ⟨Or.inl ⟨by linarith, hpos⟩, by linarith⟩
      · exfalso; linarith
    · rintro ⟨h1 | h1, h2⟩
      · left; exact ⟨by linarith [h1.1], by linarith⟩
      · exfalso; linarith [h1.2]

/-- what the ray test answers for an edge in clear position -/
def hit (ax ay bx by' lx px py : K) : Prop :=
  Straddle ay by' py ∧ (0 < T2 ax ay bx by' lx px py ∧ T2 ax ay bx by' lx px py < 1)

instance (ax ay bx by' lx px py : K) : Decidable (hit ax ay bx by' lx px py) := by unfold hit Straddle; infer_instance

theorem sworn_y {p0x p0y p1x p1y qx qy : K} (h : isclose p1x p0x ((1 : K) / 1000000000) 0)
    (hy : ¬ isclose p1y p0y ((1 : K) / 1000000000) 0) :
    line_tOfPoint_sworn_v p0x p0y p1x p1y qx qy = (qy - p0y) / (p1y - p0y) := by
  simp only [line_tOfPoint_sworn_v, line_tOfPoint_sworn, if_pos h, if_neg hy, List.headD_cons]

/-- **the ray crossing rule** (from the regenerated code): for an edge and a ray in clear position the winding code's
    crossing test `Line(a,b).intersections(ray)` answers `[T1, T2]` exactly when the edge's end levels strictly straddle
    the ray's level and the crossing lies strictly between the ray's two ends, and `[]` otherwise -/
theorem ray_hit (ax ay bx by' lx px py : K) (hc : Clear ax ay bx by' lx px py) :
    ray_line ax ay bx by' lx px py =
      if hit ax ay bx by' lx px py then [T1 ay by' py, T2 ax ay bx by' lx px py] else [] := by
  rw [ray_line_eq_model]
  have hself : isclose py py ((1 : K) / 1000000000) 0 := isclose_self _ _
  have hray' : ¬ isclose px lx ((1 : K) / 1000000000) 0 := by rw [C05.isclose_comm]; exact hc.ray
  have hpl : px - lx ≠ 0 := sub_ne_zero.mpr (C05.not_isclose_ne (by norm_num) hray')
  by_cases hflat : by' = ay
  · -- horizontal edge: never reported, never straddles
    have h2 : isclose ay by' ((1 : K) / 1000000000) 0 := by rw [hflat]; exact isclose_self _ _
    have hns : ¬ hit ax ay bx by' lx px py := by
      unfold hit Straddle; rw [hflat]; rintro ⟨h | h, _⟩ <;> linarith [h.1, h.2]
    rw [if_neg hns]
    unfold llModel
    simp only [hc.ray, false_and, if_false, hself, h2, and_self, if_true]
  · have hny : ¬ isclose ay by' ((1 : K) / 1000000000) 0 := fun h => hflat (hc.horiz h).symm
    have hny' : ¬ isclose by' ay ((1 : K) / 1000000000) 0 := by rw [C05.isclose_comm]; exact hny
    have hdy : by' - ay ≠ 0 := sub_ne_zero.mpr hflat
    have hst := straddle_iff ay by' py hflat hc.level
    have hb2 := hc.band2 hflat
    have hzero : (py - py) / (px - lx) = 0 := by rw [sub_self, zero_div]
    -- the window test under the clear-position hypotheses
    have hwin : ∀ (extra : Prop), (extra ↔ True) →
        ((((1 : K) / 5000000 ≤ T1 ay by' py ∧ T1 ay by' py ≤ (5000001 : K) / 5000000) ∧
          ((1 : K) / 5000000 ≤ T2 ax ay bx by' lx px py ∧ T2 ax ay bx by' lx px py ≤ (5000001 : K) / 5000000)) ↔
          hit ax ay bx by' lx px py) := by
      intro _ _
      unfold hit
      rw [hst]
      have b1 := hc.band1
      constructor
      · rintro ⟨⟨h1, h2⟩, ⟨h3, h4⟩⟩
        have p1 : 0 < T1 ay by' py := by linarith
        have p2 : T1 ay by' py ≤ 1 := by
          by_contra hh; push Not at hh; exact b1.2 ⟨hh, h2⟩
        have p2' : T1 ay by' py ≠ 1 := by
          intro h1'; unfold T1 at h1'; rw [div_eq_one_iff_eq hdy] at h1'
          exact hc.level.2 (by linarith)
        have q1 : 0 < T2 ax ay bx by' lx px py := by linarith
        have q2 : T2 ax ay bx by' lx px py < 1 := by
          by_contra hh; push Not at hh; exact hb2.2 ⟨hh, h4⟩
        exact ⟨⟨p1, lt_of_le_of_ne p2 p2'⟩, ⟨q1, q2⟩⟩
      · rintro ⟨⟨p1, p2⟩, ⟨q1, q2⟩⟩
        refine ⟨⟨?_, by linarith⟩, ⟨?_, by linarith⟩⟩
        · by_contra hh; push Not at hh; exact b1.1 ⟨p1, hh⟩
        · by_contra hh; push Not at hh; exact hb2.1 ⟨le_of_lt q1, hh⟩
    unfold llModel
    simp only [hc.ray, false_and, if_false, hny, and_false, or_false, hself]
    by_cases hv : isclose bx ax ((1 : K) / 1000000000) 0
    · -- exactly vertical edge
      have hx := hc.vert hv
      rw [if_pos hv, hzero, zero_mul, zero_add, sworn_y hv hny', C05.sworn_x hray', winFilter_eq]
      have e1 : (py - ay) / (by' - ay) = T1 ay by' py := rfl
      have e2 : (ax - lx) / (px - lx) = T2 ax ay bx by' lx px py := by
        unfold T2 xstar; rw [hx, sub_self, mul_zero, add_zero]
      rw [e1, e2]
      by_cases hh : hit ax ay bx by' lx px py
      · rw [if_pos hh, if_pos ((hwin True Iff.rfl).mpr hh)]
      · rw [if_neg hh, if_neg (fun h => hh ((hwin True Iff.rfl).mp h))]
    · -- general edge
      have hxne : bx ≠ ax := C05.not_isclose_ne (by norm_num) hv
      have hdx : bx - ax ≠ 0 := sub_ne_zero.mpr hxne
      rw [if_neg hv]
      have hsteep := hc.steep hflat hxne
      have hslope : ¬ |(by' - ay) / (bx - ax) - (py - py) / (px - lx)| < (1 : K) / 5000000 := by
        rw [hzero, sub_zero]; exact not_lt.mpr hsteep
      rw [if_neg hslope, hzero]
      set s := (by' - ay) / (bx - ax) with hs
      have hs0 : s ≠ 0 := by
        rw [hs]; exact div_ne_zero hdy hdx
      have hx : (s * ax - ay - 0 * lx + py) / (s - 0) = xstar ax ay bx by' py := by
        unfold xstar T1
        rw [sub_zero, zero_mul, sub_zero, hs]
        field_simp
        ring
      simp only [hx]
      have hy : s * (xstar ax ay bx by' py - ax) + ay = py := by
        unfold xstar T1; rw [hs]; field_simp; ring
      simp only [hy, sub_self, zero_mul, le_refl, and_true]
      have ht1 : line_tOfPoint_sworn_v ax ay bx by' (xstar ax ay bx by' py) py = T1 ay by' py := by
        rw [C05.sworn_x hv]; unfold xstar; field_simp; ring
      have ht2 : line_tOfPoint_sworn_v lx py px py (xstar ax ay bx by' py) py = T2 ax ay bx by' lx px py := by
        rw [C05.sworn_x hray']; rfl
      rw [ht1, ht2, winFilter_eq]
      -- the two side tests
      have side1 : ((xstar ax ay bx by' py - ax) * (bx - ax) ≤ 0 ∧ (py - ay) * (by' - ay) ≤ 0) ↔ T1 ay by' py ≤ 0 := by
        have e : (py - ay) * (by' - ay) = T1 ay by' py * ((by' - ay) * (by' - ay)) := by unfold T1; field_simp
        have e' : (xstar ax ay bx by' py - ax) * (bx - ax) = T1 ay by' py * ((bx - ax) * (bx - ax)) := by unfold xstar; ring
        have hp : 0 < (by' - ay) * (by' - ay) := mul_self_pos.mpr hdy
        have hp' : 0 < (bx - ax) * (bx - ax) := mul_self_pos.mpr hdx
        rw [e, e']
        constructor
        · rintro ⟨_, h⟩; by_contra hh; push Not at hh; nlinarith
        · intro h; constructor <;> nlinarith
      have side2 : (xstar ax ay bx by' py - px) * (lx - px) ≤ 0 ↔ 1 ≤ T2 ax ay bx by' lx px py := by
        have e : (xstar ax ay bx by' py - px) * (lx - px) = (1 - T2 ax ay bx by' lx px py) * ((px - lx) * (px - lx)) := by
          unfold T2; field_simp; ring
        have hp : 0 < (px - lx) * (px - lx) := mul_self_pos.mpr hpl
        rw [e]
        constructor
        · intro h; by_contra hh; push Not at hh; nlinarith
        · intro h; nlinarith
      by_cases hh : hit ax ay bx by' lx px py
      · have hw := (hwin True Iff.rfl).mpr hh
        have n1 : ¬ ((xstar ax ay bx by' py - ax) * (bx - ax) ≤ 0 ∧ (py - ay) * (by' - ay) ≤ 0) := by
          rw [side1]; linarith [hw.1.1]
        have n2 : ¬ ((xstar ax ay bx by' py - px) * (lx - px) ≤ 0) := by
          rw [side2]; linarith [hh.2.2]
        rw [if_neg n1, if_neg n2, if_pos hw, if_pos hh]
      · rw [if_neg hh]
        have nw : ¬ (((1 : K) / 5000000 ≤ T1 ay by' py ∧ T1 ay by' py ≤ (5000001 : K) / 5000000) ∧
          ((1 : K) / 5000000 ≤ T2 ax ay bx by' lx px py ∧ T2 ax ay bx by' lx px py ≤ (5000001 : K) / 5000000)) :=
          fun h => hh ((hwin True Iff.rfl).mp h)
        split_ifs <;> rfl

end C11B
