/-
  C11 (continued) — the ray crossing rule for straight edges, derived from the regenerated line/line code
  (`ray_line_eq_model`), and the even-odd theorem for closed chains of lines.
-/
import BezierVerif.Props.C05M
import BezierVerif.Props.C05
import BezierVerif.Props.C11
import BezierVerif.Model.Clip
import Mathlib.Tactic.Linarith
import Mathlib.Tactic.FieldSimp
import Mathlib.Tactic.Ring
import Mathlib.Tactic.Positivity

set_option linter.unusedSectionVars false
set_option linter.unusedVariables false
set_option linter.unusedTactic false
set_option linter.unnecessarySeqFocus false
set_option maxHeartbeats 2000000

namespace C11B
open Gen C05M
variable {K : Type} [Field K] [LinearOrder K] [IsStrictOrderedRing K]

/-- the `limited` filter as one condition -/
theorem winFilter_eq (t1 t2 : K) :
    winFilter t1 t2 =
      if ((1 : K) / 5000000 ≤ t1 ∧ t1 ≤ (5000001 : K) / 5000000) ∧ ((1 : K) / 5000000 ≤ t2 ∧ t2 ≤ (5000001 : K) / 5000000)
      then [t1, t2] else [] := by
  unfold winFilter
  by_cases a : t1 < (1 : K) / 5000000
  · rw [if_pos a, if_neg]; rintro ⟨⟨h, _⟩, _⟩; linarith
  rw [if_neg a]
  by_cases b : t1 > (5000001 : K) / 5000000
  · rw [if_pos b, if_neg]; rintro ⟨⟨_, h⟩, _⟩; linarith
  rw [if_neg b]
  by_cases c : t2 < (1 : K) / 5000000
  · rw [if_pos c, if_neg]; rintro ⟨_, ⟨h, _⟩⟩; linarith
  rw [if_neg c]
  by_cases d : t2 > (5000001 : K) / 5000000
  · rw [if_pos d, if_neg]; rintro ⟨_, ⟨_, h⟩⟩; linarith
  rw [if_neg d, if_pos]
  exact ⟨⟨le_of_not_gt a, le_of_not_gt b⟩, ⟨le_of_not_gt c, le_of_not_gt d⟩⟩

/-- parameter of the edge a→b at the level py, the crossing's x, and the ray's parameter there -/
def T1 (ay by' py : K) : K := (py - ay) / (by' - ay)
def xstar (ax ay bx by' py : K) : K := ax + T1 ay by' py * (bx - ax)
def T2 (ax ay bx by' lx px py : K) : K := (xstar ax ay bx by' py - lx) / (px - lx)

/-- an edge and a ray in "clear" position: verticality / horizontality decided exactly, a non-vertical edge steeper than the
    parallelism tolerance, the level different from both end levels, and neither parameter inside the 2e-7 tolerance bands -/
structure Clear (ax ay bx by' lx px py : K) : Prop where
  vert : isclose bx ax ((1 : K) / 1000000000) 0 → bx = ax
  horiz : isclose ay by' ((1 : K) / 1000000000) 0 → ay = by'
  ray : ¬ isclose lx px ((1 : K) / 1000000000) 0
  steep : by' ≠ ay → bx ≠ ax → (1 : K) / 5000000 ≤ |(by' - ay) / (bx - ax)|
  level : ay ≠ py ∧ by' ≠ py
  band1 : ¬ (0 < T1 ay by' py ∧ T1 ay by' py < (1 : K) / 5000000) ∧ ¬ (1 < T1 ay by' py ∧ T1 ay by' py ≤ (5000001 : K) / 5000000)
  band2 : by' ≠ ay → (¬ (0 ≤ T2 ax ay bx by' lx px py ∧ T2 ax ay bx by' lx px py < (1 : K) / 5000000) ∧
                      ¬ (1 ≤ T2 ax ay bx by' lx px py ∧ T2 ax ay bx by' lx px py ≤ (5000001 : K) / 5000000))

/-- the edge's end levels strictly straddle py -/
def Straddle (ay by' py : K) : Prop := (ay < py ∧ py < by') ∨ (by' < py ∧ py < ay)

theorem straddle_iff (ay by' py : K) (hne : by' ≠ ay) (hl : ay ≠ py ∧ by' ≠ py) :
    Straddle ay by' py ↔ (0 < T1 ay by' py ∧ T1 ay by' py < 1) := by
  unfold Straddle T1
  have hd : by' - ay ≠ 0 := sub_ne_zero.mpr hne
  rcases lt_or_gt_of_ne hd with hneg | hpos
  · rw [div_pos_iff, div_lt_one_of_neg hneg]
    constructor
    · rintro (⟨h1, h2⟩ | ⟨h1, h2⟩)
      · exfalso; linarith
      · exact ⟨Or.inr ⟨by linarith, hneg⟩, by linarith⟩
    · rintro ⟨h1 | h1, h2⟩
      · exfalso; linarith [h1.2]
      · right; exact ⟨by linarith, by linarith [h1.1]⟩
  · rw [div_pos_iff, div_lt_one hpos]
    constructor
    · rintro (⟨h1, h2⟩ | ⟨h1, h2⟩)
      · exact ⟨Or.inl ⟨by linarith, hpos⟩, by linarith⟩
      · exfalso; linarith
    · rintro ⟨h1 | h1, h2⟩
      · left; exact ⟨by linarith [h1.1], by linarith⟩
      · exfalso; linarith [h1.2]

/-- what the ray test answers for an edge in clear position -/
def hit (ax ay bx by' lx px py : K) : Prop :=
  Straddle ay by' py ∧ (0 < T2 ax ay bx by' lx px py ∧ T2 ax ay bx by' lx px py < 1)

instance (ax ay bx by' lx px py : K) : Decidable (hit ax ay bx by' lx px py) := by unfold hit Straddle; infer_instance

theorem sworn_y {p0x p0y p1x p1y qx qy : K} (h : isclose p1x p0x ((1 : K) / 1000000000) 0)
    (hy : ¬ isclose p1y p0y ((1 : K) / 1000000000) 0) :
    line_tOfPoint_sworn_v p0x p0y p1x p1y qx qy = (qy - p0y) / (p1y - p0y) := by
  simp only [line_tOfPoint_sworn_v, line_tOfPoint_sworn, if_pos h, if_neg hy, List.headD_cons]

/-- **the ray crossing rule** (from the regenerated code): for an edge and a ray in clear position the winding code's
    crossing test `Line(a,b).intersections(ray)` answers `[T1, T2]` exactly when the edge's end levels strictly straddle
    the ray's level and the crossing lies strictly between the ray's two ends, and `[]` otherwise -/
theorem ray_hit (ax ay bx by' lx px py : K) (hc : Clear ax ay bx by' lx px py) :
    ray_line ax ay bx by' lx px py =
      if hit ax ay bx by' lx px py then [T1 ay by' py, T2 ax ay bx by' lx px py] else [] := by
  rw [ray_line_eq_model]
  have hself : isclose py py ((1 : K) / 1000000000) 0 := isclose_self _ _
  have hray' : ¬ isclose px lx ((1 : K) / 1000000000) 0 := by rw [C05.isclose_comm]; exact hc.ray
  have hpl : px - lx ≠ 0 := sub_ne_zero.mpr (C05.not_isclose_ne (by norm_num) hray')
  by_cases hflat : by' = ay
  · -- horizontal edge: never reported, never straddles
    have h2 : isclose ay by' ((1 : K) / 1000000000) 0 := by rw [hflat]; exact isclose_self _ _
    have hns : ¬ hit ax ay bx by' lx px py := by
      unfold hit Straddle; rw [hflat]; rintro ⟨h | h, _⟩ <;> linarith [h.1, h.2]
    rw [if_neg hns]
    unfold llModel
    simp only [hc.ray, false_and, if_false, hself, h2, and_self, if_true]
  · have hny : ¬ isclose ay by' ((1 : K) / 1000000000) 0 := fun h => hflat (hc.horiz h).symm
    have hny' : ¬ isclose by' ay ((1 : K) / 1000000000) 0 := by rw [C05.isclose_comm]; exact hny
    have hdy : by' - ay ≠ 0 := sub_ne_zero.mpr hflat
    have hst := straddle_iff ay by' py hflat hc.level
    have hb2 := hc.band2 hflat
    have hzero : (py - py) / (px - lx) = 0 := by rw [sub_self, zero_div]
    -- the window test under the clear-position hypotheses
    have hwin : ∀ (extra : Prop), (extra ↔ True) →
        ((((1 : K) / 5000000 ≤ T1 ay by' py ∧ T1 ay by' py ≤ (5000001 : K) / 5000000) ∧
          ((1 : K) / 5000000 ≤ T2 ax ay bx by' lx px py ∧ T2 ax ay bx by' lx px py ≤ (5000001 : K) / 5000000)) ↔
          hit ax ay bx by' lx px py) := by
      intro _ _
      unfold hit
      rw [hst]
      have b1 := hc.band1
      constructor
      · rintro ⟨⟨h1, h2⟩, ⟨h3, h4⟩⟩
        have p1 : 0 < T1 ay by' py := by linarith
        have p2 : T1 ay by' py ≤ 1 := by
          by_contra hh; push Not at hh; exact b1.2 ⟨hh, h2⟩
        have p2' : T1 ay by' py ≠ 1 := by
          intro h1'; unfold T1 at h1'; rw [div_eq_one_iff_eq hdy] at h1'
          exact hc.level.2 (by linarith)
        have q1 : 0 < T2 ax ay bx by' lx px py := by linarith
        have q2 : T2 ax ay bx by' lx px py < 1 := by
          by_contra hh; push Not at hh; exact hb2.2 ⟨hh, h4⟩
        exact ⟨⟨p1, lt_of_le_of_ne p2 p2'⟩, ⟨q1, q2⟩⟩
      · rintro ⟨⟨p1, p2⟩, ⟨q1, q2⟩⟩
        refine ⟨⟨?_, by linarith⟩, ⟨?_, by linarith⟩⟩
        · by_contra hh; push Not at hh; exact b1.1 ⟨p1, hh⟩
        · by_contra hh; push Not at hh; exact hb2.1 ⟨le_of_lt q1, hh⟩
    unfold llModel
    simp only [hc.ray, false_and, if_false, hny, and_false, or_false, hself]
    by_cases hv : isclose bx ax ((1 : K) / 1000000000) 0
    · -- exactly vertical edge
      have hx := hc.vert hv
      rw [if_pos hv, hzero, zero_mul, zero_add, sworn_y hv hny', C05.sworn_x hray', winFilter_eq]
      have e1 : (py - ay) / (by' - ay) = T1 ay by' py := rfl
      have e2 : (ax - lx) / (px - lx) = T2 ax ay bx by' lx px py := by
        unfold T2 xstar; rw [hx, sub_self, mul_zero, add_zero]
      rw [e1, e2]
      by_cases hh : hit ax ay bx by' lx px py
      · rw [if_pos hh, if_pos ((hwin True Iff.rfl).mpr hh)]
      · rw [if_neg hh, if_neg (fun h => hh ((hwin True Iff.rfl).mp h))]
    · -- general edge
      have hxne : bx ≠ ax := C05.not_isclose_ne (by norm_num) hv
      have hdx : bx - ax ≠ 0 := sub_ne_zero.mpr hxne
      rw [if_neg hv]
      have hsteep := hc.steep hflat hxne
      have hslope : ¬ |(by' - ay) / (bx - ax) - (py - py) / (px - lx)| < (1 : K) / 5000000 := by
        rw [hzero, sub_zero]; exact not_lt.mpr hsteep
      rw [if_neg hslope, hzero]
      set s := (by' - ay) / (bx - ax) with hs
      have hs0 : s ≠ 0 := by
        rw [hs]; exact div_ne_zero hdy hdx
      have hx : (s * ax - ay - 0 * lx + py) / (s - 0) = xstar ax ay bx by' py := by
        unfold xstar T1
        rw [sub_zero, zero_mul, sub_zero, hs]
        field_simp
        ring
      simp only [hx]
      have hy : s * (xstar ax ay bx by' py - ax) + ay = py := by
        unfold xstar T1; rw [hs]; field_simp; ring
      simp only [hy, sub_self, zero_mul, le_refl, and_true]
      have ht1 : line_tOfPoint_sworn_v ax ay bx by' (xstar ax ay bx by' py) py = T1 ay by' py := by
        rw [C05.sworn_x hv]; unfold xstar; field_simp; ring
      have ht2 : line_tOfPoint_sworn_v lx py px py (xstar ax ay bx by' py) py = T2 ax ay bx by' lx px py := by
        rw [C05.sworn_x hray']; rfl
      rw [ht1, ht2, winFilter_eq]
      -- the two side tests
      have side1 : ((xstar ax ay bx by' py - ax) * (bx - ax) ≤ 0 ∧ (py - ay) * (by' - ay) ≤ 0) ↔ T1 ay by' py ≤ 0 := by
        have e : (py - ay) * (by' - ay) = T1 ay by' py * ((by' - ay) * (by' - ay)) := by unfold T1; field_simp
        have e' : (xstar ax ay bx by' py - ax) * (bx - ax) = T1 ay by' py * ((bx - ax) * (bx - ax)) := by unfold xstar; ring
        have hp : 0 < (by' - ay) * (by' - ay) := mul_self_pos.mpr hdy
        have hp' : 0 < (bx - ax) * (bx - ax) := mul_self_pos.mpr hdx
        rw [e, e']
        constructor
        · rintro ⟨_, h⟩; by_contra hh; push Not at hh; nlinarith
        · intro h; constructor <;> nlinarith
      have side2 : (xstar ax ay bx by' py - px) * (lx - px) ≤ 0 ↔ 1 ≤ T2 ax ay bx by' lx px py := by
        have e : (xstar ax ay bx by' py - px) * (lx - px) = (1 - T2 ax ay bx by' lx px py) * ((px - lx) * (px - lx)) := by
          unfold T2; field_simp; ring
        have hp : 0 < (px - lx) * (px - lx) := mul_self_pos.mpr hpl
        rw [e]
        constructor
        · intro h; by_contra hh; push Not at hh; nlinarith
        · intro h; nlinarith
      by_cases hh : hit ax ay bx by' lx px py
      · have hw := (hwin True Iff.rfl).mpr hh
        have n1 : ¬ ((xstar ax ay bx by' py - ax) * (bx - ax) ≤ 0 ∧ (py - ay) * (by' - ay) ≤ 0) := by
          rw [side1]; linarith [hw.1.1]
        have n2 : ¬ ((xstar ax ay bx by' py - px) * (lx - px) ≤ 0) := by
          rw [side2]; linarith [hh.2.2]
        rw [if_neg n1, if_neg n2, if_pos hw, if_pos hh]
      · rw [if_neg hh]
        have nw : ¬ (((1 : K) / 5000000 ≤ T1 ay by' py ∧ T1 ay by' py ≤ (5000001 : K) / 5000000) ∧
          ((1 : K) / 5000000 ≤ T2 ax ay bx by' lx px py ∧ T2 ax ay bx by' lx px py ≤ (5000001 : K) / 5000000)) :=
          fun h => hh ((hwin True Iff.rfl).mp h)
        split_ifs <;> rfl

/-! ### closed chains cross a level an even number of times -/

section parity

/-- number of adjacent unequal pairs -/
def changes : List Bool → Nat
  | a :: b :: rest => (a != b).toNat + changes (b :: rest)
  | _ => 0

def lastOr (d : Bool) : List Bool → Bool
  | [] => d
  | a :: l => lastOr a l

theorem changes_parity (a : Bool) (l : List Bool) :
    changes (a :: l) % 2 = (a != lastOr a l).toNat := by
  induction l generalizing a with
  | nil => simp [changes, lastOr]
  | cons b l ih =>
    simp only [changes, lastOr]
    have hb := ih b
    generalize changes (b :: l) = n at hb ⊢
    generalize lastOr b l = z at hb ⊢
    cases a <;> cases b <;> cases z <;> simp at hb ⊢ <;> omega

theorem lastOr_append_singleton (d a : Bool) (l : List Bool) : lastOr d (l ++ [a]) = a := by
  induction l generalizing d with
  | nil => simp [lastOr]
  | cons b l ih => simp only [List.cons_append, lastOr]; exact ih b

/-- a chain that returns to where it started changes sides an even number of times -/
theorem closed_changes_even (a : Bool) (l : List Bool) : changes (a :: l ++ [a]) % 2 = 0 := by
  have := changes_parity a (l ++ [a])
  rw [lastOr_append_singleton] at this
  simpa using this

/-- `changes` of the side list = number of edges whose ends lie on different sides -/
theorem changes_map_edges {V : Type} (f : V → Bool) (l : List V) :
    changes (l.map f) = (Clip.edges l).countP (fun e => f e.1 != f e.2) := by
  induction l with
  | nil => simp [changes, Clip.edges]
  | cons a l ih =>
    cases l with
    | nil => simp [changes, Clip.edges]
    | cons b l =>
      simp only [List.map_cons, changes, Clip.edges, List.countP_cons]
      simp only [List.map_cons] at ih
      rw [ih]
      cases f a <;> cases f b <;> simp <;> omega

end parity

/-! ### the dict when no two crossings coincide -/

section dict
open Winding
variable [DecidableEq K]

theorem foldl_insert_fresh (hs d : List (Hit K)) (h : ((d ++ hs).map (·.pt)).Nodup) :
    hs.foldl insertHit d = d ++ hs := by
  induction hs generalizing d with
  | nil => simp
  | cons x hs ih =>
    simp only [List.foldl_cons]
    have hfresh : ∀ e ∈ d, e.pt ≠ x.pt := by
      intro e he heq
      rw [List.map_append, List.map_cons] at h
      have := List.nodup_append.mp h
      exact this.2.2 (e.pt) (List.mem_map.mpr ⟨e, he, rfl⟩) (x.pt) (List.mem_cons_self) heq
    rw [C11.insertHit_fresh d x hfresh, ih (d ++ [x]) (by simpa using h)]
    simp

/-- all hits in insertion order -/
def flatHits : Nat → List (Seg K × List (K × K)) → List (Hit K)
  | _, [] => []
  | i, (s, pairs) :: rest => hitsOf i s pairs ++ flatHits (i + 1) rest

/-- **no coincident crossings ⇒ the dict holds every crossing once** -/
theorem collect_flat (i : Nat) (rows : List (Seg K × List (K × K))) (d : List (Hit K))
    (h : ((d ++ flatHits i rows).map (·.pt)).Nodup) : collect i rows d = d ++ flatHits i rows := by
  induction rows generalizing i d with
  | nil => simp [collect, flatHits]
  | cons r rows ih =>
    obtain ⟨s, pairs⟩ := r
    simp only [collect, flatHits] at h ⊢
    have h1 : (((d ++ hitsOf i s pairs)).map (·.pt)).Nodup := by
      rw [← List.append_assoc, List.map_append] at h
      exact (List.nodup_append.mp h).1
    rw [foldl_insert_fresh _ _ h1, ih (i + 1) (d ++ hitsOf i s pairs) (by rw [List.append_assoc]; exact h), List.append_assoc]

theorem flatHits_length (i : Nat) (rows : List (Seg K × List (K × K))) :
    (flatHits i rows).length = (rows.map fun r => r.2.length).sum := by
  induction rows generalizing i with
  | nil => simp [flatHits]
  | cons r rows ih =>
    obtain ⟨s, pairs⟩ := r
    simp only [flatHits, List.length_append, List.map_cons, List.sum_cons, ih (i + 1)]
    simp [hitsOf]

end dict

/-! ### even-odd for closed chains of lines -/

section polygon
open Winding
variable [DecidableEq K]

abbrev Edge (K : Type) := Pt K × Pt K

abbrev eHit (x0 px py : K) (e : Edge K) : Prop := hit e.1.x e.1.y e.2.x e.2.y x0 px py
abbrev eStraddle (py : K) (e : Edge K) : Prop := Straddle e.1.y e.2.y py
instance (ay by' py : K) : Decidable (Straddle ay by' py) := by unfold Straddle; infer_instance
def eX (py : K) (e : Edge K) : K := xstar e.1.x e.1.y e.2.x e.2.y py
def eClear (x0 px py : K) (e : Edge K) : Prop := Clear e.1.x e.1.y e.2.x e.2.y x0 px py

/-- the rows the winding code's first loop sees for one ray: every edge with its crossing pairs -/
def rows (sqrt : K → K) (x0 px py : K) (es : List (Edge K)) : List (Seg K × List (K × K)) :=
  es.map fun e => (Seg.line e.1 e.2, segHits sqrt (Seg.line e.1 e.2) x0 px py (Seg.line e.1 e.2) [])

theorem segHits_line (sqrt : K → K) (x0 px py : K) (e : Edge K) (hc : eClear x0 px py e) (al : Seg K) (cl : List K) :
    segHits sqrt (Seg.line e.1 e.2) x0 px py al cl =
      if eHit x0 px py e then [(T1 e.1.y e.2.y py, T2 e.1.x e.1.y e.2.x e.2.y x0 px py)] else [] := by
  unfold segHits
  simp only
  rw [ray_hit _ _ _ _ _ _ _ hc]
  by_cases hh : hit e.1.x e.1.y e.2.x e.2.y x0 px py
  · simp only [eHit, hh, if_true]
  · simp only [eHit, hh, if_false]

theorem rows_sum (sqrt : K → K) (x0 px py : K) (es : List (Edge K)) (hc : ∀ e ∈ es, eClear x0 px py e) :
    ((rows sqrt x0 px py es).map fun r => r.2.length).sum = es.countP (fun e => decide (eHit x0 px py e)) := by
  induction es with
  | nil => simp [rows]
  | cons e es ih =>
    have he := hc e List.mem_cons_self
    have ih' := ih (fun e' h' => hc e' (List.mem_cons_of_mem _ h'))
    have hr : rows sqrt x0 px py (e :: es) =
        (Seg.line e.1 e.2, segHits sqrt (Seg.line e.1 e.2) x0 px py (Seg.line e.1 e.2) []) :: rows sqrt x0 px py es := rfl
    rw [hr, List.map_cons, List.sum_cons, ih', List.countP_cons, segHits_line sqrt x0 px py e he]
    by_cases hh : eHit x0 px py e
    · simp only [hh, if_true, List.length_singleton, decide_true]; omega
    · simp only [hh, if_false, List.length_nil, decide_false]; simp

theorem zip_map_self {α β : Type} (l : List α) (f : α → β) : l.zip (l.map f) = l.map fun x => (x, f x) := by
  induction l with
  | nil => rfl
  | cons a l ih => simp [ih]

/-- left ray: with the ray's far end left of the crossing, an edge is hit iff it straddles and the crossing is left of px -/
theorem hit_left (lx px py : K) (e : Edge K) (hc : eClear lx px py e) (hb : eStraddle py e → lx < eX py e) :
    eHit lx px py e ↔ (eStraddle py e ∧ eX py e < px) := by
  unfold eHit hit eStraddle eX at *
  have hne : px - lx ≠ 0 := sub_ne_zero.mpr (fun h => hc.ray (by rw [h]; exact isclose_self _ _))
  constructor
  · rintro ⟨hs, h0, h1⟩
    refine ⟨hs, ?_⟩
    have hl := hb hs
    unfold T2 at h0 h1
    rcases lt_or_gt_of_ne hne with hneg | hpos
    · exfalso
      have : (xstar e.1.x e.1.y e.2.x e.2.y py - lx) / (px - lx) < 0 := div_neg_of_pos_of_neg (by linarith) hneg
      linarith
    · rw [div_lt_one hpos] at h1; linarith
  · rintro ⟨hs, hx⟩
    have hl := hb hs
    refine ⟨hs, ?_, ?_⟩ <;> unfold T2
    · exact div_pos (by linarith) (by linarith)
    · rw [div_lt_one (by linarith)]; linarith

/-- right ray: an edge is hit iff it straddles and the crossing is right of px -/
theorem hit_right (rx px py : K) (e : Edge K) (hc : eClear rx px py e) (hb : eStraddle py e → eX py e < rx) :
    eHit rx px py e ↔ (eStraddle py e ∧ px < eX py e) := by
  unfold eHit hit eStraddle eX at *
  have hne : px - rx ≠ 0 := sub_ne_zero.mpr (fun h => hc.ray (by rw [h]; exact isclose_self _ _))
  constructor
  · rintro ⟨hs, h0, h1⟩
    refine ⟨hs, ?_⟩
    have hl := hb hs
    unfold T2 at h0 h1
    rcases lt_or_gt_of_ne hne with hneg | hpos
    · rw [div_lt_one_of_neg hneg] at h1; linarith
    · exfalso
      have : (xstar e.1.x e.1.y e.2.x e.2.y py - rx) / (px - rx) < 0 := div_neg_of_neg_of_pos (by linarith) hpos
      linarith
  · rintro ⟨hs, hx⟩
    have hl := hb hs
    refine ⟨hs, ?_, ?_⟩ <;> unfold T2
    · exact div_pos_of_neg_of_neg (by linarith) (by linarith)
    · rw [div_lt_one_of_neg (by linarith)]; linarith

/-- a straddling edge in clear position does not cross exactly at px -/
theorem cross_ne_px (lx px py : K) (e : Edge K) (hc : eClear lx px py e) (hs : eStraddle py e) : eX py e ≠ px := by
  intro h
  unfold eClear eStraddle eX at *
  have hflat : e.2.y ≠ e.1.y := by
    intro hh; unfold Straddle at hs; rw [hh] at hs; rcases hs with h | h <;> linarith [h.1, h.2]
  have hb := (hc.band2 hflat).2
  have hne : px - lx ≠ 0 := sub_ne_zero.mpr (fun h => hc.ray (by rw [h]; exact isclose_self _ _))
  apply hb
  have : T2 e.1.x e.1.y e.2.x e.2.y lx px py = 1 := by unfold T2; rw [h]; exact div_self hne
  rw [this]; constructor <;> norm_num

theorem straddle_iff_sides (py : K) (e : Edge K) (h1 : e.1.y ≠ py) (h2 : e.2.y ≠ py) :
    eStraddle py e ↔ (decide (e.1.y < py) != decide (e.2.y < py)) = true := by
  unfold eStraddle Straddle
  rcases lt_or_gt_of_ne h1 with a | a <;> rcases lt_or_gt_of_ne h2 with b | b
  · have l : ¬((e.1.y < py ∧ py < e.2.y) ∨ (e.2.y < py ∧ py < e.1.y)) := by rintro (h | h) <;> linarith [h.1, h.2]
    simp only [l, false_iff]; simp [a, b]
  · have l : (e.1.y < py ∧ py < e.2.y) ∨ (e.2.y < py ∧ py < e.1.y) := Or.inl ⟨a, b⟩
    have nb : ¬ e.2.y < py := not_lt.mpr (le_of_lt b)
    simp only [l, true_iff]; simp [a, nb]
  · have l : (e.1.y < py ∧ py < e.2.y) ∨ (e.2.y < py ∧ py < e.1.y) := Or.inr ⟨b, a⟩
    have na : ¬ e.1.y < py := not_lt.mpr (le_of_lt a)
    simp only [l, true_iff]; simp [na, b]
  · have l : ¬((e.1.y < py ∧ py < e.2.y) ∨ (e.2.y < py ∧ py < e.1.y)) := by rintro (h | h) <;> linarith [h.1, h.2]
    have na : ¬ e.1.y < py := not_lt.mpr (le_of_lt a)
    have nb : ¬ e.2.y < py := not_lt.mpr (le_of_lt b)
    simp only [l, false_iff]; simp [na, nb]

/-- **a closed chain crosses a level an even number of times** (levels of all vertices different from py) -/
theorem straddle_even (py : K) (a : Pt K) (rest : List (Pt K)) (hl : ∀ v ∈ a :: rest, v.y ≠ py) :
    ((Clip.wrapEdges (a :: rest)).countP (fun e => decide (eStraddle py e))) % 2 = 0 := by
  have h := closed_changes_even (decide (a.y < py)) (rest.map fun v => decide (v.y < py))
  have hm : (decide (a.y < py) :: (rest.map fun v => decide (v.y < py)) ++ [decide (a.y < py)]) =
      (a :: rest ++ [a]).map fun v => decide (v.y < py) := by simp
  rw [hm, changes_map_edges] at h
  unfold Clip.wrapEdges
  rw [← h]
  congr 1
  apply List.countP_congr
  intro e he
  have hmem : ∀ e ∈ Clip.edges (a :: rest ++ [a]), e.1 ∈ a :: rest ∧ e.2 ∈ a :: rest := by
    intro e he
    have : ∀ (l : List (Pt K)) (e : Edge K), e ∈ Clip.edges l → e.1 ∈ l ∧ e.2 ∈ l := by
      intro l
      induction l with
      | nil => intro e he; simp [Clip.edges] at he
      | cons x l ih =>
        cases l with
        | nil => intro e he; simp [Clip.edges] at he
        | cons y l =>
          intro e he
          simp only [Clip.edges, List.mem_cons] at he
          rcases he with rfl | he
          · simp
          · have := ih e he
            exact ⟨List.mem_cons_of_mem _ this.1, List.mem_cons_of_mem _ this.2⟩
    have h' := this _ e he
    constructor
    · have := h'.1; simp only [List.cons_append, List.mem_cons, List.mem_append, List.mem_singleton] at this ⊢; tauto
    · have := h'.2; simp only [List.cons_append, List.mem_cons, List.mem_append, List.mem_singleton] at this ⊢; tauto
  have hm := hmem e he
  rw [decide_eq_true_iff, straddle_iff_sides py e (hl _ hm.1) (hl _ hm.2)]

end polygon

section evenodd
open Winding
variable [DecidableEq K]

/-- the winding code's inputs for a closed chain of lines through the vertices `vs` -/
def polySegs (vs : List (Pt K)) : List (Seg K) := (Clip.wrapEdges vs).map fun e => Seg.line e.1 e.2
def rayHits (sqrt : K → K) (vs : List (Pt K)) (x0 px py : K) : List (List (K × K)) :=
  (polySegs vs).map fun s => segHits sqrt s x0 px py s []

theorem zip_rows (sqrt : K → K) (vs : List (Pt K)) (x0 px py : K) :
    (polySegs vs).zip (rayHits sqrt vs x0 px py) = rows sqrt x0 px py (Clip.wrapEdges vs) := by
  unfold rayHits polySegs rows
  rw [zip_map_self, List.map_map]
  rfl

/-- **even-odd for closed chains of lines.**  Vertices `a :: rest` (the closing edge included), query point (px, py),
    ray ends lx, rx (the padded bounding box in the code).  If every edge is in clear position with respect to both rays
    (in particular py differs from every vertex level), every crossing lies strictly between lx and rx, and no two crossings
    of one ray coincide (else K6), then `pointIsInside` answers true exactly when the number of edges that straddle the level
    and cross it to the left of px is odd — the even-odd rule. -/
theorem polygon_even_odd (sqrt : K → K) (a : Pt K) (rest : List (Pt K)) (px py lx rx : K)
    (hcL : ∀ e ∈ Clip.wrapEdges (a :: rest), eClear lx px py e)
    (hcR : ∀ e ∈ Clip.wrapEdges (a :: rest), eClear rx px py e)
    (hlev : ∀ v ∈ a :: rest, v.y ≠ py)
    (hbox : ∀ e ∈ Clip.wrapEdges (a :: rest), eStraddle py e → lx < eX py e ∧ eX py e < rx)
    (hdL : ((flatHits 0 (rows sqrt lx px py (Clip.wrapEdges (a :: rest)))).map (·.pt)).Nodup)
    (hdR : ((flatHits 0 (rows sqrt rx px py (Clip.wrapEdges (a :: rest)))).map (·.pt)).Nodup) :
    inside own (polySegs (a :: rest)) (rayHits sqrt (a :: rest) lx px py) (rayHits sqrt (a :: rest) rx px py) = true ↔
      ((Clip.wrapEdges (a :: rest)).countP (fun e => decide (eStraddle py e ∧ eX py e < px))) % 2 = 1 := by
  set es := Clip.wrapEdges (a :: rest) with hes
  -- the two dicts hold one entry per hit edge
  have lenL : (collect 0 ((polySegs (a :: rest)).zip (rayHits sqrt (a :: rest) lx px py)) []).length =
      es.countP (fun e => decide (eHit lx px py e)) := by
    rw [zip_rows, collect_flat 0 _ [] (by simpa using hdL)]
    simp only [List.nil_append]
    rw [flatHits_length, rows_sum sqrt lx px py es hcL]
  have lenR : (collect 0 ((polySegs (a :: rest)).zip (rayHits sqrt (a :: rest) rx px py)) []).length =
      es.countP (fun e => decide (eHit rx px py e)) := by
    rw [zip_rows, collect_flat 0 _ [] (by simpa using hdR)]
    simp only [List.nil_append]
    rw [flatHits_length, rows_sum sqrt rx px py es hcR]
  -- left hits are the straddling edges crossing left of px, right hits those crossing right of px
  have cL : es.countP (fun e => decide (eHit lx px py e)) = es.countP (fun e => decide (eStraddle py e ∧ eX py e < px)) := by
    apply List.countP_congr
    intro e he
    rw [decide_eq_true_iff, decide_eq_true_iff]
    exact hit_left lx px py e (hcL e he) (fun hs => (hbox e he hs).1)
  have cR : es.countP (fun e => decide (eHit rx px py e)) = es.countP (fun e => decide (eStraddle py e ∧ px < eX py e)) := by
    apply List.countP_congr
    intro e he
    rw [decide_eq_true_iff, decide_eq_true_iff]
    exact hit_right rx px py e (hcR e he) (fun hs => (hbox e he hs).2)
  -- every straddling edge is counted on exactly one side
  have split : es.countP (fun e => decide (eStraddle py e ∧ eX py e < px)) + es.countP (fun e => decide (eStraddle py e ∧ px < eX py e)) =
      es.countP (fun e => decide (eStraddle py e)) := by
    have : ∀ (l : List (Edge K)), (∀ e ∈ l, e ∈ es) →
        l.countP (fun e => decide (eStraddle py e ∧ eX py e < px)) + l.countP (fun e => decide (eStraddle py e ∧ px < eX py e)) =
        l.countP (fun e => decide (eStraddle py e)) := by
      intro l
      induction l with
      | nil => intro _; simp
      | cons e l ih =>
        intro hl
        have ih' := ih (fun e' h' => hl e' (List.mem_cons_of_mem _ h'))
        have he := hl e List.mem_cons_self
        by_cases hs : eStraddle py e
        · have hne := cross_ne_px lx px py e (hcL e he) hs
          have e3 : decide (eStraddle py e) = true := decide_eq_true hs
          rcases lt_or_gt_of_ne hne with h | h
          · have e1 : decide (eStraddle py e ∧ eX py e < px) = true := decide_eq_true ⟨hs, h⟩
            have e2 : decide (eStraddle py e ∧ px < eX py e) = false := decide_eq_false (fun hh => absurd hh.2 (not_lt.mpr (le_of_lt h)))
            simp only [List.countP_cons, e1, e2, e3, if_true, Bool.false_eq_true, if_false]
            omega
          · have e1 : decide (eStraddle py e ∧ eX py e < px) = false := decide_eq_false (fun hh => absurd hh.2 (not_lt.mpr (le_of_lt h)))
            have e2 : decide (eStraddle py e ∧ px < eX py e) = true := decide_eq_true ⟨hs, h⟩
            simp only [List.countP_cons, e1, e2, e3, if_true, Bool.false_eq_true, if_false]
            omega
        · have e3 : decide (eStraddle py e) = false := decide_eq_false hs
          have e1 : decide (eStraddle py e ∧ eX py e < px) = false := decide_eq_false (fun hh => hs hh.1)
          have e2 : decide (eStraddle py e ∧ px < eX py e) = false := decide_eq_false (fun hh => hs hh.1)
          simp only [List.countP_cons, e1, e2, e3, Bool.false_eq_true, if_false]
          omega
    exact this es (fun e he => he)
  have even := straddle_even py a rest hlev
  rw [← hes] at even
  -- same parity on both sides, so the parity lemma applies
  have hpar : (collect 0 ((polySegs (a :: rest)).zip (rayHits sqrt (a :: rest) lx px py)) []).length % 2 =
      (collect 0 ((polySegs (a :: rest)).zip (rayHits sqrt (a :: rest) rx px py)) []).length % 2 := by
    rw [lenL, lenR, cL, cR]; omega
  rw [C11.inside_iff_odd_left own _ _ _ hpar, lenL, cL]

end evenodd

/-! non-vacuity: edges of the 10×10 square against the rays of the query point (0, 1) are in clear position -/
example : Clear (5 : ℚ) (-5) 5 5 (-15) 0 1 := by
  constructor <;> (try simp only [isclose, T1, T2, xstar]) <;> norm_num [abs_le, le_max_iff]
example : Clear (5 : ℚ) 5 (-5) 5 15 0 1 := by
  constructor <;> (try simp only [isclose, T1, T2, xstar]) <;> norm_num [abs_le, le_max_iff]
example : hit (5 : ℚ) (-5) 5 5 15 0 1 ∧ ¬ hit (5 : ℚ) (-5) 5 5 (-15) 0 1 := by
  unfold hit Straddle T2 xstar T1; norm_num

end C11B

/-! ### C05: completeness of line/line in general position (from `llModel`) -/

namespace C05C
open Gen C05M C11B
variable {K : Type} [Field K] [LinearOrder K] [IsStrictOrderedRing K]

/-- **line/line completeness**: two non-vertical lines (beyond `isclose`'s zone) whose slopes differ by at least the
    parallelism tolerance and that are not both inside the horizontality zone: if they meet at parameters t1 (first
    line) and t2 (second line) with t1 in the window [2e-7, 1 + 2e-7] and t2 in [2e-7, 1) — in particular for every
    crossing at least 1e-4 inside both segments — then `Line.intersections(Line)` reports exactly `[t1, t2]`. -/
theorem line_line_complete (p0x p0y p1x p1y q0x q0y q1x q1y t1 t2 : K)
    (hp : ¬ isclose p1x p0x ((1 : K) / 1000000000) 0) (hq : ¬ isclose q0x q1x ((1 : K) / 1000000000) 0)
    (hh : ¬ (isclose q0y q1y ((1 : K) / 1000000000) 0 ∧ isclose p0y p1y ((1 : K) / 1000000000) 0))
    (hs : (1 : K) / 5000000 ≤ |(p1y - p0y) / (p1x - p0x) - (q1y - q0y) / (q1x - q0x)|)
    (hx : p0x + t1 * (p1x - p0x) = q0x + t2 * (q1x - q0x))
    (hy : p0y + t1 * (p1y - p0y) = q0y + t2 * (q1y - q0y))
    (w1 : (1 : K) / 5000000 ≤ t1 ∧ t1 ≤ (5000001 : K) / 5000000)
    (w2 : (1 : K) / 5000000 ≤ t2 ∧ t2 < 1) :
    line_line p0x p0y p1x p1y q0x q0y q1x q1y = [t1, t2] := by
  rw [line_line_eq_model]
  have hp' : ¬ isclose p0x p1x ((1 : K) / 1000000000) 0 := by rw [C05.isclose_comm]; exact hp
  have hq' : ¬ isclose q1x q0x ((1 : K) / 1000000000) 0 := by rw [C05.isclose_comm]; exact hq
  have hdp : p1x - p0x ≠ 0 := sub_ne_zero.mpr (C05.not_isclose_ne (by norm_num) hp)
  have hdq : q1x - q0x ≠ 0 := sub_ne_zero.mpr (C05.not_isclose_ne (by norm_num) hq')
  unfold llModel
  simp only [hq, hp', false_and, and_false, if_false, hh, or_self, hp]
  rw [if_neg (not_lt.mpr hs)]
  set s12 := (p1y - p0y) / (p1x - p0x) with h12
  set s34 := (q1y - q0y) / (q1x - q0x) with h34
  have e12 : p1y - p0y = s12 * (p1x - p0x) := by rw [h12]; field_simp
  have e34 : q1y - q0y = s34 * (q1x - q0x) := by rw [h34]; field_simp
  have hsne : s12 - s34 ≠ 0 := by
    intro h0; rw [h0, abs_zero] at hs; norm_num at hs
  -- the common point
  set X := p0x + t1 * (p1x - p0x) with hX
  have hXq : X = q0x + t2 * (q1x - q0x) := hx
  have hxval : (s12 * p0x - p0y - s34 * q0x + q0y) / (s12 - s34) = X := by
    rw [div_eq_iff hsne]
    have h1 : p0y + t1 * (s12 * (p1x - p0x)) = q0y + t2 * (s34 * (q1x - q0x)) := by rw [← e12, ← e34]; exact hy
    have a1 : t1 * (p1x - p0x) = X - p0x := by rw [hX]; ring
    have a2 : t2 * (q1x - q0x) = X - q0x := by rw [hXq]; ring
    have h2 : p0y + s12 * (X - p0x) = q0y + s34 * (X - q0x) := by rw [← a1, ← a2]; linarith [h1]
    linarith [h2]
  simp only [hxval]
  have hyval : s12 * (X - p0x) + p0y = p0y + t1 * (p1y - p0y) := by rw [e12, hX]; ring
  have ht1 : line_tOfPoint_sworn_v p0x p0y p1x p1y X (s12 * (X - p0x) + p0y) = t1 := by
    rw [C05.sworn_x hp, hX]; field_simp; ring
  have ht2 : line_tOfPoint_sworn_v q0x q0y q1x q1y X (s12 * (X - p0x) + p0y) = t2 := by
    rw [C05.sworn_x hq', hXq]; field_simp; ring
  rw [ht1, ht2]
  have t1pos : 0 < t1 := by linarith [w1.1]
  have n1 : ¬ ((X - p0x) * (p1x - p0x) ≤ 0 ∧ (s12 * (X - p0x) + p0y - p0y) * (p1y - p0y) ≤ 0) := by
    rintro ⟨h, _⟩
    have : (X - p0x) * (p1x - p0x) = t1 * ((p1x - p0x) * (p1x - p0x)) := by rw [hX]; ring
    rw [this] at h
    have hp2 : 0 < (p1x - p0x) * (p1x - p0x) := mul_self_pos.mpr hdp
    nlinarith
  have n2 : ¬ ((X - q1x) * (q0x - q1x) ≤ 0 ∧ (s12 * (X - p0x) + p0y - q1y) * (q0y - q1y) ≤ 0) := by
    rintro ⟨h, _⟩
    have : (X - q1x) * (q0x - q1x) = (1 - t2) * ((q1x - q0x) * (q1x - q0x)) := by rw [hXq]; ring
    rw [this] at h
    have hq2 : 0 < (q1x - q0x) * (q1x - q0x) := mul_self_pos.mpr hdq
    nlinarith [w2.2]
  rw [if_neg n1, if_neg n2, winFilter_eq, if_pos ⟨w1, ⟨w2.1, by linarith [w2.2]⟩⟩]

end C05C

/-! ### winding number zero outside the bounding box (closed chains of lines) -/

namespace C11B
open Gen C05M Winding
variable {K : Type} [Field K] [LinearOrder K] [IsStrictOrderedRing K] [DecidableEq K]

/-- the sign sum over all hits in insertion order, row by row (`pre` = the segments before the rows) -/
theorem windSum_flat (pre : List (Seg K)) (rows : List (Seg K × List (K × K))) :
    windSum (pre ++ rows.map (·.1)) own (flatHits pre.length rows) =
      (rows.map fun r => (r.2.map fun p => tanSign r.1 p.1).sum).sum := by
  induction rows generalizing pre with
  | nil => simp [flatHits, windSum]
  | cons r rows ih =>
    obtain ⟨s, pairs⟩ := r
    have ih' := ih (pre ++ [s])
    have e1 : pre ++ [s] ++ rows.map (·.1) = pre ++ ((s, pairs) :: rows).map (·.1) := by simp
    have e2 : (pre ++ [s]).length = pre.length + 1 := by simp
    rw [e1, e2] at ih'
    have h0 : (pre ++ s :: rows.map (·.1)).getD pre.length (Seg.line ⟨0, 0⟩ ⟨0, 0⟩) = s := by
      rw [List.getD_eq_getElem?_getD, List.getElem?_append_right (le_refl _)]
      simp
    unfold windSum at ih' ⊢
    simp only [List.map_cons] at ih'
    simp only [flatHits, List.map_append, List.sum_append, List.map_cons, List.sum_cons]
    rw [ih']
    congr 1
    simp only [hitsOf, List.map_map, own, Function.comp_def, h0]

theorem tanSign_line (a b : Pt K) (t : K) : tanSign (Seg.line a b) t = if b.y - a.y < 0 then -1 else 1 := by
  unfold tanSign
  by_cases h : dY (Seg.line a b) t = 0
  · rw [if_pos h]
    have h' : b.y - a.y = 0 := h
    have ht : travelY (Seg.line a b) t = 0 := by
      unfold travelY
      simp only [Seg.eval, line_pointAtTime_y]
      have : b.y = a.y := by linarith
      rw [this]; ring
    rw [ht, h']
  · rw [if_neg h]; rfl

/-- side indicator of a vertex with respect to the level py -/
def side (py : K) (v : Pt K) : Int := if v.y < py then 0 else 1

/-- closed chains telescope -/
theorem telescope (f : Pt K → Int) : ∀ (l : List (Pt K)) (a z : Pt K),
    ((Clip.edges (a :: l ++ [z])).map fun e => f e.2 - f e.1).sum = f z - f a := by
  intro l
  induction l with
  | nil => intro a z; simp [Clip.edges]
  | cons b l ih =>
    intro a z
    have := ih b z
    simp only [List.cons_append, Clip.edges, List.map_cons, List.sum_cons] at this ⊢
    rw [this]; ring

/-- for an edge whose end levels differ from py: the tangent sign of a straddling edge is the change of side, and a
    non-straddling edge does not change side -/
theorem sign_is_side_change (py : K) (e : Edge K) (h1 : e.1.y ≠ py) (h2 : e.2.y ≠ py) :
    (if eStraddle py e then (if e.2.y - e.1.y < 0 then (-1 : Int) else 1) else 0) = side py e.2 - side py e.1 := by
  unfold side
  rcases lt_or_gt_of_ne h1 with a | a <;> rcases lt_or_gt_of_ne h2 with b | b
  · have l : ¬ eStraddle py e := by rintro (h | h) <;> linarith [h.1, h.2]
    rw [if_neg l, if_pos a, if_pos b]; rfl
  · have l : eStraddle py e := Or.inl ⟨a, b⟩
    have nb : ¬ e.2.y < py := not_lt.mpr (le_of_lt b)
    have up : ¬ e.2.y - e.1.y < 0 := by linarith
    rw [if_pos l, if_neg up, if_pos a, if_neg nb]; rfl
  · have l : eStraddle py e := Or.inr ⟨b, a⟩
    have na : ¬ e.1.y < py := not_lt.mpr (le_of_lt a)
    have dn : e.2.y - e.1.y < 0 := by linarith
    rw [if_pos l, if_pos dn, if_neg na, if_pos b]; rfl
  · have l : ¬ eStraddle py e := by rintro (h | h) <;> linarith [h.1, h.2]
    have na : ¬ e.1.y < py := not_lt.mpr (le_of_lt a)
    have nb : ¬ e.2.y < py := not_lt.mpr (le_of_lt b)
    rw [if_neg l, if_neg na, if_neg nb]; rfl


theorem edges_mem : ∀ (l : List (Pt K)) (e : Edge K), e ∈ Clip.edges l → e.1 ∈ l ∧ e.2 ∈ l := by
  intro l
  induction l with
  | nil => intro e he; simp [Clip.edges] at he
  | cons x l ih =>
    cases l with
    | nil => intro e he; simp [Clip.edges] at he
    | cons y l =>
      intro e he
      simp only [Clip.edges, List.mem_cons] at he
      rcases he with rfl | he
      · simp
      · have := ih e he
        exact ⟨List.mem_cons_of_mem _ this.1, List.mem_cons_of_mem _ this.2⟩

theorem wrapEdges_mem (a : Pt K) (rest : List (Pt K)) (e : Edge K) (he : e ∈ Clip.wrapEdges (a :: rest)) :
    e.1 ∈ a :: rest ∧ e.2 ∈ a :: rest := by
  have h' := edges_mem _ e he
  constructor
  · have := h'.1; simp only [List.cons_append, List.mem_cons, List.mem_append, List.mem_singleton] at this ⊢; tauto
  · have := h'.2; simp only [List.cons_append, List.mem_cons, List.mem_append, List.mem_singleton] at this ⊢; tauto

/-- the sign contributed by each row of a chain of lines -/
theorem rows_signs (sqrt : K → K) (x0 px py : K) (es : List (Edge K)) (hc : ∀ e ∈ es, eClear x0 px py e) :
    ((rows sqrt x0 px py es).map fun r => (r.2.map fun p => tanSign r.1 p.1).sum) =
      es.map fun e => if eHit x0 px py e then (if e.2.y - e.1.y < 0 then (-1 : Int) else 1) else 0 := by
  unfold rows
  rw [List.map_map]
  apply List.map_congr_left
  intro e he
  simp only [Function.comp_def]
  rw [segHits_line sqrt x0 px py e (hc e he)]
  by_cases hh : eHit x0 px py e
  · simp only [hh, if_true, List.map_cons, List.map_nil, List.sum_cons, List.sum_nil, tanSign_line, add_zero]
  · simp only [hh, if_false, List.map_nil, List.sum_nil]

theorem rows_fst (sqrt : K → K) (x0 px py : K) (vs : List (Pt K)) :
    (rows sqrt x0 px py (Clip.wrapEdges vs)).map (·.1) = polySegs vs := by
  unfold rows polySegs
  rw [List.map_map]; rfl

/-- **the sign sum of one ray** over a closed chain of lines in clear position with no coincident crossings: each hit edge
    contributes the sign of its rise -/
theorem windSum_ray (sqrt : K → K) (vs : List (Pt K)) (x0 px py : K)
    (hc : ∀ e ∈ Clip.wrapEdges vs, eClear x0 px py e)
    (hd : ((flatHits 0 (rows sqrt x0 px py (Clip.wrapEdges vs))).map (·.pt)).Nodup) :
    windSum (polySegs vs) own (collect 0 ((polySegs vs).zip (rayHits sqrt vs x0 px py)) []) =
      ((Clip.wrapEdges vs).map fun e => if eHit x0 px py e then (if e.2.y - e.1.y < 0 then (-1 : Int) else 1) else 0).sum := by
  rw [zip_rows, collect_flat 0 _ [] (by simpa using hd)]
  simp only [List.nil_append]
  have h := windSum_flat (K := K) [] (rows sqrt x0 px py (Clip.wrapEdges vs))
  simp only [List.nil_append, List.length_nil] at h
  rw [rows_fst] at h
  rw [h, rows_signs sqrt x0 px py _ hc]

/-- no hit at all ⇒ no coincident hits -/
theorem nodup_of_no_hit (sqrt : K → K) (x0 px py : K) (es : List (Edge K)) (hc : ∀ e ∈ es, eClear x0 px py e)
    (hn : ∀ e ∈ es, ¬ eHit x0 px py e) : ((flatHits 0 (rows sqrt x0 px py es)).map (·.pt)).Nodup := by
  have hl : (flatHits 0 (rows sqrt x0 px py es)).length = 0 := by
    rw [flatHits_length, rows_sum sqrt x0 px py es hc, List.countP_eq_zero]
    intro e he; simpa using hn e he
  rw [List.length_eq_zero_iff.mp hl]; simp

/-- the signed crossings of a closed chain through a level cancel -/
theorem closed_signs_cancel (py : K) (a : Pt K) (rest : List (Pt K)) (hlev : ∀ v ∈ a :: rest, v.y ≠ py) :
    ((Clip.wrapEdges (a :: rest)).map fun e => if eStraddle py e then (if e.2.y - e.1.y < 0 then (-1 : Int) else 1) else 0).sum = 0 := by
  have h : ((Clip.wrapEdges (a :: rest)).map fun e => if eStraddle py e then (if e.2.y - e.1.y < 0 then (-1 : Int) else 1) else 0) =
      (Clip.wrapEdges (a :: rest)).map fun e => side py e.2 - side py e.1 := by
    apply List.map_congr_left
    intro e he
    have hm := wrapEdges_mem a rest e he
    exact sign_is_side_change py e (hlev _ hm.1) (hlev _ hm.2)
  rw [h]
  unfold Clip.wrapEdges
  rw [telescope]; ring

/-- **winding number 0 when every crossing of the level is on one side of the point** (here: to its right).  Closed chain of
    lines in clear position, no vertex at the level, no two coincident crossings on the right ray: the left ray meets nothing,
    the right ray meets every straddling edge, and their signs cancel because the chain is closed. -/
theorem winding_zero_all_right (sqrt : K → K) (a : Pt K) (rest : List (Pt K)) (px py lx rx : K)
    (hcL : ∀ e ∈ Clip.wrapEdges (a :: rest), eClear lx px py e)
    (hcR : ∀ e ∈ Clip.wrapEdges (a :: rest), eClear rx px py e)
    (hlev : ∀ v ∈ a :: rest, v.y ≠ py)
    (hbox : ∀ e ∈ Clip.wrapEdges (a :: rest), eStraddle py e → lx < eX py e ∧ eX py e < rx)
    (hout : ∀ e ∈ Clip.wrapEdges (a :: rest), eStraddle py e → px < eX py e)
    (hdR : ((flatHits 0 (rows sqrt rx px py (Clip.wrapEdges (a :: rest)))).map (·.pt)).Nodup) :
    windingNumber own (polySegs (a :: rest)) (rayHits sqrt (a :: rest) lx px py) (rayHits sqrt (a :: rest) rx px py) = 0 := by
  have nL : ∀ e ∈ Clip.wrapEdges (a :: rest), ¬ eHit lx px py e := by
    intro e he hh
    have := (hit_left lx px py e (hcL e he) (fun hs => (hbox e he hs).1)).mp hh
    exact absurd this.2 (not_lt.mpr (le_of_lt (hout e he this.1)))
  have hL := windSum_ray sqrt (a :: rest) lx px py hcL (nodup_of_no_hit sqrt lx px py _ hcL nL)
  have hR := windSum_ray sqrt (a :: rest) rx px py hcR hdR
  have zL : ((Clip.wrapEdges (a :: rest)).map fun e => if eHit lx px py e then (if e.2.y - e.1.y < 0 then (-1 : Int) else 1) else 0).sum = 0 := by
    apply List.sum_eq_zero
    intro x hx
    obtain ⟨e, he, rfl⟩ := List.mem_map.mp hx
    rw [if_neg (nL e he)]
  have zR : ((Clip.wrapEdges (a :: rest)).map fun e => if eHit rx px py e then (if e.2.y - e.1.y < 0 then (-1 : Int) else 1) else 0).sum = 0 := by
    refine Eq.trans ?_ (closed_signs_cancel py a rest hlev)
    congr 1
    apply List.map_congr_left
    intro e he
    have hiff : eHit rx px py e ↔ eStraddle py e := by
      rw [hit_right rx px py e (hcR e he) (fun hs => (hbox e he hs).2)]
      exact ⟨fun h => h.1, fun h => ⟨h, hout e he h⟩⟩
    by_cases hs : eStraddle py e
    · rw [if_pos (hiff.mpr hs), if_pos hs]
    · rw [if_neg (fun h => hs (hiff.mp h)), if_neg hs]
  unfold windingNumber
  simp only [hL, hR, zL, zR]
  rfl

/-- the mirror image: every crossing to the left of the point -/
theorem winding_zero_all_left (sqrt : K → K) (a : Pt K) (rest : List (Pt K)) (px py lx rx : K)
    (hcL : ∀ e ∈ Clip.wrapEdges (a :: rest), eClear lx px py e)
    (hcR : ∀ e ∈ Clip.wrapEdges (a :: rest), eClear rx px py e)
    (hlev : ∀ v ∈ a :: rest, v.y ≠ py)
    (hbox : ∀ e ∈ Clip.wrapEdges (a :: rest), eStraddle py e → lx < eX py e ∧ eX py e < rx)
    (hout : ∀ e ∈ Clip.wrapEdges (a :: rest), eStraddle py e → eX py e < px)
    (hdL : ((flatHits 0 (rows sqrt lx px py (Clip.wrapEdges (a :: rest)))).map (·.pt)).Nodup) :
    windingNumber own (polySegs (a :: rest)) (rayHits sqrt (a :: rest) lx px py) (rayHits sqrt (a :: rest) rx px py) = 0 := by
  have nR : ∀ e ∈ Clip.wrapEdges (a :: rest), ¬ eHit rx px py e := by
    intro e he hh
    have := (hit_right rx px py e (hcR e he) (fun hs => (hbox e he hs).2)).mp hh
    exact absurd this.2 (not_lt.mpr (le_of_lt (hout e he this.1)))
  have hR := windSum_ray sqrt (a :: rest) rx px py hcR (nodup_of_no_hit sqrt rx px py _ hcR nR)
  have hL := windSum_ray sqrt (a :: rest) lx px py hcL hdL
  have zR : ((Clip.wrapEdges (a :: rest)).map fun e => if eHit rx px py e then (if e.2.y - e.1.y < 0 then (-1 : Int) else 1) else 0).sum = 0 := by
    apply List.sum_eq_zero
    intro x hx
    obtain ⟨e, he, rfl⟩ := List.mem_map.mp hx
    rw [if_neg (nR e he)]
  have zL : ((Clip.wrapEdges (a :: rest)).map fun e => if eHit lx px py e then (if e.2.y - e.1.y < 0 then (-1 : Int) else 1) else 0).sum = 0 := by
    refine Eq.trans ?_ (closed_signs_cancel py a rest hlev)
    congr 1
    apply List.map_congr_left
    intro e he
    have hiff : eHit lx px py e ↔ eStraddle py e := by
      rw [hit_left lx px py e (hcL e he) (fun hs => (hbox e he hs).1)]
      exact ⟨fun h => h.1, fun h => ⟨h, hout e he h⟩⟩
    by_cases hs : eStraddle py e
    · rw [if_pos (hiff.mpr hs), if_pos hs]
    · rw [if_neg (fun h => hs (hiff.mp h)), if_neg hs]
  unfold windingNumber
  simp only [hL, hR, zL, zR]
  rfl

/-- a straddling edge crosses the level between its two ends' abscissae -/
theorem eX_between (py : K) (e : Edge K) (hs : eStraddle py e) :
    min e.1.x e.2.x ≤ eX py e ∧ eX py e ≤ max e.1.x e.2.x := by
  have hne : e.2.y ≠ e.1.y := by
    intro hh; unfold eStraddle Straddle at hs; rw [hh] at hs; rcases hs with h | h <;> linarith [h.1, h.2]
  have hl : e.1.y ≠ py ∧ e.2.y ≠ py := by
    unfold eStraddle Straddle at hs
    rcases hs with h | h
    · exact ⟨ne_of_lt h.1, ne_of_gt h.2⟩
    · exact ⟨ne_of_gt h.2, ne_of_lt h.1⟩
  obtain ⟨t0, t1⟩ := (straddle_iff e.1.y e.2.y py hne hl).mp hs
  unfold eX xstar
  set t := T1 e.1.y e.2.y py
  rcases le_total e.1.x e.2.x with h | h
  · rw [min_eq_left h, max_eq_right h]
    constructor <;> nlinarith
  · rw [min_eq_right h, max_eq_left h]
    constructor <;> nlinarith

/-- **winding number 0 outside the bounding box.**  `l ≤ x ≤ r` for every vertex, the rays start at `l − m` and `r + m`
    (`m = 10` in the code).  A query point left of `l`, right of `r`, below every vertex or above every vertex has winding
    number 0 — under the clear-position, level and no-coincident-crossing hypotheses (whose failures are K1 and K6). -/
theorem winding_zero_outside_box (sqrt : K → K) (a : Pt K) (rest : List (Pt K)) (px py l r m : K) (hm : 0 < m)
    (hbnd : ∀ v ∈ a :: rest, l ≤ v.x ∧ v.x ≤ r)
    (hcL : ∀ e ∈ Clip.wrapEdges (a :: rest), eClear (l - m) px py e)
    (hcR : ∀ e ∈ Clip.wrapEdges (a :: rest), eClear (r + m) px py e)
    (hlev : ∀ v ∈ a :: rest, v.y ≠ py)
    (hdL : ((flatHits 0 (rows sqrt (l - m) px py (Clip.wrapEdges (a :: rest)))).map (·.pt)).Nodup)
    (hdR : ((flatHits 0 (rows sqrt (r + m) px py (Clip.wrapEdges (a :: rest)))).map (·.pt)).Nodup)
    (hout : px < l ∨ r < px ∨ (∀ v ∈ a :: rest, v.y < py) ∨ (∀ v ∈ a :: rest, py < v.y)) :
    windingNumber own (polySegs (a :: rest)) (rayHits sqrt (a :: rest) (l - m) px py) (rayHits sqrt (a :: rest) (r + m) px py) = 0 := by
  have hx : ∀ e ∈ Clip.wrapEdges (a :: rest), eStraddle py e → l ≤ eX py e ∧ eX py e ≤ r := by
    intro e he hs
    have hm' := wrapEdges_mem a rest e he
    have hb := eX_between py e hs
    have b1 := hbnd _ hm'.1
    have b2 := hbnd _ hm'.2
    exact ⟨le_trans (le_min b1.1 b2.1) hb.1, le_trans hb.2 (max_le b1.2 b2.2)⟩
  have hbox : ∀ e ∈ Clip.wrapEdges (a :: rest), eStraddle py e → l - m < eX py e ∧ eX py e < r + m := by
    intro e he hs
    have := hx e he hs
    constructor <;> linarith [this.1, this.2]
  have nostr : ((∀ v ∈ a :: rest, v.y < py) ∨ (∀ v ∈ a :: rest, py < v.y)) → ∀ e ∈ Clip.wrapEdges (a :: rest), ¬ eStraddle py e := by
    intro h e he hs
    have hm' := wrapEdges_mem a rest e he
    unfold eStraddle Straddle at hs
    rcases h with h | h
    · have h1 := h _ hm'.1; have h2 := h _ hm'.2
      rcases hs with s | s <;> linarith [s.1, s.2]
    · have h1 := h _ hm'.1; have h2 := h _ hm'.2
      rcases hs with s | s <;> linarith [s.1, s.2]
  rcases hout with h | h | h | h
  · exact winding_zero_all_right sqrt a rest px py _ _ hcL hcR hlev hbox
      (fun e he hs => lt_of_lt_of_le h (hx e he hs).1) hdR
  · exact winding_zero_all_left sqrt a rest px py _ _ hcL hcR hlev hbox
      (fun e he hs => lt_of_le_of_lt (hx e he hs).2 h) hdL
  · exact winding_zero_all_right sqrt a rest px py _ _ hcL hcR hlev hbox
      (fun e he hs => absurd hs (nostr (Or.inl h) e he)) hdR
  · exact winding_zero_all_right sqrt a rest px py _ _ hcL hcR hlev hbox
      (fun e he hs => absurd hs (nostr (Or.inr h) e he)) hdR


/-- the abscissae of the recorded crossing points are the crossings' `eX` -/
theorem flatHits_xs (sqrt : K → K) (x0 px py : K) (es : List (Edge K)) (hc : ∀ e ∈ es, eClear x0 px py e) (i : Nat) :
    ((flatHits i (rows sqrt x0 px py es)).map (·.pt)).map (·.x) =
      (es.filter fun e => decide (eHit x0 px py e)).map (eX py) := by
  induction es generalizing i with
  | nil => simp [rows, flatHits]
  | cons e es ih =>
    have he := hc e List.mem_cons_self
    have ih' := ih (fun e' h' => hc e' (List.mem_cons_of_mem _ h')) (i + 1)
    have hr : rows sqrt x0 px py (e :: es) =
        (Seg.line e.1 e.2, segHits sqrt (Seg.line e.1 e.2) x0 px py (Seg.line e.1 e.2) []) :: rows sqrt x0 px py es := rfl
    rw [hr]
    simp only [flatHits, List.map_append, ih', List.filter_cons]
    rw [segHits_line sqrt x0 px py e he]
    by_cases hh : eHit x0 px py e
    · simp only [hh, if_true, decide_true, hitsOf, List.map_cons, List.map_nil, List.singleton_append, List.cons.injEq, and_true]
      simp only [Seg.eval, line_pointAtTime_x, eX, xstar]
      ring
    · simp only [hh, if_false, decide_false, hitsOf, List.map_nil, List.nil_append, Bool.false_eq_true]

/-- **no two hit edges cross the level at the same abscissa ⇒ the no-coincident-crossings hypothesis** of the theorems above -/
theorem nodup_of_distinct_crossings (sqrt : K → K) (x0 px py : K) (es : List (Edge K)) (hc : ∀ e ∈ es, eClear x0 px py e)
    (hx : ((es.filter fun e => decide (eHit x0 px py e)).map (eX py)).Nodup) :
    ((flatHits 0 (rows sqrt x0 px py es)).map (·.pt)).Nodup := by
  rw [← flatHits_xs sqrt x0 px py es hc 0] at hx
  exact List.Nodup.of_map _ hx

end C11B

/-! non-vacuity of the whole hypothesis set: the 10×10 square, query point (−30, 1) left of the box -/
section examples
open C11B Winding Gen C05M

macro "clear_sq" : tactic => `(tactic|
  (intro e he
   simp only [Clip.wrapEdges, Clip.edges, List.cons_append, List.nil_append, List.mem_cons, List.not_mem_nil, or_false] at he
   rcases he with h | h | h | h <;>
     (subst h; constructor <;> (try simp only [isclose, T1, T2, xstar]) <;> norm_num [abs_le, le_max_iff])))

example : windingNumber own (polySegs ([⟨5, -5⟩, ⟨5, 5⟩, ⟨-5, 5⟩, ⟨-5, -5⟩] : List (Pt ℚ)))
    (rayHits (fun x => x) [⟨5, -5⟩, ⟨5, 5⟩, ⟨-5, 5⟩, ⟨-5, -5⟩] ((-5) - 10) (-30) 1)
    (rayHits (fun x => x) [⟨5, -5⟩, ⟨5, 5⟩, ⟨-5, 5⟩, ⟨-5, -5⟩] (5 + 10) (-30) 1) = 0 := by
  have hcL : ∀ e ∈ Clip.wrapEdges ([⟨5, -5⟩, ⟨5, 5⟩, ⟨-5, 5⟩, ⟨-5, -5⟩] : List (Pt ℚ)), eClear ((-5) - 10) (-30) 1 e := by clear_sq
  have hcR : ∀ e ∈ Clip.wrapEdges ([⟨5, -5⟩, ⟨5, 5⟩, ⟨-5, 5⟩, ⟨-5, -5⟩] : List (Pt ℚ)), eClear (5 + 10) (-30) 1 e := by clear_sq
  refine winding_zero_outside_box _ _ _ (-30) 1 (-5) 5 10 (by norm_num) ?_ hcL hcR ?_ ?_ ?_ (Or.inl (by norm_num))
  · intro v hv; simp only [List.mem_cons, List.not_mem_nil, or_false] at hv; rcases hv with rfl | rfl | rfl | rfl <;> norm_num
  · intro v hv; simp only [List.mem_cons, List.not_mem_nil, or_false] at hv; rcases hv with rfl | rfl | rfl | rfl <;> norm_num
  · apply nodup_of_distinct_crossings _ _ _ _ _ hcL
    simp only [Clip.wrapEdges, Clip.edges, List.cons_append, List.nil_append, List.filter, eHit, hit, Straddle, T2, xstar, T1]
    norm_num [eX, xstar, T1]
  · apply nodup_of_distinct_crossings _ _ _ _ _ hcR
    simp only [Clip.wrapEdges, Clip.edges, List.cons_append, List.nil_append, List.filter, eHit, hit, Straddle, T2, xstar, T1]
    norm_num [eX, xstar, T1]

/-- … and the centre-ish point (0, 1) of the same square is inside (non-vacuity of `polygon_even_odd`) -/
example : inside own (polySegs ([⟨5, -5⟩, ⟨5, 5⟩, ⟨-5, 5⟩, ⟨-5, -5⟩] : List (Pt ℚ)))
    (rayHits (fun x => x) [⟨5, -5⟩, ⟨5, 5⟩, ⟨-5, 5⟩, ⟨-5, -5⟩] (-15) 0 1)
    (rayHits (fun x => x) [⟨5, -5⟩, ⟨5, 5⟩, ⟨-5, 5⟩, ⟨-5, -5⟩] 15 0 1) = true := by
  have hcL : ∀ e ∈ Clip.wrapEdges ([⟨5, -5⟩, ⟨5, 5⟩, ⟨-5, 5⟩, ⟨-5, -5⟩] : List (Pt ℚ)), eClear (-15) 0 1 e := by clear_sq
  have hcR : ∀ e ∈ Clip.wrapEdges ([⟨5, -5⟩, ⟨5, 5⟩, ⟨-5, 5⟩, ⟨-5, -5⟩] : List (Pt ℚ)), eClear 15 0 1 e := by clear_sq
  rw [polygon_even_odd _ _ _ 0 1 (-15) 15 hcL hcR]
  · simp only [Clip.wrapEdges, Clip.edges, List.cons_append, List.nil_append, List.countP_cons, List.countP_nil, Straddle, xstar, T1, eX]
    norm_num
  · intro v hv; simp only [List.mem_cons, List.not_mem_nil, or_false] at hv; rcases hv with rfl | rfl | rfl | rfl <;> norm_num
  · intro e he
    simp only [Clip.wrapEdges, Clip.edges, List.cons_append, List.nil_append, List.mem_cons, List.not_mem_nil, or_false] at he
    rcases he with rfl | rfl | rfl | rfl <;> norm_num [Straddle, eX, xstar, T1]
  · apply nodup_of_distinct_crossings _ _ _ _ _ hcL
    simp only [Clip.wrapEdges, Clip.edges, List.cons_append, List.nil_append, List.filter, eHit, hit, Straddle, T2, xstar, T1]
    norm_num [eX, xstar, T1]
  · apply nodup_of_distinct_crossings _ _ _ _ _ hcR
    simp only [Clip.wrapEdges, Clip.edges, List.cons_append, List.nil_append, List.filter, eHit, hit, Straddle, T2, xstar, T1]
    norm_num [eX, xstar, T1]

end examples
