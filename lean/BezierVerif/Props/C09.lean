/-
  C09 — affine maps commute with evaluation and compose in call order.
  Theorems about Gen/Affine.lean (regenerated from affinetransformation.py, point.py, segment.py)
  and Gen/Eval.lean.
-/
import BezierVerif.Gen.Eval
import BezierVerif.Gen.Affine
import BezierVerif.Tactics
import Mathlib.Data.Matrix.Mul
import Mathlib.Tactic.FinCases
import Mathlib.Tactic.Positivity
import Mathlib.Algebra.BigOperators.Fin
import Mathlib.Analysis.SpecialFunctions.Trigonometric.Basic
import Mathlib.Analysis.SpecialFunctions.Complex.Arg

set_option linter.unusedSectionVars false
set_option linter.unusedVariables false
set_option linter.unusedTactic false
set_option linter.unnecessarySeqFocus false

namespace C09
open Gen
variable {K : Type} [Field K] [LinearOrder K] [IsStrictOrderedRing K]

/-- the 3×3 matrix held by an `AffineTransformation`, row major -/
def toMat (l : List K) : Matrix (Fin 3) (Fin 3) K := fun i j => l.getD (3 * i.val + j.val) 0

/-- action of a matrix on a point as the code defines it (first two rows only) -/
def act (m : List K) (p : K × K) : K × K :=
  (m.getD 0 0 * p.1 + m.getD 1 0 * p.2 + m.getD 2 0, m.getD 3 0 * p.1 + m.getD 4 0 * p.2 + m.getD 5 0)

/-- an affine matrix: bottom row (0, 0, 1) -/
def Affine (m : List K) : Prop := m.length = 9 ∧ m.getD 6 0 = 0 ∧ m.getD 7 0 = 0 ∧ m.getD 8 0 = 1

theorem transformed_is_act (px py m00 m01 m02 m10 m11 m12 m20 m21 m22 : K) :
    point_transformed px py m00 m01 m02 m10 m11 m12 m20 m21 m22
      = [(act [m00, m01, m02, m10, m11, m12, m20, m21, m22] (px, py)).1,
         (act [m00, m01, m02, m10, m11, m12, m20, m21, m22] (px, py)).2] := by
  simp [point_transformed, point_transformed_x, point_transformed_y, act]

/-! ### transforming a segment, then evaluating = evaluating, then transforming -/

section commute
variable (p0x p0y p1x p1y p2x p2y p3x p3y m00 m01 m02 m10 m11 m12 m20 m21 m22 t vx vy k : K)

theorem line_transform_commutes :
    line_pointAtTime (line_transformed_q0x p0x p0y p1x p1y m00 m01 m02 m10 m11 m12 m20 m21 m22)
      (line_transformed_q0y p0x p0y p1x p1y m00 m01 m02 m10 m11 m12 m20 m21 m22)
      (line_transformed_q1x p0x p0y p1x p1y m00 m01 m02 m10 m11 m12 m20 m21 m22)
      (line_transformed_q1y p0x p0y p1x p1y m00 m01 m02 m10 m11 m12 m20 m21 m22) t
    = point_transformed (line_pointAtTime_x p0x p0y p1x p1y t) (line_pointAtTime_y p0x p0y p1x p1y t)
        m00 m01 m02 m10 m11 m12 m20 m21 m22 := by gen_ring

theorem quad_transform_commutes :
    quad_pointAtTime (quad_transformed_q0x p0x p0y p1x p1y p2x p2y m00 m01 m02 m10 m11 m12 m20 m21 m22)
      (quad_transformed_q0y p0x p0y p1x p1y p2x p2y m00 m01 m02 m10 m11 m12 m20 m21 m22)
      (quad_transformed_q1x p0x p0y p1x p1y p2x p2y m00 m01 m02 m10 m11 m12 m20 m21 m22)
      (quad_transformed_q1y p0x p0y p1x p1y p2x p2y m00 m01 m02 m10 m11 m12 m20 m21 m22)
      (quad_transformed_q2x p0x p0y p1x p1y p2x p2y m00 m01 m02 m10 m11 m12 m20 m21 m22)
      (quad_transformed_q2y p0x p0y p1x p1y p2x p2y m00 m01 m02 m10 m11 m12 m20 m21 m22) t
    = point_transformed (quad_pointAtTime_x p0x p0y p1x p1y p2x p2y t) (quad_pointAtTime_y p0x p0y p1x p1y p2x p2y t)
        m00 m01 m02 m10 m11 m12 m20 m21 m22 := by gen_ring

theorem cubic_transform_commutes :
    cubic_pointAtTime (cubic_transformed_q0x p0x p0y p1x p1y p2x p2y p3x p3y m00 m01 m02 m10 m11 m12 m20 m21 m22)
      (cubic_transformed_q0y p0x p0y p1x p1y p2x p2y p3x p3y m00 m01 m02 m10 m11 m12 m20 m21 m22)
      (cubic_transformed_q1x p0x p0y p1x p1y p2x p2y p3x p3y m00 m01 m02 m10 m11 m12 m20 m21 m22)
      (cubic_transformed_q1y p0x p0y p1x p1y p2x p2y p3x p3y m00 m01 m02 m10 m11 m12 m20 m21 m22)
      (cubic_transformed_q2x p0x p0y p1x p1y p2x p2y p3x p3y m00 m01 m02 m10 m11 m12 m20 m21 m22)
      (cubic_transformed_q2y p0x p0y p1x p1y p2x p2y p3x p3y m00 m01 m02 m10 m11 m12 m20 m21 m22)
      (cubic_transformed_q3x p0x p0y p1x p1y p2x p2y p3x p3y m00 m01 m02 m10 m11 m12 m20 m21 m22)
      (cubic_transformed_q3y p0x p0y p1x p1y p2x p2y p3x p3y m00 m01 m02 m10 m11 m12 m20 m21 m22) t
    = point_transformed (cubic_pointAtTime_x p0x p0y p1x p1y p2x p2y p3x p3y t)
        (cubic_pointAtTime_y p0x p0y p1x p1y p2x p2y p3x p3y t) m00 m01 m02 m10 m11 m12 m20 m21 m22 := by gen_ring

theorem line_translate_commutes :
    line_pointAtTime (line_translated_q0x p0x p0y p1x p1y vx vy) (line_translated_q0y p0x p0y p1x p1y vx vy)
      (line_translated_q1x p0x p0y p1x p1y vx vy) (line_translated_q1y p0x p0y p1x p1y vx vy) t
    = [line_pointAtTime_x p0x p0y p1x p1y t + vx, line_pointAtTime_y p0x p0y p1x p1y t + vy] := by gen_ring
theorem quad_translate_commutes :
    quad_pointAtTime (quad_translated_q0x p0x p0y p1x p1y p2x p2y vx vy) (quad_translated_q0y p0x p0y p1x p1y p2x p2y vx vy)
      (quad_translated_q1x p0x p0y p1x p1y p2x p2y vx vy) (quad_translated_q1y p0x p0y p1x p1y p2x p2y vx vy)
      (quad_translated_q2x p0x p0y p1x p1y p2x p2y vx vy) (quad_translated_q2y p0x p0y p1x p1y p2x p2y vx vy) t
    = [quad_pointAtTime_x p0x p0y p1x p1y p2x p2y t + vx, quad_pointAtTime_y p0x p0y p1x p1y p2x p2y t + vy] := by gen_ring
theorem cubic_translate_commutes :
    cubic_pointAtTime (cubic_translated_q0x p0x p0y p1x p1y p2x p2y p3x p3y vx vy) (cubic_translated_q0y p0x p0y p1x p1y p2x p2y p3x p3y vx vy)
      (cubic_translated_q1x p0x p0y p1x p1y p2x p2y p3x p3y vx vy) (cubic_translated_q1y p0x p0y p1x p1y p2x p2y p3x p3y vx vy)
      (cubic_translated_q2x p0x p0y p1x p1y p2x p2y p3x p3y vx vy) (cubic_translated_q2y p0x p0y p1x p1y p2x p2y p3x p3y vx vy)
      (cubic_translated_q3x p0x p0y p1x p1y p2x p2y p3x p3y vx vy) (cubic_translated_q3y p0x p0y p1x p1y p2x p2y p3x p3y vx vy) t
    = [cubic_pointAtTime_x p0x p0y p1x p1y p2x p2y p3x p3y t + vx, cubic_pointAtTime_y p0x p0y p1x p1y p2x p2y p3x p3y t + vy] := by gen_ring

theorem line_scale_commutes :
    line_pointAtTime (line_scaled_q0x p0x p0y p1x p1y k) (line_scaled_q0y p0x p0y p1x p1y k)
      (line_scaled_q1x p0x p0y p1x p1y k) (line_scaled_q1y p0x p0y p1x p1y k) t
    = [line_pointAtTime_x p0x p0y p1x p1y t * k, line_pointAtTime_y p0x p0y p1x p1y t * k] := by gen_ring
theorem quad_scale_commutes :
    quad_pointAtTime (quad_scaled_q0x p0x p0y p1x p1y p2x p2y k) (quad_scaled_q0y p0x p0y p1x p1y p2x p2y k)
      (quad_scaled_q1x p0x p0y p1x p1y p2x p2y k) (quad_scaled_q1y p0x p0y p1x p1y p2x p2y k)
      (quad_scaled_q2x p0x p0y p1x p1y p2x p2y k) (quad_scaled_q2y p0x p0y p1x p1y p2x p2y k) t
    = [quad_pointAtTime_x p0x p0y p1x p1y p2x p2y t * k, quad_pointAtTime_y p0x p0y p1x p1y p2x p2y t * k] := by gen_ring
theorem cubic_scale_commutes :
    cubic_pointAtTime (cubic_scaled_q0x p0x p0y p1x p1y p2x p2y p3x p3y k) (cubic_scaled_q0y p0x p0y p1x p1y p2x p2y p3x p3y k)
      (cubic_scaled_q1x p0x p0y p1x p1y p2x p2y p3x p3y k) (cubic_scaled_q1y p0x p0y p1x p1y p2x p2y p3x p3y k)
      (cubic_scaled_q2x p0x p0y p1x p1y p2x p2y p3x p3y k) (cubic_scaled_q2y p0x p0y p1x p1y p2x p2y p3x p3y k)
      (cubic_scaled_q3x p0x p0y p1x p1y p2x p2y p3x p3y k) (cubic_scaled_q3y p0x p0y p1x p1y p2x p2y p3x p3y k) t
    = [cubic_pointAtTime_x p0x p0y p1x p1y p2x p2y p3x p3y t * k, cubic_pointAtTime_y p0x p0y p1x p1y p2x p2y p3x p3y t * k] := by gen_ring
end commute

/-! ### `apply` / `apply_backwards` are the two matrix products -/

section products
variable (m00 m01 m02 m10 m11 m12 m20 m21 m22 n00 n01 n02 n10 n11 n12 n20 n21 n22 : K)

theorem apply_is_product :
    toMat (at_apply m00 m01 m02 m10 m11 m12 m20 m21 m22 n00 n01 n02 n10 n11 n12 n20 n21 n22)
      = toMat [m00, m01, m02, m10, m11, m12, m20, m21, m22] * toMat [n00, n01, n02, n10, n11, n12, n20, n21, n22] := by
  ext i j
  fin_cases i <;> fin_cases j <;>
    simp [toMat, Matrix.mul_apply, Fin.sum_univ_three, gen_def] <;> ring

theorem apply_backwards_is_product :
    toMat (at_apply_backwards m00 m01 m02 m10 m11 m12 m20 m21 m22 n00 n01 n02 n10 n11 n12 n20 n21 n22)
      = toMat [n00, n01, n02, n10, n11, n12, n20, n21, n22] * toMat [m00, m01, m02, m10, m11, m12, m20, m21, m22] := by
  ext i j
  fin_cases i <;> fin_cases j <;>
    simp [toMat, Matrix.mul_apply, Fin.sum_univ_three, gen_def] <;> ring
end products

/-! ### maps built by successive calls act in call order (on affine matrices) -/

section callorder
variable (m00 m01 m02 m10 m11 m12 px py vx vy fx fy : K)

/-- `m.translate(v)` : first `m`, then the translation. -/
theorem translate_call_order :
    act (at_translate m00 m01 m02 m10 m11 m12 0 0 1 vx vy) (px, py)
      = ((act [m00, m01, m02, m10, m11, m12, 0, 0, 1] (px, py)).1 + vx,
         (act [m00, m01, m02, m10, m11, m12, 0, 0, 1] (px, py)).2 + vy) := by
  simp [act, gen_def]; constructor <;> ring

/-- `m.scale(fx, fy)` : first `m`, then x ↦ fx·x, y ↦ fy·y — for **all** fx, fy, zero included. -/
theorem scale_call_order :
    act (at_scale2 m00 m01 m02 m10 m11 m12 0 0 1 fx fy) (px, py)
      = (fx * (act [m00, m01, m02, m10, m11, m12, 0, 0, 1] (px, py)).1,
         fy * (act [m00, m01, m02, m10, m11, m12, 0, 0, 1] (px, py)).2) := by
  simp only [gen_def] <;> (try split_ifs) <;> (simp [act]; try (constructor <;> ring))

/-- the constructor `scaling(fx, fy)` acts on each axis with its own factor, zero included. -/
theorem scaling_per_axis : at_scaling2 fx fy = [fx, 0, 0, 0, fy, 0, 0, 0, 1] := by
  simp only [gen_def] <;> (try split_ifs) <;> (try simp_all)
theorem scaling_uniform : at_scaling1 fx = [fx, 0, 0, 0, fx, 0, 0, 0, 1] := by
  simp [gen_def]

/-- `m.reflect()` : first `m`, then x ↦ −x. -/
theorem reflect_call_order :
    act (at_reflect m00 m01 m02 m10 m11 m12 0 0 1) (px, py)
      = (-(act [m00, m01, m02, m10, m11, m12, 0, 0, 1] (px, py)).1,
         (act [m00, m01, m02, m10, m11, m12, 0, 0, 1] (px, py)).2) := by
  simp [act, gen_def]; ring

/-- composers keep the bottom row (0,0,1): every matrix reachable through the API is affine. -/
theorem composers_affine :
    Affine (at_translate m00 m01 m02 m10 m11 m12 0 0 1 vx vy) ∧
    Affine (at_reflect m00 m01 m02 m10 m11 m12 (0:K) 0 1) ∧
    Affine (at_translation vx vy) ∧ Affine (at_scaling1 fx) ∧ Affine (at_reflection (K := K)) := by
  simp [Affine, gen_def]
theorem scale_affine : Affine (at_scale2 m00 m01 m02 m10 m11 m12 0 0 1 fx fy) := by
  simp only [gen_def] <;> (try split_ifs) <;> simp [Affine]
end callorder

/-! ### rotation (over ℝ): counter-clockwise rotation matrix, composed in call order -/

section rotation
variable (m00 m01 m02 m10 m11 m12 px py θ : ℝ)

theorem rotation_matrix :
    at_rotation Real.cos Real.sin θ = [Real.cos θ, -Real.sin θ, 0, Real.sin θ, Real.cos θ, 0, 0, 0, 1] := by
  simp [gen_def, Real.cos_neg, Real.sin_neg]

theorem rotate_call_order :
    act (at_rotate Real.cos Real.sin m00 m01 m02 m10 m11 m12 0 0 1 θ) (px, py)
      = ((act [m00, m01, m02, m10, m11, m12, 0, 0, 1] (px, py)).1 * Real.cos θ
           - (act [m00, m01, m02, m10, m11, m12, 0, 0, 1] (px, py)).2 * Real.sin θ,
         (act [m00, m01, m02, m10, m11, m12, 0, 0, 1] (px, py)).1 * Real.sin θ
           + (act [m00, m01, m02, m10, m11, m12, 0, 0, 1] (px, py)).2 * Real.cos θ) := by
  simp [act, gen_def, Real.cos_neg, Real.sin_neg]; constructor <;> ring

theorem rotate_affine : Affine (at_rotate Real.cos Real.sin m00 m01 m02 m10 m11 m12 0 0 1 θ) := by
  simp [Affine, gen_def]
end rotation

/-! ### inverse -/

section inverse
variable (m00 m01 m02 m10 m11 m12 m20 m21 m22 : K)

def det3 : K :=
  m00 * (m11 * m22 - m12 * m21) - m01 * (m10 * m22 - m12 * m20) + m02 * (m10 * m21 - m11 * m20)

/-- the `isclose(det, 0.0)` guard (rel_tol 1e-9, abs_tol 0) fires exactly when det = 0 -/
theorem isclose_zero_iff (d : K) : isclose d 0 ((1 : K) / 1000000000) 0 ↔ d = 0 := by
  unfold isclose
  simp only [sub_zero, abs_zero]
  constructor
  · intro h
    by_contra hd
    have hpos : 0 < |d| := abs_pos.mpr hd
    have h1 : max |d| 0 = |d| := max_eq_left (le_of_lt hpos)
    rw [h1] at h
    have h2 : max ((1 : K) / 1000000000 * |d|) 0 = (1 : K) / 1000000000 * |d| :=
      max_eq_left (by positivity)
    rw [h2] at h
    nlinarith
  · intro h; subst h; simp

theorem invert_guard :
    at_invert m00 m01 m02 m10 m11 m12 m20 m21 m22 = [] ↔ det3 m00 m01 m02 m10 m11 m12 m20 m21 m22 = 0 := by
  simp only [at_invert, det3]
  split_ifs with h
  · simp only [true_iff]; exact (isclose_zero_iff _).mp h
  · simp only [false_iff]; exact fun hd => h ((isclose_zero_iff _).mpr hd)

theorem toMat_mul (a0 a1 a2 a3 a4 a5 a6 a7 a8 b0 b1 b2 b3 b4 b5 b6 b7 b8 : K) :
    toMat [a0, a1, a2, a3, a4, a5, a6, a7, a8] * toMat [b0, b1, b2, b3, b4, b5, b6, b7, b8]
      = toMat [a0 * b0 + a1 * b3 + a2 * b6, a0 * b1 + a1 * b4 + a2 * b7, a0 * b2 + a1 * b5 + a2 * b8,
               a3 * b0 + a4 * b3 + a5 * b6, a3 * b1 + a4 * b4 + a5 * b7, a3 * b2 + a4 * b5 + a5 * b8,
               a6 * b0 + a7 * b3 + a8 * b6, a6 * b1 + a7 * b4 + a8 * b7, a6 * b2 + a7 * b5 + a8 * b8] := by
  ext i j
  fin_cases i <;> fin_cases j <;> simp [toMat, Matrix.mul_apply, Fin.sum_univ_three]

theorem toMat_one : toMat [(1 : K), 0, 0, 0, 1, 0, 0, 0, 1] = 1 := by
  ext i j
  fin_cases i <;> fin_cases j <;> simp [toMat]

theorem invert_right (hd : det3 m00 m01 m02 m10 m11 m12 m20 m21 m22 ≠ 0) :
    toMat [m00, m01, m02, m10, m11, m12, m20, m21, m22] * toMat (at_invert m00 m01 m02 m10 m11 m12 m20 m21 m22) = 1 := by
  have hg : ¬ isclose (det3 m00 m01 m02 m10 m11 m12 m20 m21 m22) 0 ((1 : K) / 1000000000) 0 :=
    fun h => hd ((isclose_zero_iff _).mp h)
  simp only [det3] at hg hd
  simp only [at_invert, if_neg hg]
  obtain ⟨D, hD⟩ : ∃ D, D = m00 * (m11 * m22 - m12 * m21) - m01 * (m10 * m22 - m12 * m20) + m02 * (m10 * m21 - m11 * m20) :=
    ⟨_, rfl⟩
  rw [← hD] at hd ⊢
  rw [toMat_mul, ← toMat_one]
  congr 1
  simp only [List.cons.injEq, and_true]
  refine ⟨?_, ?_, ?_, ?_, ?_, ?_, ?_, ?_, ?_⟩ <;> field_simp <;> subst hD <;> ring

theorem invert_left (hd : det3 m00 m01 m02 m10 m11 m12 m20 m21 m22 ≠ 0) :
    toMat (at_invert m00 m01 m02 m10 m11 m12 m20 m21 m22) * toMat [m00, m01, m02, m10, m11, m12, m20, m21, m22] = 1 := by
  have hg : ¬ isclose (det3 m00 m01 m02 m10 m11 m12 m20 m21 m22) 0 ((1 : K) / 1000000000) 0 :=
    fun h => hd ((isclose_zero_iff _).mp h)
  simp only [det3] at hg hd
  simp only [at_invert, if_neg hg]
  obtain ⟨D, hD⟩ : ∃ D, D = m00 * (m11 * m22 - m12 * m21) - m01 * (m10 * m22 - m12 * m20) + m02 * (m10 * m21 - m11 * m20) :=
    ⟨_, rfl⟩
  rw [← hD] at hd ⊢
  rw [toMat_mul, ← toMat_one]
  congr 1
  simp only [List.cons.injEq, and_true]
  refine ⟨?_, ?_, ?_, ?_, ?_, ?_, ?_, ?_, ?_⟩ <;> field_simp <;> subst hD <;> ring
end inverse

/-! ### non-vacuity / counterexample slots -/
example : at_scaling2 (2 : ℚ) 0 = [2, 0, 0, 0, 0, 0, 0, 0, 1] := scaling_per_axis 2 0
example : det3 (2 : ℚ) 0 5 0 3 7 0 0 1 ≠ 0 := by norm_num [det3]

end C09
