/-
  C11, the whole closed path: (Hseg) discharged for every kind of segment with the aligned copies computed by the regenerated
  `alignmentTransformation` / `transformed` (real cos, sin, atan2), `path_even_odd` (pointIsInside <-> the left ray reports an odd
  number of crossings), `path_even_odd_geometric` (<-> the path crosses the query level an odd number of times to the left of the
  query point, the crossings counted as a set of parameters), and the reduction of the per-segment conditions on the aligned
  copies to conditions on the segment itself.
-/
import BezierVerif.Props.C11P
import Mathlib.Data.Set.Card
open Gen C05M Winding Inter Roots

namespace C11B


/-- one segment of the path together with what `windingNumberOfPoint` gets for it from the two rays: `e.2.1`, `e.2.2` are the values
    the Cardano formulas return for the left and the right aligned copy (ignored for lines and quadratics) -/
noncomputable def rowOf (lx px rx py : ℝ) (e : Seg ℝ × List ℝ × List ℝ) : Seg ℝ × List (ℝ × ℝ) × List (ℝ × ℝ) :=
  (e.1, segHits Real.sqrt e.1 lx px py (alignedTo lx py px e.1) e.2.1, segHits Real.sqrt e.1 rx px py (alignedTo rx py px e.1) e.2.2)

/-- the position of the query point relative to one segment that the theorem needs -/
def SegGood (lx px rx py : ℝ) (e : Seg ℝ × List ℝ × List ℝ) : Prop :=
  match e.1 with
  | Seg.line a b => eClear lx px py (a, b) ∧ eClear rx px py (a, b) ∧ (eStraddle py (a, b) → lx < eX py (a, b) ∧ eX py (a, b) < rx)
  | s => SegOK (alignedTo lx py px s) e.2.1 ∧ SegOK (alignedTo rx py px s) e.2.2 ∧
      (∀ t, 0 < t → t < 1 → (s.eval t).y = py →
        (C02E.dcoeffs s).2.1 * t * t + (C02E.dcoeffs s).2.2.1 * t + (C02E.dcoeffs s).2.2.2 ≠ 0) ∧
      (∀ t, 0 < t → t < 1 → (s.eval t).y = py → within t = true ∧ PClear lx px rx (s.eval t).x)

theorem segHits_line_any (sqrt : ℝ → ℝ) (a b : Pt ℝ) (x0 px py : ℝ) (al al' : Seg ℝ) (cd cd' : List ℝ) :
    segHits sqrt (Seg.line a b) x0 px py al cd = segHits sqrt (Seg.line a b) x0 px py al' cd' := by
  simp only [segHits]

/-- (Hseg) for one row of any kind -/
theorem row_hseg (lx px rx py : ℝ) (e : Seg ℝ × List ℝ × List ℝ)
    (hl : ¬ isclose px lx ((1 : ℝ) / 1000000000) 0) (hr : ¬ isclose px rx ((1 : ℝ) / 1000000000) 0) (hlx : lx < px) (hrx : px < rx)
    (h0 : e.1.start.y ≠ py) (h1 : e.1.end.y ≠ py) (hg : SegGood lx px rx py e) :
    ((rowOf lx px rx py e).2.1.length + (rowOf lx px rx py e).2.2.length) % 2 =
      if Straddle (rowOf lx px rx py e).1.start.y (rowOf lx px rx py e).1.end.y py then 1 else 0 := by
  obtain ⟨s, cdL, cdR⟩ := e
  simp only [rowOf]
  cases s with
  | line a b =>
    obtain ⟨cL, cR, hbox⟩ := hg
    rw [segHits_line_any Real.sqrt a b lx px py _ (Seg.line a b) cdL [], segHits_line_any Real.sqrt a b rx px py _ (Seg.line a b) cdR []]
    exact line_hseg Real.sqrt lx px rx py (a, b) cL cR hbox
  | quad a b c =>
    obtain ⟨okL, okR, hsimple, hclear⟩ := hg
    exact curve_hseg_aligned (Seg.quad a b c) (by simp [Seg.order, Seg.points]) lx px rx py cdL cdR okL okR hl hr hlx hrx hsimple h0 h1 hclear
  | cubic a b c d =>
    obtain ⟨okL, okR, hsimple, hclear⟩ := hg
    exact curve_hseg_aligned (Seg.cubic a b c d) (by simp [Seg.order, Seg.points]) lx px rx py cdL cdR okL okR hl hr hlx hrx hsimple h0 h1 hclear

/-- **even-odd for a whole closed path of lines, quadratics and cubics**, on the model of `windingNumberOfPoint` with the aligned copies
    computed by the regenerated `alignmentTransformation` and the crossings by the regenerated root finders: if the query point is in
    clear position with respect to every segment (`SegGood`), no node is level with it, the path is closed, and no two crossings on
    one ray coincide, then `pointIsInside` answers true exactly when the left ray reports an odd number of crossings. -/
theorem path_even_odd (lx px rx py : ℝ) (es : List (Seg ℝ × List ℝ × List ℝ)) (a : Pt ℝ) (rest : List (Pt ℝ))
    (hl : ¬ isclose px lx ((1 : ℝ) / 1000000000) 0) (hr : ¬ isclose px rx ((1 : ℝ) / 1000000000) 0) (hlx : lx < px) (hrx : px < rx)
    (hclosed : es.map (fun e => (e.1.start, e.1.end)) = Clip.wrapEdges (a :: rest))
    (hlev : ∀ v ∈ a :: rest, v.y ≠ py)
    (hgood : ∀ e ∈ es, SegGood lx px rx py e)
    (hdL : ((flatHits 0 ((es.map (rowOf lx px rx py)).map fun r => (r.1, r.2.1))).map (·.pt)).Nodup)
    (hdR : ((flatHits 0 ((es.map (rowOf lx px rx py)).map fun r => (r.1, r.2.2))).map (·.pt)).Nodup) :
    inside own ((es.map (rowOf lx px rx py)).map (·.1)) ((es.map (rowOf lx px rx py)).map (·.2.1)) ((es.map (rowOf lx px rx py)).map (·.2.2)) = true ↔
      (((es.map (rowOf lx px rx py)).map (·.2.1.length)).sum % 2 = 1) := by
  apply mixed_even_odd (es.map (rowOf lx px rx py)) py a rest _ hlev _ hdL hdR
  · rw [← hclosed, List.map_map]; rfl
  · intro r hr'
    obtain ⟨e, he, rfl⟩ := List.mem_map.mp hr'
    have hm : (e.1.start, e.1.end) ∈ Clip.wrapEdges (a :: rest) := by
      rw [← hclosed]; exact List.mem_map.mpr ⟨e, he, rfl⟩
    obtain ⟨m1, m2⟩ := wrapEdges_mem a rest _ hm
    exact row_hseg lx px rx py e hl hr hlx hrx (hlev _ m1) (hlev _ m2) (hgood e he)



/-- the left ray keeps a crossing in clear position exactly when it lies to the left of the query point -/
theorem left_ray_iff (lx px rx xt : ℝ) (hlx : lx < px) (hrx : px < rx) (h : PClear lx px rx xt) :
    within ((xt - lx) / (px - lx)) = true ↔ xt < px := by
  rcases one_ray lx px rx xt (ne_of_gt hlx) (ne_of_lt hrx) (by linarith) h with ⟨h1, h2⟩ | ⟨h1, h2⟩
  · refine ⟨fun _ => ?_, fun _ => h1⟩
    by_contra hc
    have hx : px < xt := lt_of_le_of_ne (not_lt.mp hc) (Ne.symm h.ne)
    -- then the right ray would keep it too
    have : within ((xt - rx) / (px - rx)) = true := by
      rw [within_iff]
      have hneg : px - rx < 0 := by linarith
      have b0 := h.bandR.1
      have hpos : 0 < (xt - rx) / (px - rx) := div_pos_of_neg_of_neg (by linarith [h.hi]) hneg
      have hlt1 : (xt - rx) / (px - rx) < 1 := by rw [div_lt_one_of_neg hneg]; linarith
      refine ⟨?_, by linarith⟩
      by_contra hc2; exact b0 ⟨le_of_lt hpos, not_le.mp hc2⟩
    rw [this] at h2; exact absurd h2 (by simp)
  · refine ⟨fun h' => ?_, fun hx => ?_⟩
    · rw [h1] at h'; exact absurd h' (by simp)
    · exfalso
      have : within ((xt - lx) / (px - lx)) = true := by
        rw [within_iff]
        have hp : 0 < px - lx := by linarith
        have hpos : 0 < (xt - lx) / (px - lx) := div_pos (by linarith [h.lo]) hp
        have hlt1 : (xt - lx) / (px - lx) < 1 := by rw [div_lt_one hp]; linarith
        refine ⟨?_, by linarith⟩
        by_contra hc2; exact h.bandL.1 ⟨le_of_lt hpos, not_le.mp hc2⟩
      rw [this] at h1; exact absurd h1 (by simp)

/-- number of level crossings of a segment strictly to the left of the query point -/
noncomputable def leftCrossings (px py : ℝ) : Seg ℝ → ℕ
  | Seg.line a b => if eStraddle py (a, b) ∧ eX py (a, b) < px then 1 else 0
  | s => Set.ncard {t : ℝ | 0 < t ∧ t < 1 ∧ (s.eval t).y = py ∧ (s.eval t).x < px}

/-- the left ray's report for a curved segment, as a list of parameters -/
theorem left_hits_curve (s : Seg ℝ) (ts : List ℝ) (lx px rx py : ℝ)
    (hl : ¬ isclose px lx ((1 : ℝ) / 1000000000) 0) (hlx : lx < px) (hrx : px < rx)
    (hts : ∀ t ∈ ts, within t = true ∧ PClear lx px rx (s.eval t).x) :
    (curveLine ts s (Seg.line ⟨lx, py⟩ ⟨px, py⟩)).length = (ts.filter fun t => decide ((s.eval t).x < px)).length := by
  unfold curveLine
  induction ts with
  | nil => simp
  | cons t ts ih =>
    have ih' := ih (fun t' ht' => hts t' (List.mem_cons_of_mem _ ht'))
    obtain ⟨hw, hc⟩ := hts t (by simp)
    simp only [List.map_cons, List.filter_cons]
    rw [sworn_horizontal lx px py _ _ hl]
    by_cases hx : (s.eval t).x < px
    · have h1 := (left_ray_iff lx px rx _ hlx hrx hc).mpr hx
      simp only [hw, h1, Bool.and_self, if_true, hx, decide_true, List.length_cons]
      rw [ih']
    · have h1 : within (((s.eval t).x - lx) / (px - lx)) = false := by
        rw [← Bool.not_eq_true]; exact fun h => hx ((left_ray_iff lx px rx _ hlx hrx hc).mp h)
      simp only [hw, h1, Bool.and_false, Bool.false_eq_true, if_false, hx, decide_false]
      exact ih'

theorem ncard_of_list (S : Set ℝ) (l : List ℝ) (hnd : l.Nodup) (h : ∀ t, t ∈ S ↔ t ∈ l) : S.ncard = l.length := by
  have : S = ↑l.toFinset := by ext t; rw [h t]; simp
  rw [this, Set.ncard_coe_finset, List.toFinset_card_of_nodup hnd]

/-- **the left ray reports exactly the level crossings to the left of the query point**, for a curved segment in clear position -/
theorem left_count_curve (s : Seg ℝ) (hs : 2 < s.order) (lx px rx py : ℝ) (cdL : List ℝ)
    (okL : SegOK (alignedTo lx py px s) cdL)
    (hl : ¬ isclose px lx ((1 : ℝ) / 1000000000) 0) (hlx : lx < px) (hrx : px < rx)
    (hclear : ∀ t, 0 < t → t < 1 → (s.eval t).y = py → within t = true ∧ PClear lx px rx (s.eval t).x) :
    (segHits Real.sqrt s lx px py (alignedTo lx py px s) cdL).length =
      Set.ncard {t : ℝ | 0 < t ∧ t < 1 ∧ (s.eval t).y = py ∧ (s.eval t).x < px} := by
  obtain ⟨sL, inL, allL⟩ := rootListOK_of_segOK _ _ okL
  have z := ypolySeg_alignedTo lx py px s hs (by linarith : px - lx ≠ 0)
  rw [segHits_curve _ s hs]
  set L := curveLineT Real.sqrt (alignedTo lx py px s) cdL with hL
  have hmem : ∀ t, 0 < t → t < 1 → ((s.eval t).y = py ↔ t ∈ L) := fun t t0 t1 =>
    ⟨fun h => (allL t t0 t1).mp ((z t).mpr h), fun h => (z t).mp ((allL t t0 t1).mpr h)⟩
  rw [left_hits_curve s L lx px rx py hl hlx hrx
    (fun t ht => hclear t (inL t ht).1 (inL t ht).2 ((hmem t (inL t ht).1 (inL t ht).2).mpr ht))]
  symm
  apply ncard_of_list
  · exact (sL.imp (fun h => ne_of_lt h)).filter _
  · intro t
    simp only [Set.mem_ofPred_eq, List.mem_filter, decide_eq_true_eq]
    constructor
    · rintro ⟨t0, t1, hy, hx⟩; exact ⟨(hmem t t0 t1).mp hy, hx⟩
    · rintro ⟨ht, hx⟩; exact ⟨(inL t ht).1, (inL t ht).2, (hmem t (inL t ht).1 (inL t ht).2).mpr ht, hx⟩


/-- what the left ray reports for one row is the number of level crossings of its segment to the left of the query point -/
theorem row_left_count (lx px rx py : ℝ) (e : Seg ℝ × List ℝ × List ℝ)
    (hl : ¬ isclose px lx ((1 : ℝ) / 1000000000) 0) (hlx : lx < px) (hrx : px < rx) (hg : SegGood lx px rx py e) :
    (rowOf lx px rx py e).2.1.length = leftCrossings px py e.1 := by
  obtain ⟨s, cdL, cdR⟩ := e
  simp only [rowOf]
  cases s with
  | line a b =>
    obtain ⟨cL, cR, hbox⟩ := hg
    have h := segHits_line Real.sqrt lx px py (a, b) cL (alignedTo lx py px (Seg.line a b)) cdL
    simp only at h
    rw [h]
    have hh := hit_left lx px py (a, b) cL (fun hs => (hbox hs).1)
    simp only [leftCrossings]
    by_cases hit : eHit lx px py (a, b)
    · rw [if_pos hit, if_pos (hh.mp hit)]; rfl
    · rw [if_neg hit, if_neg (fun hc => hit (hh.mpr hc))]; rfl
  | quad a b c =>
    obtain ⟨okL, okR, hsimple, hclear⟩ := hg
    exact left_count_curve (Seg.quad a b c) (by simp [Seg.order, Seg.points]) lx px rx py cdL okL hl hlx hrx hclear
  | cubic a b c d =>
    obtain ⟨okL, okR, hsimple, hclear⟩ := hg
    exact left_count_curve (Seg.cubic a b c d) (by simp [Seg.order, Seg.points]) lx px rx py cdL okL hl hlx hrx hclear

/-- **C11, even-odd, in geometric terms**: under the hypotheses of `path_even_odd`, `pointIsInside` is true exactly when the closed
    path crosses the level of the query point an odd number of times strictly to its left — the crossings counted as the set of
    parameters {t in (0,1) : y(t) = py, x(t) < px} of every curved segment (`Set.ncard`) and the single crossing of every straddling edge -/
theorem path_even_odd_geometric (lx px rx py : ℝ) (es : List (Seg ℝ × List ℝ × List ℝ)) (a : Pt ℝ) (rest : List (Pt ℝ))
    (hl : ¬ isclose px lx ((1 : ℝ) / 1000000000) 0) (hr : ¬ isclose px rx ((1 : ℝ) / 1000000000) 0) (hlx : lx < px) (hrx : px < rx)
    (hclosed : es.map (fun e => (e.1.start, e.1.end)) = Clip.wrapEdges (a :: rest))
    (hlev : ∀ v ∈ a :: rest, v.y ≠ py)
    (hgood : ∀ e ∈ es, SegGood lx px rx py e)
    (hdL : ((flatHits 0 ((es.map (rowOf lx px rx py)).map fun r => (r.1, r.2.1))).map (·.pt)).Nodup)
    (hdR : ((flatHits 0 ((es.map (rowOf lx px rx py)).map fun r => (r.1, r.2.2))).map (·.pt)).Nodup) :
    inside own ((es.map (rowOf lx px rx py)).map (·.1)) ((es.map (rowOf lx px rx py)).map (·.2.1)) ((es.map (rowOf lx px rx py)).map (·.2.2)) = true ↔
      ((es.map fun e => leftCrossings px py e.1).sum % 2 = 1) := by
  rw [path_even_odd lx px rx py es a rest hl hr hlx hrx hclosed hlev hgood hdL hdR]
  have : (es.map (rowOf lx px rx py)).map (·.2.1.length) = es.map fun e => leftCrossings px py e.1 := by
    rw [List.map_map]
    apply List.map_congr_left
    intro e he
    exact row_left_count lx px rx py e hl hlx hrx (hgood e he)
  rw [this]

/-- the sign of the ray's direction: +1 for the left ray (pointing right), -1 for the right ray -/
noncomputable def raySign (x0 px : ℝ) : ℝ := (px - x0) / |px - x0|

theorem raySign_ne (x0 px : ℝ) (hne : px - x0 ≠ 0) : raySign x0 px ≠ 0 :=
  div_ne_zero hne (abs_ne_zero.mpr hne)

/-- the second row of the alignment matrix of a horizontal ray: (0, ±1, ∓py) -/
theorem align_row (x0 py px : ℝ) (hne : px - x0 ≠ 0) :
    alignmentTransformation_m10 Real.cos Real.sin Polar.atan2 x0 py px py = 0 ∧
    alignmentTransformation_m11 Real.cos Real.sin Polar.atan2 x0 py px py = raySign x0 px ∧
    alignmentTransformation_m12 Real.cos Real.sin Polar.atan2 x0 py px py = - (raySign x0 px * py) := by
  have hne' : px - x0 ≠ 0 ∨ py - py ≠ 0 := Or.inl hne
  have hsq : Real.sqrt ((px - x0) * (px - x0) + (py - py) * (py - py)) = |px - x0| := by
    rw [sub_self, mul_zero, add_zero, Real.sqrt_mul_self_eq_abs]
  simp only [gen_def]
  rw [(C05.atan2_args x0 py px py).1, (C05.atan2_args x0 py px py).2]
  have hv : -(Polar.atan2 (py - py) (px - x0) * -1) = Polar.atan2 (py - py) (px - x0) := by ring
  rw [hv, Polar.cos_atan2 _ _ hne', Polar.sin_atan2 _ _ hne', hsq]
  simp only [raySign, sub_self, zero_div]
  refine ⟨by ring, by ring, by ring⟩

/-! ### the conditions on the aligned copies, reduced to conditions on the segment itself -/

/-- the aligned copy's y-polynomial is ± (y(t) - py) -/
theorem ypolySeg_alignedCubic_eq (x0 py px : ℝ) (a b c d : Pt ℝ) (hne : px - x0 ≠ 0) (t : ℝ) :
    ypolySeg (C05.alignedCubic x0 py px py a b c d) t = raySign x0 px * (((Seg.cubic a b c d).eval t).y - py) := by
  obtain ⟨r0, r1, r2⟩ := align_row x0 py px hne
  unfold C05.alignedCubic
  simp only [ypolySeg, ypoly]
  rw [C05.cubic_rootcoeffs_spec, C05.cubic_transformed_eval_y, r0, r1, r2]
  simp only [Seg.eval]; ring

theorem ypolySeg_alignedQuad_eq (x0 py px : ℝ) (a b c : Pt ℝ) (hne : px - x0 ≠ 0) (t : ℝ) :
    ypolySeg (C05.alignedQuad x0 py px py a b c) t = raySign x0 px * (((Seg.quad a b c).eval t).y - py) := by
  obtain ⟨r0, r1, r2⟩ := align_row x0 py px hne
  unfold C05.alignedQuad
  simp only [ypolySeg, ypolyQ]
  rw [C05.quad_rootcoeffs_spec, C05.quad_transformed_eval_y, r0, r1, r2]
  simp only [Seg.eval]; ring

/-- a quadratic polynomial identity gives the coefficients -/
theorem quad_coeffs_of_forall (A B C A' B' C' : ℝ) (h : ∀ t : ℝ, A * t * t + B * t + C = A' * t * t + B' * t + C') :
    A = A' ∧ B = B' ∧ C = C' := by
  have h0 := h 0; have h1 := h 1; have h2 := h (-1)
  norm_num at h0 h1 h2
  refine ⟨by linarith, by linarith, h0⟩

theorem cubic_coeffs_of_forall (D A B C D' A' B' C' : ℝ)
    (h : ∀ t : ℝ, ((D * t + A) * t + B) * t + C = ((D' * t + A') * t + B') * t + C') :
    D = D' ∧ A = A' ∧ B = B' ∧ C = C' := by
  have h0 := h 0; have h1 := h 1; have h2 := h (-1); have h3 := h 2
  norm_num at h0 h1 h2 h3
  refine ⟨by linarith, by linarith, by linarith, h0⟩

/-- the derivative of y along a segment, from the derivative coefficients used by the extremes code -/
noncomputable def dYpoly (s : Seg ℝ) (t : ℝ) : ℝ :=
  (C02E.dcoeffs s).2.1 * t * t + (C02E.dcoeffs s).2.2.1 * t + (C02E.dcoeffs s).2.2.2

/-- the position of a curved segment relative to the query level that the theorem needs — about the segment itself: every crossing
    in [0, 1] is simple, neither end is on the level, and a cubic is in one of the two proved branches of its root finder (the cubic
    coefficient of y is exactly zero, or not negligible against the others) -/
def SegGeom (py : ℝ) : Seg ℝ → Prop
  | Seg.line _ _ => False
  | Seg.quad a b c => (∀ t, 0 ≤ t → t ≤ 1 → ((Seg.quad a b c).eval t).y = py → dYpoly (Seg.quad a b c) t ≠ 0) ∧ a.y ≠ py ∧ c.y ≠ py
  | Seg.cubic a b c d => (∀ t, 0 ≤ t → t ≤ 1 → ((Seg.cubic a b c d).eval t).y = py → dYpoly (Seg.cubic a b c d) t ≠ 0) ∧ a.y ≠ py ∧ d.y ≠ py ∧
      (cubic_rootcoeffs_y_d a.x a.y b.x b.y c.x c.y d.x d.y = 0 ∨
        ¬ |cubic_rootcoeffs_y_d a.x a.y b.x b.y c.x c.y d.x d.y| ≤ (1 : ℝ) / 1000000 *
          max (max |cubic_rootcoeffs_y_a a.x a.y b.x b.y c.x c.y d.x d.y| |cubic_rootcoeffs_y_b a.x a.y b.x b.y c.x c.y d.x d.y|) |a.y - py|)

/-- the Cardano values the root finder computes for an aligned copy -/
noncomputable def cardanoOf : Seg ℝ → List ℝ
  | Seg.cubic q0 q1 q2 q3 => cubic_cardano_roots Real.pi Real.sqrt Real.cos Real.arccos Real.rpow q0.x q0.y q1.x q1.y q2.x q2.y q3.x q3.y
  | _ => []

theorem abs_raySign (x0 px : ℝ) (hne : px - x0 ≠ 0) : |raySign x0 px| = 1 := by
  unfold raySign; rw [abs_div, abs_abs, div_self (abs_ne_zero.mpr hne)]

theorem quadOK_of_eq (l0 l1 l2 a b c : Pt ℝ) (sg py : ℝ) (hsg : sg ≠ 0)
    (key : ∀ t, ypolyQ l0 l1 l2 t = sg * (((Seg.quad a b c).eval t).y - py)) (hg : SegGeom py (Seg.quad a b c)) : QuadOK l0 l1 l2 := by
  obtain ⟨hsimple, h0, h1⟩ := hg
  have hev : ∀ t, ((Seg.quad a b c).eval t).y = quad_rootcoeffs_y_a a.x a.y b.x b.y c.x c.y * t * t
      + quad_rootcoeffs_y_b a.x a.y b.x b.y c.x c.y * t + quad_rootcoeffs_y_c a.x a.y b.x b.y c.x c.y := by
    intro t; rw [C05.quad_rootcoeffs_spec]; rfl
  obtain ⟨hA, hB, hC⟩ := quad_coeffs_of_forall (quad_rootcoeffs_y_a l0.x l0.y l1.x l1.y l2.x l2.y)
    (quad_rootcoeffs_y_b l0.x l0.y l1.x l1.y l2.x l2.y) (quad_rootcoeffs_y_c l0.x l0.y l1.x l1.y l2.x l2.y) (sg * quad_rootcoeffs_y_a a.x a.y b.x b.y c.x c.y)
    (sg * quad_rootcoeffs_y_b a.x a.y b.x b.y c.x c.y) (sg * (quad_rootcoeffs_y_c a.x a.y b.x b.y c.x c.y - py))
    (fun t => by have := key t; rw [hev t] at this; simp only [ypolyQ] at this; rw [this]; ring)
  have hd : ∀ t, dYpoly (Seg.quad a b c) t = 2 * quad_rootcoeffs_y_a a.x a.y b.x b.y c.x c.y * t + quad_rootcoeffs_y_b a.x a.y b.x b.y c.x c.y := by
    intro t; simp only [dYpoly, C02E.dcoeffs, quad_rootcoeffs_y_a, quad_rootcoeffs_y_b]; ring
  refine ⟨?_, ?_, ?_⟩
  · intro t t0 t1 hz
    rw [key t] at hz
    have hy : ((Seg.quad a b c).eval t).y = py := by
      rcases mul_eq_zero.mp hz with h | h
      · exact absurd h hsg
      · linarith
    have := hsimple t t0 t1 hy
    rw [hd t] at this
    rw [hA, hB]
    intro h; apply this
    have : sg * (2 * quad_rootcoeffs_y_a a.x a.y b.x b.y c.x c.y * t + quad_rootcoeffs_y_b a.x a.y b.x b.y c.x c.y) = 0 := by linarith
    exact (mul_eq_zero.mp this).resolve_left hsg
  · rw [key 0]
    have : ((Seg.quad a b c).eval 0).y = a.y := by simp [Seg.eval, quad_pointAtTime_y]
    rw [this]; exact mul_ne_zero hsg (sub_ne_zero.mpr h0)
  · rw [key 1]
    have : ((Seg.quad a b c).eval 1).y = c.y := by simp [Seg.eval, quad_pointAtTime_y]
    rw [this]; exact mul_ne_zero hsg (sub_ne_zero.mpr h1)

theorem segOK_quad_of_geom (x0 py px : ℝ) (a b c : Pt ℝ) (hne : px - x0 ≠ 0) (hg : SegGeom py (Seg.quad a b c)) :
    SegOK (alignedTo x0 py px (Seg.quad a b c)) (cardanoOf (alignedTo x0 py px (Seg.quad a b c))) := by
  have key := ypolySeg_alignedQuad_eq x0 py px a b c hne
  have hsg := raySign_ne x0 px hne
  simp only [alignedTo]
  unfold C05.alignedQuad at key ⊢
  simp only [ypolySeg, cardanoOf, SegOK, and_true] at key ⊢
  exact quadOK_of_eq _ _ _ a b c _ py hsg key hg

theorem cardano_code_of_big (q0 q1 q2 q3 : Pt ℝ)
    (big : ¬ |cubic_rootcoeffs_y_d q0.x q0.y q1.x q1.y q2.x q2.y q3.x q3.y| ≤ (1 : ℝ) / 1000000 *
          max (max |cubic_rootcoeffs_y_a q0.x q0.y q1.x q1.y q2.x q2.y q3.x q3.y| |cubic_rootcoeffs_y_b q0.x q0.y q1.x q1.y q2.x q2.y q3.x q3.y|)
            |cubic_rootcoeffs_y_c q0.x q0.y q1.x q1.y q2.x q2.y q3.x q3.y|) :
    cubic_findRoots_dispatch_v q0.x q0.y q1.x q1.y q2.x q2.y q3.x q3.y = 2 := by
  simp only [cubic_rootcoeffs_y_a, cubic_rootcoeffs_y_b, cubic_rootcoeffs_y_c, cubic_rootcoeffs_y_d] at big
  simp only [cubic_findRoots_dispatch_v, cubic_findRoots_dispatch]
  rw [if_neg big]; rfl

theorem cubicOK_of_eq (l0 l1 l2 l3 a b c d : Pt ℝ) (sg py : ℝ) (hsg : |sg| = 1)
    (key : ∀ t, ypoly l0 l1 l2 l3 t = sg * (((Seg.cubic a b c d).eval t).y - py)) (hg : SegGeom py (Seg.cubic a b c d)) :
    SegOK (Seg.cubic l0 l1 l2 l3) (cardanoOf (Seg.cubic l0 l1 l2 l3)) := by
  obtain ⟨hsimple, h0, h1, hbr⟩ := hg
  have hsg0 : sg ≠ 0 := by intro h; rw [h, abs_zero] at hsg; exact zero_ne_one hsg
  have hev : ∀ t, ((Seg.cubic a b c d).eval t).y = ((cubic_rootcoeffs_y_d a.x a.y b.x b.y c.x c.y d.x d.y * t
      + cubic_rootcoeffs_y_a a.x a.y b.x b.y c.x c.y d.x d.y) * t + cubic_rootcoeffs_y_b a.x a.y b.x b.y c.x c.y d.x d.y) * t
      + cubic_rootcoeffs_y_c a.x a.y b.x b.y c.x c.y d.x d.y := by
    intro t; rw [C05.cubic_rootcoeffs_spec]; rfl
  obtain ⟨hD, hA, hB, hC⟩ := cubic_coeffs_of_forall (cubic_rootcoeffs_y_d l0.x l0.y l1.x l1.y l2.x l2.y l3.x l3.y)
    (cubic_rootcoeffs_y_a l0.x l0.y l1.x l1.y l2.x l2.y l3.x l3.y) (cubic_rootcoeffs_y_b l0.x l0.y l1.x l1.y l2.x l2.y l3.x l3.y)
    (cubic_rootcoeffs_y_c l0.x l0.y l1.x l1.y l2.x l2.y l3.x l3.y)
    (sg * cubic_rootcoeffs_y_d a.x a.y b.x b.y c.x c.y d.x d.y) (sg * cubic_rootcoeffs_y_a a.x a.y b.x b.y c.x c.y d.x d.y)
    (sg * cubic_rootcoeffs_y_b a.x a.y b.x b.y c.x c.y d.x d.y) (sg * (cubic_rootcoeffs_y_c a.x a.y b.x b.y c.x c.y d.x d.y - py))
    (fun t => by have := key t; rw [hev t] at this; simp only [ypoly] at this; rw [this]; ring)
  have hcy : cubic_rootcoeffs_y_c a.x a.y b.x b.y c.x c.y d.x d.y = a.y := by simp only [cubic_rootcoeffs_y_c]
  have hd : ∀ t, dYpoly (Seg.cubic a b c d) t = (3 * cubic_rootcoeffs_y_d a.x a.y b.x b.y c.x c.y d.x d.y * t
      + 2 * cubic_rootcoeffs_y_a a.x a.y b.x b.y c.x c.y d.x d.y) * t + cubic_rootcoeffs_y_b a.x a.y b.x b.y c.x c.y d.x d.y := by
    intro t
    simp only [dYpoly, C02E.dcoeffs, cubic_dcoeffs_ay, cubic_dcoeffs_by, cubic_dcoeffs_cy, cubic_rootcoeffs_y_a, cubic_rootcoeffs_y_b,
      cubic_rootcoeffs_y_d]
    ring
  have hsim : ∀ t, 0 ≤ t → t ≤ 1 → ypoly l0 l1 l2 l3 t = 0 → ypoly' l0 l1 l2 l3 t ≠ 0 := by
    intro t t0 t1 hz
    rw [key t] at hz
    have hy : ((Seg.cubic a b c d).eval t).y = py := by
      rcases mul_eq_zero.mp hz with h | h
      · exact absurd h hsg0
      · linarith
    have := hsimple t t0 t1 hy
    rw [hd t] at this
    simp only [ypoly']
    rw [hD, hA, hB]
    intro h; apply this
    have : sg * ((3 * cubic_rootcoeffs_y_d a.x a.y b.x b.y c.x c.y d.x d.y * t
      + 2 * cubic_rootcoeffs_y_a a.x a.y b.x b.y c.x c.y d.x d.y) * t + cubic_rootcoeffs_y_b a.x a.y b.x b.y c.x c.y d.x d.y) = 0 := by linarith
    exact (mul_eq_zero.mp this).resolve_left hsg0
  have he0 : ypoly l0 l1 l2 l3 0 ≠ 0 := by
    rw [key 0]
    have : ((Seg.cubic a b c d).eval 0).y = a.y := by simp [Seg.eval, cubic_pointAtTime_y]
    rw [this]; exact mul_ne_zero hsg0 (sub_ne_zero.mpr h0)
  have he1 : ypoly l0 l1 l2 l3 1 ≠ 0 := by
    rw [key 1]
    have : ((Seg.cubic a b c d).eval 1).y = d.y := by simp [Seg.eval, cubic_pointAtTime_y]
    rw [this]; exact mul_ne_zero hsg0 (sub_ne_zero.mpr h1)
  rcases hbr with hz | hbig
  · right
    exact ⟨by rw [hD, hz, mul_zero], hsim, he0, he1⟩
  · left
    have big' : ¬ |cubic_rootcoeffs_y_d l0.x l0.y l1.x l1.y l2.x l2.y l3.x l3.y| ≤ (1 : ℝ) / 1000000 *
          max (max |cubic_rootcoeffs_y_a l0.x l0.y l1.x l1.y l2.x l2.y l3.x l3.y| |cubic_rootcoeffs_y_b l0.x l0.y l1.x l1.y l2.x l2.y l3.x l3.y|)
            |cubic_rootcoeffs_y_c l0.x l0.y l1.x l1.y l2.x l2.y l3.x l3.y| := by
      rw [hD, hA, hB, hC, abs_mul, abs_mul, abs_mul, abs_mul, hsg, one_mul, one_mul, one_mul, one_mul, hcy]
      exact hbig
    exact ⟨⟨cardano_code_of_big l0 l1 l2 l3 big', big', hsim, he0, he1⟩, rfl⟩

theorem segOK_cubic_of_geom (x0 py px : ℝ) (a b c d : Pt ℝ) (hne : px - x0 ≠ 0) (hg : SegGeom py (Seg.cubic a b c d)) :
    SegOK (alignedTo x0 py px (Seg.cubic a b c d)) (cardanoOf (alignedTo x0 py px (Seg.cubic a b c d))) := by
  have key := ypolySeg_alignedCubic_eq x0 py px a b c d hne
  simp only [alignedTo]
  unfold C05.alignedCubic at key ⊢
  simp only [ypolySeg] at key
  exact cubicOK_of_eq _ _ _ _ a b c d _ py (abs_raySign x0 px hne) key hg

/-- **the conditions on the aligned copies follow from conditions on the segment itself** -/
theorem segOK_of_geom (x0 py px : ℝ) (s : Seg ℝ) (hne : px - x0 ≠ 0) (hg : SegGeom py s) :
    SegOK (alignedTo x0 py px s) (cardanoOf (alignedTo x0 py px s)) := by
  cases s with
  | line _ _ => exact absurd hg (by simp [SegGeom])
  | quad a b c => exact segOK_quad_of_geom x0 py px a b c hne hg
  | cubic a b c d => exact segOK_cubic_of_geom x0 py px a b c d hne hg

/-- a segment with what `windingNumberOfPoint` computes for it from the two rays, nothing supplied from outside -/
noncomputable def rowG (lx px rx py : ℝ) (s : Seg ℝ) : Seg ℝ × List (ℝ × ℝ) × List (ℝ × ℝ) :=
  rowOf lx px rx py (s, cardanoOf (alignedTo lx py px s), cardanoOf (alignedTo rx py px s))

/-- the position of the query point relative to one segment, in terms of the segment alone -/
def SegPos (lx px rx py : ℝ) (s : Seg ℝ) : Prop :=
  match s with
  | Seg.line a b => eClear lx px py (a, b) ∧ eClear rx px py (a, b) ∧ (eStraddle py (a, b) → lx < eX py (a, b) ∧ eX py (a, b) < rx)
  | s => SegGeom py s ∧ (∀ t, 0 < t → t < 1 → (s.eval t).y = py → within t = true ∧ PClear lx px rx (s.eval t).x)

theorem segGood_of_pos (lx px rx py : ℝ) (s : Seg ℝ) (hlx : px - lx ≠ 0) (hrx : px - rx ≠ 0) (hp : SegPos lx px rx py s) :
    SegGood lx px rx py (s, cardanoOf (alignedTo lx py px s), cardanoOf (alignedTo rx py px s)) := by
  cases s with
  | line a b => exact hp
  | quad a b c =>
    obtain ⟨hg, hclear⟩ := hp
    refine ⟨segOK_of_geom lx py px _ hlx hg, segOK_of_geom rx py px _ hrx hg, ?_, hclear⟩
    intro t t0 t1 hy
    exact hg.1 t (le_of_lt t0) (le_of_lt t1) hy
  | cubic a b c d =>
    obtain ⟨hg, hclear⟩ := hp
    refine ⟨segOK_of_geom lx py px _ hlx hg, segOK_of_geom rx py px _ hrx hg, ?_, hclear⟩
    intro t t0 t1 hy
    exact hg.1 t (le_of_lt t0) (le_of_lt t1) hy

/-- **C11, even-odd, for closed paths of lines, quadratics and cubics — hypotheses about the path and the query point only.**
    `rowG` is the model of what `windingNumberOfPoint` does with each segment (regenerated alignment, regenerated root finders, real
    sqrt/cos/arccos/atan2/cube root).  If the path is closed, no node is level with the query point, the query point is in clear
    position with respect to every segment (`SegPos`: edges clear of the rays' ends; for a curve every crossing of the level simple,
    inside the range filter and away from the rays' ends, and a cubic's y-polynomial either of degree two exactly or with a leading
    coefficient that is not negligible), and no two crossings on one ray coincide (K6), then `pointIsInside` is true exactly when
    the path crosses the level of the query point an odd number of times strictly to its left. -/
theorem pointIsInside_even_odd (lx px rx py : ℝ) (segs : List (Seg ℝ)) (a : Pt ℝ) (rest : List (Pt ℝ))
    (hl : ¬ isclose px lx ((1 : ℝ) / 1000000000) 0) (hr : ¬ isclose px rx ((1 : ℝ) / 1000000000) 0) (hlx : lx < px) (hrx : px < rx)
    (hclosed : segs.map (fun s => (s.start, s.end)) = Clip.wrapEdges (a :: rest))
    (hlev : ∀ v ∈ a :: rest, v.y ≠ py)
    (hpos : ∀ s ∈ segs, SegPos lx px rx py s)
    (hdL : ((flatHits 0 ((segs.map (rowG lx px rx py)).map fun r => (r.1, r.2.1))).map (·.pt)).Nodup)
    (hdR : ((flatHits 0 ((segs.map (rowG lx px rx py)).map fun r => (r.1, r.2.2))).map (·.pt)).Nodup) :
    inside own ((segs.map (rowG lx px rx py)).map (·.1)) ((segs.map (rowG lx px rx py)).map (·.2.1))
        ((segs.map (rowG lx px rx py)).map (·.2.2)) = true ↔
      ((segs.map (leftCrossings px py)).sum % 2 = 1) := by
  set es := segs.map fun s => (s, cardanoOf (alignedTo lx py px s), cardanoOf (alignedTo rx py px s)) with hes
  have hrows : segs.map (rowG lx px rx py) = es.map (rowOf lx px rx py) := by
    rw [hes, List.map_map]; rfl
  have hcl : es.map (fun e => (e.1.start, e.1.end)) = Clip.wrapEdges (a :: rest) := by
    rw [hes, List.map_map]; exact hclosed
  have hgood : ∀ e ∈ es, SegGood lx px rx py e := by
    intro e he
    obtain ⟨s, hs, rfl⟩ := List.mem_map.mp he
    exact segGood_of_pos lx px rx py s (by linarith) (by linarith) (hpos s hs)
  rw [hrows] at hdL hdR ⊢
  rw [path_even_odd_geometric lx px rx py es a rest hl hr hlx hrx hcl hlev hgood hdL hdR]
  have : (es.map fun e => leftCrossings px py e.1) = segs.map (leftCrossings px py) := by
    rw [hes, List.map_map]; rfl
  rw [this]

/-- t is a crossing of segment s with the level py, strictly inside the segment -/
def Crossing (py : ℝ) (s : Seg ℝ) (t : ℝ) : Prop := 0 < t ∧ t < 1 ∧ (s.eval t).y = py

/-- no two level crossings of the path fall on the same point -/
def NoCoincide (py : ℝ) (segs : List (Seg ℝ)) : Prop :=
  (∀ s ∈ segs, ∀ t t', Crossing py s t → Crossing py s t' → (s.eval t).x = (s.eval t').x → t = t') ∧
  segs.Pairwise (fun s s' => ∀ t t', Crossing py s t → Crossing py s' t' → (s.eval t).x ≠ (s'.eval t').x)

theorem flatHits_pts (i : Nat) (rows : List (Seg ℝ × List (ℝ × ℝ))) :
    (flatHits i rows).map (·.pt) = rows.flatMap fun r => r.2.map fun p => r.1.eval p.1 := by
  induction rows generalizing i with
  | nil => simp [flatHits]
  | cons r rows ih =>
    obtain ⟨s, pairs⟩ := r
    simp only [flatHits, List.map_append, ih, hitsOf, List.map_map, List.flatMap_cons]
    rfl

/-- what one ray reports for one segment: distinct parameters, each of them a crossing -/
def PairsOK (py : ℝ) (s : Seg ℝ) (pairs : List (ℝ × ℝ)) : Prop :=
  (pairs.map (·.1)).Nodup ∧ ∀ p ∈ pairs, Crossing py s p.1

theorem straddle_T1 (a b : Pt ℝ) (py : ℝ) (hs : Straddle a.y b.y py) : Crossing py (Seg.line a b) (T1 a.y b.y py) := by
  unfold T1 Crossing
  have hne : b.y - a.y ≠ 0 := by
    rcases hs with ⟨h1, h2⟩ | ⟨h1, h2⟩
    · exact ne_of_gt (by linarith)
    · exact ne_of_lt (by linarith)
  refine ⟨?_, ?_, ?_⟩
  · rcases hs with ⟨h1, h2⟩ | ⟨h1, h2⟩
    · exact div_pos (by linarith) (by linarith)
    · exact div_pos_of_neg_of_neg (by linarith) (by linarith)
  · rcases hs with ⟨h1, h2⟩ | ⟨h1, h2⟩
    · rw [div_lt_one (by linarith)]; linarith
    · rw [div_lt_one_of_neg (by linarith)]; linarith
  · simp only [Seg.eval, line_pointAtTime_y]
    field_simp
    ring

theorem pairsOK_line (x0 px py : ℝ) (a b : Pt ℝ) (hc : eClear x0 px py (a, b)) (al : Seg ℝ) (cd : List ℝ) :
    PairsOK py (Seg.line a b) (segHits Real.sqrt (Seg.line a b) x0 px py al cd) := by
  have h := segHits_line Real.sqrt x0 px py (a, b) hc al cd
  simp only at h
  rw [h]
  by_cases hh : eHit x0 px py (a, b)
  · rw [if_pos hh]
    refine ⟨by simp, ?_⟩
    intro p hp
    simp only [List.mem_singleton] at hp
    rw [hp]
    exact straddle_T1 a b py hh.1
  · rw [if_neg hh]
    exact ⟨by simp, by simp⟩

theorem pairsOK_curve (s : Seg ℝ) (hs : 2 < s.order) (x0 px py : ℝ) (cd : List ℝ) (hne : px - x0 ≠ 0)
    (ok : SegOK (alignedTo x0 py px s) cd) :
    PairsOK py s (segHits Real.sqrt s x0 px py (alignedTo x0 py px s) cd) := by
  obtain ⟨sL, inL, allL⟩ := rootListOK_of_segOK _ _ ok
  have z := ypolySeg_alignedTo x0 py px s hs hne
  rw [segHits_curve _ s hs]
  set L := curveLineT Real.sqrt (alignedTo x0 py px s) cd with hL
  unfold curveLine
  constructor
  · have hsub : (((L.map fun t => (t, tOfPointSworn (Seg.line ⟨x0, py⟩ ⟨px, py⟩) (s.eval t))).filter
        fun p => within p.1 && within p.2).map (·.1)).Sublist
        ((L.map fun t => (t, tOfPointSworn (Seg.line ⟨x0, py⟩ ⟨px, py⟩) (s.eval t))).map (·.1)) :=
      (List.filter_sublist).map _
    have hid : (L.map fun t => (t, tOfPointSworn (Seg.line ⟨x0, py⟩ ⟨px, py⟩) (s.eval t))).map (·.1) = L := by
      rw [List.map_map]; simp [Function.comp_def]
    rw [hid] at hsub
    exact (sL.imp (fun h => ne_of_lt h)).sublist hsub
  · intro p hp
    have hp' := (List.mem_filter.mp hp).1
    obtain ⟨t, ht, rfl⟩ := List.mem_map.mp hp'
    exact ⟨(inL t ht).1, (inL t ht).2, (z t).mp ((allL t (inL t ht).1 (inL t ht).2).mpr ht)⟩

/-- both components of a row under `SegPos` -/
theorem pairsOK_row (lx px rx py : ℝ) (s : Seg ℝ) (hlx : px - lx ≠ 0) (hrx : px - rx ≠ 0) (hp : SegPos lx px rx py s) :
    PairsOK py s (rowG lx px rx py s).2.1 ∧ PairsOK py s (rowG lx px rx py s).2.2 := by
  have hg := segGood_of_pos lx px rx py s hlx hrx hp
  simp only [rowG, rowOf]
  cases s with
  | line a b => exact ⟨pairsOK_line lx px py a b hp.1 _ _, pairsOK_line rx px py a b hp.2.1 _ _⟩
  | quad a b c =>
    exact ⟨pairsOK_curve _ (by simp [Seg.order, Seg.points]) lx px py _ hlx hg.1,
      pairsOK_curve _ (by simp [Seg.order, Seg.points]) rx px py _ hrx hg.2.1⟩
  | cubic a b c d =>
    exact ⟨pairsOK_curve _ (by simp [Seg.order, Seg.points]) lx px py _ hlx hg.1,
      pairsOK_curve _ (by simp [Seg.order, Seg.points]) rx px py _ hrx hg.2.1⟩

/-- **no coincident crossings on the path ⇒ no coincident recorded hits on a ray** -/
theorem nodup_of_noCoincide (py : ℝ) (segs : List (Seg ℝ)) (f : Seg ℝ → List (ℝ × ℝ))
    (hf : ∀ s ∈ segs, PairsOK py s (f s)) (hn : NoCoincide py segs) :
    ((flatHits 0 (segs.map fun s => (s, f s))).map (·.pt)).Nodup := by
  rw [flatHits_pts, List.flatMap_map]
  simp only
  obtain ⟨hinj, hpw⟩ := hn
  rw [List.nodup_flatMap]
  constructor
  · intro s hs
    obtain ⟨hnd, hcr⟩ := hf s hs
    have : ((f s).map fun p => s.eval p.1) = ((f s).map (·.1)).map s.eval := by rw [List.map_map]; rfl
    rw [this]
    apply List.Nodup.map_on _ hnd
    intro t ht t' ht' he
    obtain ⟨p, hp, rfl⟩ := List.mem_map.mp ht
    obtain ⟨p', hp', rfl⟩ := List.mem_map.mp ht'
    exact hinj s hs _ _ (hcr p hp) (hcr p' hp') (by rw [he])
  · have : ∀ (l : List (Seg ℝ)), (∀ s ∈ l, PairsOK py s (f s)) →
        l.Pairwise (fun s s' => ∀ t t', Crossing py s t → Crossing py s' t' → (s.eval t).x ≠ (s'.eval t').x) →
        l.Pairwise (Function.onFun List.Disjoint fun s => (f s).map fun p => s.eval p.1) := by
      intro l hl hp
      induction hp with
      | nil => exact List.Pairwise.nil
      | @cons s l' hhead _ ih =>
        refine List.Pairwise.cons ?_ (ih (fun s' hs' => hl s' (List.mem_cons_of_mem _ hs')))
        intro s' hs'
        simp only [Function.onFun]
        intro q hq hq'
        obtain ⟨p, hp1, rfl⟩ := List.mem_map.mp hq
        obtain ⟨p', hp2, he⟩ := List.mem_map.mp hq'
        exact hhead s' hs' p.1 p'.1 ((hl s List.mem_cons_self).2 p hp1) ((hl s' (List.mem_cons_of_mem _ hs')).2 p' hp2) (by rw [he])
    exact this segs hf hpw

/-- **C11, even-odd — final form.**  Every hypothesis is about the closed path and the query point: the path is closed, no node is
    level with the query point, the query point is in clear position with respect to every segment (`SegPos`), and no two level
    crossings of the path fall on the same point (`NoCoincide`, the K6 condition).  Then `pointIsInside` — the model of the code with
    regenerated ray test, alignment and root finders — is true exactly when the path crosses the level of the query point an odd
    number of times strictly to the left of it. -/
theorem pointIsInside_iff_odd_crossings (lx px rx py : ℝ) (segs : List (Seg ℝ)) (a : Pt ℝ) (rest : List (Pt ℝ))
    (hl : ¬ isclose px lx ((1 : ℝ) / 1000000000) 0) (hr : ¬ isclose px rx ((1 : ℝ) / 1000000000) 0) (hlx : lx < px) (hrx : px < rx)
    (hclosed : segs.map (fun s => (s.start, s.end)) = Clip.wrapEdges (a :: rest))
    (hlev : ∀ v ∈ a :: rest, v.y ≠ py)
    (hpos : ∀ s ∈ segs, SegPos lx px rx py s)
    (hnc : NoCoincide py segs) :
    inside own ((segs.map (rowG lx px rx py)).map (·.1)) ((segs.map (rowG lx px rx py)).map (·.2.1))
        ((segs.map (rowG lx px rx py)).map (·.2.2)) = true ↔
      ((segs.map (leftCrossings px py)).sum % 2 = 1) := by
  apply pointIsInside_even_odd lx px rx py segs a rest hl hr hlx hrx hclosed hlev hpos
  · have := nodup_of_noCoincide py segs (fun s => (rowG lx px rx py s).2.1)
      (fun s hs => (pairsOK_row lx px rx py s (by linarith) (by linarith) (hpos s hs)).1) hnc
    rw [List.map_map]
    have he : ((fun r : Seg ℝ × List (ℝ × ℝ) × List (ℝ × ℝ) => (r.1, r.2.1)) ∘ rowG lx px rx py) =
        fun s => (s, (rowG lx px rx py s).2.1) := by
      funext s; simp [rowG, rowOf]
    rw [he]; exact this
  · have := nodup_of_noCoincide py segs (fun s => (rowG lx px rx py s).2.2)
      (fun s hs => (pairsOK_row lx px rx py s (by linarith) (by linarith) (hpos s hs)).2) hnc
    rw [List.map_map]
    have he : ((fun r : Seg ℝ × List (ℝ × ℝ) × List (ℝ × ℝ) => (r.1, r.2.2)) ∘ rowG lx px rx py) =
        fun s => (s, (rowG lx px rx py s).2.2) := by
      funext s; simp [rowG, rowOf]
    rw [he]; exact this

/-- `isclose` is false for numbers this far apart -/
theorem not_isclose_num (a b : ℝ) (h : (1 : ℝ) / 1000000000 * max |a| |b| < |a - b|) : ¬ isclose a b ((1 : ℝ) / 1000000000) 0 := by
  unfold isclose
  intro hc
  have h0 : (0 : ℝ) ≤ (1 : ℝ) / 1000000000 * max |a| |b| := mul_nonneg (by norm_num) (le_max_of_le_left (abs_nonneg a))
  rw [max_eq_left h0] at hc
  linarith

/-! non-vacuity: the arch y = 4t(1-t) over [0,2] closed by its chord, query point (1, 3/4) under the arch; the level crosses the arch at
    t = 1/4 (x = 1/2, left of the point) and t = 3/4 (x = 3/2, right of it) -/
section example_arch

noncomputable def arch : Seg ℝ := Seg.quad ⟨0, 0⟩ ⟨1, 2⟩ ⟨2, 0⟩
noncomputable def chord : Seg ℝ := Seg.line ⟨2, 0⟩ ⟨0, 0⟩

theorem arch_y (t : ℝ) : (arch.eval t).y = 4 * t - 4 * t * t := by
  simp only [arch, Seg.eval, quad_pointAtTime_y]; ring
theorem arch_x (t : ℝ) : (arch.eval t).x = 2 * t := by
  simp only [arch, Seg.eval, quad_pointAtTime_x]; ring
theorem chord_y (t : ℝ) : (chord.eval t).y = 0 := by
  simp only [chord, Seg.eval, line_pointAtTime_y]; ring

theorem arch_cross (t : ℝ) (h : (arch.eval t).y = 3 / 4) : t = 1 / 4 ∨ t = 3 / 4 := by
  rw [arch_y] at h
  have : (4 * t - 1) * (4 * t - 3) = 0 := by linarith
  rcases mul_eq_zero.mp this with h | h
  · left; linarith
  · right; linarith

theorem arch_hyps : SegPos (-10) 1 12 (3 / 4) arch ∧ SegPos (-10) 1 12 (3 / 4) chord ∧ NoCoincide (3 / 4) [arch, chord] := by
  refine ⟨?_, ?_, ?_⟩
  · -- the arch
    show SegGeom (3 / 4) arch ∧ _
    constructor
    · refine ⟨?_, by norm_num, by norm_num⟩
      intro t _ _ hy
      have hd : dYpoly (Seg.quad ⟨0, 0⟩ ⟨1, 2⟩ ⟨2, 0⟩) t = 4 - 8 * t := by simp only [dYpoly, C02E.dcoeffs]; ring
      rw [hd]
      rcases arch_cross t hy with rfl | rfl <;> norm_num
    · intro t _ _ hy
      have hx := arch_x t
      rcases arch_cross t hy with rfl | rfl
      · refine ⟨by rw [within_iff]; norm_num, ?_⟩
        have : (arch.eval (1 / 4)).x = 1 / 2 := by rw [hx]; norm_num
        rw [this]
        exact ⟨by norm_num, by norm_num, by norm_num, ⟨by norm_num, by norm_num⟩, ⟨by norm_num, by norm_num⟩⟩
      · refine ⟨by rw [within_iff]; norm_num, ?_⟩
        have : (arch.eval (3 / 4)).x = 3 / 2 := by rw [hx]; norm_num
        rw [this]
        exact ⟨by norm_num, by norm_num, by norm_num, ⟨by norm_num, by norm_num⟩, ⟨by norm_num, by norm_num⟩⟩
  · -- the chord: horizontal, below the level
    show eClear (-10) 1 (3 / 4) (⟨2, 0⟩, ⟨0, 0⟩) ∧ eClear 12 1 (3 / 4) (⟨2, 0⟩, ⟨0, 0⟩) ∧ _
    have hns : ¬ Straddle (0 : ℝ) 0 (3 / 4) := by unfold Straddle; norm_num
    refine ⟨?_, ?_, fun h => absurd h hns⟩
    · refine ⟨fun h => absurd h (not_isclose_num _ _ (by norm_num)), fun _ => rfl, not_isclose_num _ _ (by norm_num),
        fun h => absurd rfl h, by norm_num, ?_, fun h => absurd rfl h⟩
      simp only [T1]; norm_num
    · refine ⟨fun h => absurd h (not_isclose_num _ _ (by norm_num)), fun _ => rfl, not_isclose_num _ _ (by norm_num),
        fun h => absurd rfl h, by norm_num, ?_, fun h => absurd rfl h⟩
      simp only [T1]; norm_num
  · -- no coincident crossings
    have hch : ∀ t, ¬ Crossing (3 / 4) chord t := by
      intro t h; have := h.2.2; rw [chord_y] at this; norm_num at this
    constructor
    · intro s hs t t' ht ht' hx
      simp only [List.mem_cons, List.not_mem_nil, or_false] at hs
      rcases hs with rfl | rfl
      · rw [arch_x, arch_x] at hx; linarith
      · exact absurd ht (hch t)
    · refine List.Pairwise.cons ?_ (List.Pairwise.cons (by simp) List.Pairwise.nil)
      intro s' hs' t t' _ ht'
      simp only [List.mem_cons, List.not_mem_nil, or_false] at hs'
      rw [hs'] at ht'
      exact absurd ht' (hch t')

/-- … and the theorem then decides the query: the point under the arch is inside -/
example : inside own (([arch, chord].map (rowG (-10) 1 12 (3 / 4))).map (·.1)) (([arch, chord].map (rowG (-10) 1 12 (3 / 4))).map (·.2.1))
    (([arch, chord].map (rowG (-10) 1 12 (3 / 4))).map (·.2.2)) = true := by
  obtain ⟨h1, h2, h3⟩ := arch_hyps
  rw [pointIsInside_iff_odd_crossings (-10) 1 12 (3 / 4) [arch, chord] ⟨0, 0⟩ [⟨2, 0⟩]
    (not_isclose_num _ _ (by norm_num)) (not_isclose_num _ _ (by norm_num)) (by norm_num) (by norm_num)
    (by simp [arch, chord, Seg.start, Seg.end, Clip.wrapEdges, Clip.edges])
    (by intro v hv; simp only [List.mem_cons, List.not_mem_nil, or_false] at hv; rcases hv with rfl | rfl <;> norm_num)
    (by intro s hs; simp only [List.mem_cons, List.not_mem_nil, or_false] at hs; rcases hs with rfl | rfl; exact h1; exact h2) h3]
  have ha : leftCrossings 1 (3 / 4) arch = 1 := by
    show Set.ncard {t : ℝ | 0 < t ∧ t < 1 ∧ (arch.eval t).y = 3 / 4 ∧ (arch.eval t).x < 1} = 1
    have : {t : ℝ | 0 < t ∧ t < 1 ∧ (arch.eval t).y = 3 / 4 ∧ (arch.eval t).x < 1} = {1 / 4} := by
      ext t
      simp only [Set.mem_ofPred_eq, Set.mem_singleton_iff]
      constructor
      · rintro ⟨_, _, hy, hx⟩
        rcases arch_cross t hy with rfl | rfl
        · rfl
        · rw [arch_x] at hx; norm_num at hx
      · rintro rfl
        refine ⟨by norm_num, by norm_num, by rw [arch_y]; norm_num, by rw [arch_x]; norm_num⟩
    rw [this, Set.ncard_singleton]
  have hc : leftCrossings 1 (3 / 4) chord = 0 := by
    show (if eStraddle (3 / 4) ((⟨2, 0⟩ : Pt ℝ), (⟨0, 0⟩ : Pt ℝ)) ∧ _ then 1 else 0) = 0
    rw [if_neg]
    rintro ⟨hs, _⟩
    unfold eStraddle Straddle at hs; norm_num at hs
  simp only [List.map_cons, List.map_nil, List.sum_cons, List.sum_nil, ha, hc]
  rfl

end example_arch

end C11B
