/-
  C12 / C13 (structural part) — what the reconstruction loop of `clip` guarantees for EVERY answer of
  pyclipper and every reconstruction table.  Theorems about Model/Clip.lean, tied to
  booleanoperationsmixin.py by replaying the recorded clipper polygons and table.
  NOT proved: that pyclipper computes the requested Boolean combination (external C++ library) and the
  flattening deviation — sampled with exact even-odd classification of query points.
-/
import BezierVerif.Model.Clip
import BezierVerif.Model.Polygon
import Mathlib.Tactic.Ring
import Mathlib.Tactic.LinearCombination
import Mathlib.Tactic.FieldSimp
import Mathlib.Algebra.Order.Field.Basic

set_option linter.unusedSectionVars false
set_option linter.unusedVariables false

namespace C12
open Clip
variable {V S : Type}

def Chain : List (V × V) → Prop
  | [] => True
  | [_] => True
  | e :: f :: rest => e.2 = f.1 ∧ Chain (f :: rest)

theorem edges_length : ∀ (a : V) (l : List V), (edges (a :: l)).length = l.length
  | _, [] => rfl
  | a, b :: l => by simp [edges, edges_length b l]

theorem edges_chain : ∀ (l : List V), Chain (edges l)
  | [] => trivial
  | [_] => trivial
  | [_, _] => trivial
  | a :: b :: c :: l => by
    have := edges_chain (b :: c :: l)
    simp only [edges, Chain] at this ⊢
    exact ⟨trivial, this⟩

theorem edges_last : ∀ (a : V) (l : List V) (z : V), ((edges (a :: l ++ [z])).getLast?).map (·.2) = some z
  | a, [], z => rfl
  | a, b :: l, z => by
    have ih := edges_last b l z
    simp only [List.cons_append, edges] at ih ⊢
    cases h : edges (b :: (l ++ [z])) with
    | nil => cases l <;> simp [edges] at h
    | cons e es =>
      rw [h] at ih
      simpa [List.getLast?_cons_cons] using ih

/-- **every contour carries all of its edges including the closing one**: one vertex pair per vertex,
    consecutive pairs connected, first pair starts at the first vertex, last pair returns to it. -/
theorem wrapEdges_closed (a : V) (rest : List V) :
    (wrapEdges (a :: rest)).length = (a :: rest).length ∧ Chain (wrapEdges (a :: rest)) ∧
    ((wrapEdges (a :: rest)).head?).map (·.1) = some a ∧ ((wrapEdges (a :: rest)).getLast?).map (·.2) = some a := by
  refine ⟨?_, edges_chain _, ?_, ?_⟩
  · simp [wrapEdges, edges_length]
  · cases rest with
    | nil => rfl
    | cons b l => rfl
  · exact edges_last a rest a

/-- the pinned walk (no wrap-around) loses the closing edge: a triangle gets two edges (defect F10) -/
theorem pinned_loses_closing_edge :
    (edges [1, 2, 3]).length = 2 ∧ ((edges [1, 2, 3]).getLast?).map (·.2) ≠ some 1 := by decide

/-- in polygon mode the result is exactly one straight edge per vertex pair, in order -/
theorem recon_flat [DecidableEq S] (lut : V × V → Option S) (line : V → V → S) (poly : List V) :
    recon lut line true poly = (wrapEdges poly).map fun p => line p.1 p.2 := by
  unfold recon cyclicTrim
  simp only [Bool.true_eq_false, false_and, if_false]
  have key : ∀ (es : List (V × V)) (acc : List S),
      reconWalk lut line true acc es = acc ++ es.map fun p => line p.1 p.2 := by
    intro es
    induction es with
    | nil => intro acc; simp [reconWalk]
    | cons e es ih =>
      intro acc
      obtain ⟨s, t⟩ := e
      simp only [reconWalk, if_true, ih, List.map_cons, List.append_assoc, List.singleton_append]
  simpa using key (wrapEdges poly) []

/-- **curve-preserving mode invents no geometry**: every segment of the result is a value of the
    reconstruction table or a straight edge between two consecutive clipper vertices. -/
theorem recon_members [DecidableEq S] (lut : V × V → Option S) (line : V → V → S) (flat : Bool) (poly : List V) :
    ∀ x ∈ recon lut line flat poly,
      (∃ k, lut k = some x) ∨ (∃ p ∈ wrapEdges poly, x = line p.1 p.2) := by
  unfold recon
  suffices hs : ∀ x ∈ reconWalk lut line flat [] (wrapEdges poly),
      (∃ k, lut k = some x) ∨ (∃ p ∈ wrapEdges poly, x = line p.1 p.2) by
    intro x hx
    apply hs
    unfold cyclicTrim at hx
    split at hx
    · exact List.dropLast_subset _ hx
    · exact hx
  have key : ∀ (es : List (V × V)) (acc : List S),
      (∀ x ∈ acc, (∃ k, lut k = some x) ∨ (∃ p ∈ wrapEdges poly, x = line p.1 p.2)) →
      (∀ p ∈ es, p ∈ wrapEdges poly) →
      ∀ x ∈ reconWalk lut line flat acc es, (∃ k, lut k = some x) ∨ (∃ p ∈ wrapEdges poly, x = line p.1 p.2) := by
    intro es
    induction es with
    | nil => intro acc hacc _ x hx; simp only [reconWalk] at hx; exact hacc x hx
    | cons e es ih =>
      intro acc hacc hes x hx
      obtain ⟨s, t⟩ := e
      have hes' : ∀ p ∈ es, p ∈ wrapEdges poly := fun p hp => hes p (List.mem_cons_of_mem _ hp)
      simp only [reconWalk] at hx
      cases hl : (if flat then none else lut (s, t)) with
      | none =>
        rw [hl] at hx
        apply ih _ _ hes' x hx
        intro y hy
        rcases List.mem_append.mp hy with h | h
        · exact hacc y h
        · simp at h; subst h; exact Or.inr ⟨(s, t), hes _ (by simp), rfl⟩
      | some orig =>
        rw [hl] at hx
        simp only at hx
        have horig : ∃ k, lut k = some orig := by
          cases flat <;> simp at hl
          exact ⟨(s, t), hl⟩
        split_ifs at hx
        · apply ih _ _ hes' x hx
          intro y hy
          rcases List.mem_append.mp hy with h | h
          · exact hacc y h
          · simp at h; subst h; exact Or.inl horig
        · exact ih _ hacc hes' x hx
  exact key (wrapEdges poly) [] (by simp) (fun p hp => hp)

/-- **no cyclic repeat** (curve-preserving mode): a result contour with more than one segment does not end with the
    segment it starts with -/
theorem recon_no_cyclic_repeat [DecidableEq S] (lut : V × V → Option S) (line : V → V → S) (poly : List V)
    (h : (reconUntrimmed lut line false poly).getLast? = (reconUntrimmed lut line false poly).head?)
    (hl : 1 < (reconUntrimmed lut line false poly).length) :
    recon lut line false poly = (reconUntrimmed lut line false poly).dropLast := by
  unfold recon cyclicTrim reconUntrimmed at *
  rw [if_pos ⟨rfl, hl, h⟩]

/-- the first repair alone repeated the starting segment: a contour whose vertex list starts in the middle of a
    curve's flattening (edges 1→2 and 3→1 on the curve `7`, edge 2→3 on `8`) came back as [7, 8, 7] -/
theorem untrimmed_repeats_first :
    reconUntrimmed (fun k : Nat × Nat => if k = (1, 2) ∨ k = (3, 1) then some 7 else if k = (2, 3) then some 8 else none)
      (fun _ _ => 0) false [1, 2, 3] = [7, 8, 7] ∧
    recon (fun k : Nat × Nat => if k = (1, 2) ∨ k = (3, 1) then some 7 else if k = (2, 3) then some 8 else none)
      (fun _ _ => 0) false [1, 2, 3] = [7, 8] := by decide

/-- an empty clipper answer gives no paths (the outer loop runs over the polygons) -/
theorem no_polygons_no_paths [DecidableEq S] (lut : V × V → Option S) (line : V → V → S) (flat : Bool) :
    ([] : List (List V)).map (recon lut line flat) = [] := rfl

/-! ### area of a polygon-mode result: the clipper polygon's area scaled back by the precision -/

section area
open Polygon
variable {K : Type} [Field K] [LinearOrder K] [IsStrictOrderedRing K]

/-- the straight edges of a polygon-mode contour: vertices divided by the precision -/
def flatEdges (prec : K) (poly : List (K × K)) : List (Edge K) :=
  (wrapEdges poly).map fun p => ⟨p.1.1 / prec, p.1.2 / prec, p.2.1 / prec, p.2.2 / prec⟩

def rawEdges (poly : List (K × K)) : List (Edge K) :=
  (wrapEdges poly).map fun p => ⟨p.1.1, p.1.2, p.2.1, p.2.2⟩

/-- signed area of the result = signed area of the integer polygon / precision² -/
theorem flat_area_scaling (prec : K) (hp : prec ≠ 0) (poly : List (K × K)) :
    signedArea (flatEdges prec poly) = signedArea (rawEdges poly) / (prec * prec) := by
  unfold flatEdges rawEdges signedArea shoelace2
  generalize wrapEdges poly = es
  induction es with
  | nil => simp
  | cons e es ih =>
    simp only [List.map_cons, List.sum_cons] at ih ⊢
    generalize (List.map (fun e : Edge K => e.sx * e.ey - e.sy * e.ex)
      (List.map (fun p : (K × K) × K × K => ({ sx := p.1.1 / prec, sy := p.1.2 / prec, ex := p.2.1 / prec, ey := p.2.2 / prec } : Edge K)) es)).sum = A at ih ⊢
    generalize (List.map (fun e : Edge K => e.sx * e.ey - e.sy * e.ex)
      (List.map (fun p : (K × K) × K × K => ({ sx := p.1.1, sy := p.1.2, ex := p.2.1, ey := p.2.2 } : Edge K)) es)).sum = B at ih ⊢
    have hA : A = B / (prec * prec) := by
      field_simp at ih ⊢; linear_combination ih
    rw [hA]
    field_simp
end area

end C12
