/-
  Shared basics: the `isclose` predicate (Python's documented formula), the table of
  uninterpreted numeric functions used when generated definitions are run at K = ℚ, and
  rational parsing/printing for the line protocol.
-/
import Mathlib.Algebra.Order.Field.Basic
import Mathlib.Algebra.Order.Ring.Rat
import Mathlib.Algebra.Field.Rat
import Mathlib.Algebra.Order.Group.Abs

/-- simp set containing every generated definition: `simp only [gen_def]` unfolds them -/
register_simp_attr gen_def

/-- `math.isclose(a, b, rel_tol, abs_tol)`: `|a-b| ≤ max(rel_tol·max(|a|,|b|), abs_tol)`. -/
def isclose {K : Type} [Field K] [LinearOrder K] (a b rel abs_tol : K) : Prop :=
  |a - b| ≤ max (rel * max |a| |b|) abs_tol

instance {K : Type} [Field K] [LinearOrder K] (a b rel abs_tol : K) :
    Decidable (isclose a b rel abs_tol) := by unfold isclose; infer_instance

/-- Finite tables standing for sqrt/cos/… when a generated definition is evaluated at ℚ.
    A missing entry is recorded in `miss` by the driver (the lookup itself returns 0). -/
structure FnTable where
  pi : ℚ
  sqrt : ℚ → ℚ
  cos : ℚ → ℚ
  sin : ℚ → ℚ
  acos : ℚ → ℚ
  atan2 : ℚ → ℚ → ℚ
  rpow : ℚ → ℚ → ℚ

def parseRat (s : String) : Option ℚ :=
  match s.splitOn "/" with
  | [n] => n.toInt?.map (fun i => (i : ℚ))
  | [n, d] => do
      let n ← n.toInt?
      let d ← d.toNat?
      if d = 0 then none else some ((n : ℚ) / (d : ℚ))
  | _ => none

def showRat (q : ℚ) : String := if q.den = 1 then s!"{q.num}" else s!"{q.num}/{q.den}"

def showRats (l : List ℚ) : String := " ".intercalate (l.map showRat)

/-- Rational square root as used on the Python side of the harness (`tracer._isqrt_frac`):
    exact on perfect squares, otherwise the floor to 40 decimal digits. -/
def ratSqrt (x : ℚ) : ℚ :=
  if x < 0 then 0 else
  let n := x.num.toNat
  let d := x.den
  let rn := Nat.sqrt n
  let rd := Nat.sqrt d
  if rn * rn = n ∧ rd * rd = d then (rn : ℚ) / (rd : ℚ)
  else
    let s : Nat := 10 ^ 40
    ((Nat.sqrt (n * d * s * s) : ℕ) : ℚ) / ((d * s : ℕ) : ℚ)
