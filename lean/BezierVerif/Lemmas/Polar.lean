/-
  Polar-form lemmas used by Point.rotated / Point.fromAngle / Line.tangentAtTime / alignment.
  `math.atan2 y x` is modelled as `Complex.arg ⟨x, y⟩`.
-/
import Mathlib.Analysis.SpecialFunctions.Complex.Arg
import Mathlib.Tactic.Ring
import Mathlib.Tactic.FieldSimp

namespace Polar
open Real

noncomputable def atan2 (y x : ℝ) : ℝ := Complex.arg ⟨x, y⟩

theorem norm_eq (dx dy : ℝ) : ‖(⟨dx, dy⟩ : ℂ)‖ = sqrt (dx * dx + dy * dy) := by
  rw [Complex.norm_def, Complex.normSq_apply]

theorem cos_sin_sq_sqrt (a : ℝ) : sqrt (cos a * cos a + sin a * sin a) = 1 := by
  have : cos a * cos a + sin a * sin a = 1 := by
    have := cos_sq_add_sin_sq a; nlinarith [this]
  rw [this, sqrt_one]

theorem sqrt_ss_ne_zero (a b : ℝ) (h : a ≠ 0 ∨ b ≠ 0) : sqrt (a * a + b * b) ≠ 0 := by
  have hpos : 0 < a * a + b * b := by
    rcases h with h | h
    · have := mul_self_pos.mpr h; nlinarith [mul_self_nonneg b]
    · have := mul_self_pos.mpr h; nlinarith [mul_self_nonneg a]
  exact (sqrt_pos.mpr hpos).ne'

/-- |δ|·(cos, sin)(atan2(δy, δx) + θ) is δ rotated by θ (including δ = 0). -/
theorem polar_rotate (dx dy θ : ℝ) :
    sqrt (dx * dx + dy * dy) * cos (atan2 dy dx + θ) = dx * cos θ - dy * sin θ ∧
    sqrt (dx * dx + dy * dy) * sin (atan2 dy dx + θ) = dx * sin θ + dy * cos θ := by
  unfold atan2
  set m := sqrt (dx * dx + dy * dy) with hm'
  have hm : m = ‖(⟨dx, dy⟩ : ℂ)‖ := by rw [norm_eq]
  by_cases hz : (⟨dx, dy⟩ : ℂ) = 0
  · have hx : dx = 0 := by simpa using congrArg Complex.re hz
    have hy : dy = 0 := by simpa using congrArg Complex.im hz
    have : m = 0 := by rw [hm, hz]; simp
    rw [this, hx, hy]; simp
  · have hpos : ‖(⟨dx, dy⟩ : ℂ)‖ ≠ 0 := by simpa using hz
    have hc : cos (Complex.arg ⟨dx, dy⟩) = dx / m := by rw [hm]; exact Complex.cos_arg hz
    have hs : sin (Complex.arg ⟨dx, dy⟩) = dy / m := by rw [hm]; exact Complex.sin_arg _
    have hm0 : m ≠ 0 := by rw [hm]; exact hpos
    rw [cos_add, sin_add, hc, hs]
    constructor <;> field_simp <;> ring

theorem cos_atan2 (dx dy : ℝ) (h : dx ≠ 0 ∨ dy ≠ 0) : cos (atan2 dy dx) = dx / sqrt (dx * dx + dy * dy) := by
  have := (polar_rotate dx dy 0).1
  simp only [add_zero, cos_zero, sin_zero, mul_one, mul_zero, sub_zero] at this
  have h0 := sqrt_ss_ne_zero dx dy h
  rw [eq_div_iff h0]; linarith

theorem sin_atan2 (dx dy : ℝ) (h : dx ≠ 0 ∨ dy ≠ 0) : sin (atan2 dy dx) = dy / sqrt (dx * dx + dy * dy) := by
  have := (polar_rotate dx dy 0).2
  simp only [add_zero, cos_zero, sin_zero, mul_one, mul_zero, zero_add] at this
  have h0 := sqrt_ss_ne_zero dx dy h
  rw [eq_div_iff h0]; linarith

end Polar
