/-
  Generic lemmas about the heap model (Model/Heap.lean): what `runSlots` / `applySlots` can change.
-/
import BezierVerif.Model.Heap

namespace HeapModel
variable {P : Type}
open Heap

@[simp] theorem setSeg_lists (h : Heap P) (i : Nat) (v : SegVal P) : (h.setSeg i v).lists = h.lists := rfl
@[simp] theorem setSeg_next (h : Heap P) (i : Nat) (v : SegVal P) : (h.setSeg i v).next = h.next := rfl
theorem setSeg_segs (h : Heap P) (i : Nat) (v : SegVal P) (j : Nat) :
    (h.setSeg i v).segs j = if j = i then some v else h.segs j := rfl
@[simp] theorem allocSeg_lists (h : Heap P) (v : SegVal P) : (h.allocSeg v).lists = h.lists := rfl
@[simp] theorem allocSeg_next (h : Heap P) (v : SegVal P) : (h.allocSeg v).next = h.next + 1 := rfl
theorem allocSeg_segs (h : Heap P) (v : SegVal P) (j : Nat) :
    (h.allocSeg v).segs j = if j = h.next then some v else h.segs j := rfl

theorem idAt_mem (ids : List Nat) (k : Nat) (hk : k < ids.length) : idAt ids k ∈ ids := by
  unfold idAt
  rw [List.getD_eq_getElem?_getD, List.getElem?_eq_getElem hk]
  exact List.getElem_mem hk

def countFresh : List (VSlot P) → Nat
  | [] => 0
  | .fresh _ :: r => countFresh r + 1
  | .keep _ :: r => countFresh r
  | .upd _ _ :: r => countFresh r

/-- ids a slot list mutates (given the receiver's id list) -/
def mutIds (ids : List Nat) : List (VSlot P) → List Nat
  | [] => []
  | .upd k _ :: r => idAt ids k :: mutIds ids r
  | .keep _ :: r => mutIds ids r
  | .fresh _ :: r => mutIds ids r

theorem inRange_tail {s : VSlot P} {r : List (VSlot P)} {n : Nat} (h : InRange (s :: r) n) : InRange r n :=
  fun t ht k hk => h t (List.mem_cons_of_mem _ ht) k hk

theorem runSlots_lists (ids : List Nat) : ∀ (slots : List (VSlot P)) (h : Heap P),
    (runSlots ids h slots).1.lists = h.lists := by
  intro slots
  induction slots with
  | nil => intro h; rfl
  | cons s r ih =>
    intro h
    cases s with
    | keep k => simp only [runSlots]; exact ih h
    | upd k v => simp only [runSlots]; rw [ih]; rfl
    | fresh v => simp only [runSlots]; rw [ih]; rfl

theorem runSlots_next (ids : List Nat) : ∀ (slots : List (VSlot P)) (h : Heap P),
    (runSlots ids h slots).1.next = h.next + countFresh slots := by
  intro slots
  induction slots with
  | nil => intro h; rfl
  | cons s r ih =>
    intro h
    cases s with
    | keep k => simp only [runSlots, countFresh]; exact ih h
    | upd k v => simp only [runSlots, countFresh]; rw [ih]; rfl
    | fresh v => simp only [runSlots, countFresh]; rw [ih, allocSeg_next]; omega

theorem runSlots_next_le (ids : List Nat) (slots : List (VSlot P)) (h : Heap P) :
    h.next ≤ (runSlots ids h slots).1.next := by
  rw [runSlots_next]; omega

/-- an old object that is not mutated keeps its value -/
theorem runSlots_segs_frame (ids : List Nat) : ∀ (slots : List (VSlot P)) (h : Heap P) (j : Nat),
    j < h.next → j ∉ mutIds ids slots → (runSlots ids h slots).1.segs j = h.segs j := by
  intro slots
  induction slots with
  | nil => intro h j _ _; rfl
  | cons s r ih =>
    intro h j hj hm
    cases s with
    | keep k => simp only [runSlots]; exact ih h j hj (by simpa only [mutIds] using hm)
    | upd k v =>
      simp only [runSlots]
      simp only [mutIds, List.mem_cons, not_or] at hm
      rw [ih _ j (by simpa using hj) hm.2, setSeg_segs, if_neg hm.1]
    | fresh v =>
      simp only [runSlots]
      have hm' : j ∉ mutIds ids r := by simpa only [mutIds] using hm
      rw [ih _ j (by rw [allocSeg_next]; omega) hm', allocSeg_segs, if_neg (by omega)]

/-- every id of the resulting list is one of the receiver's ids or newly allocated -/
theorem runSlots_ids (ids : List Nat) : ∀ (slots : List (VSlot P)) (h : Heap P),
    InRange slots ids.length → ∀ i ∈ (runSlots ids h slots).2, i ∈ ids ∨ h.next ≤ i := by
  intro slots
  induction slots with
  | nil => intro h _ i hi; simp [runSlots] at hi
  | cons s r ih =>
    intro h hr i hi
    have hr' := inRange_tail hr
    cases s with
    | keep k =>
      simp only [runSlots, List.mem_cons] at hi
      rcases hi with rfl | hi
      · exact Or.inl (idAt_mem ids k (hr (.keep k) (by simp) k rfl))
      · exact ih h hr' i hi
    | upd k v =>
      simp only [runSlots, List.mem_cons] at hi
      rcases hi with rfl | hi
      · exact Or.inl (idAt_mem ids k (hr (.upd k v) (by simp) k rfl))
      · rcases ih _ hr' i hi with h1 | h1
        · exact Or.inl h1
        · exact Or.inr (by simpa using h1)
    | fresh v =>
      simp only [runSlots, List.mem_cons] at hi
      rcases hi with rfl | hi
      · exact Or.inr (Nat.le_refl _)
      · rcases ih _ hr' i hi with h1 | h1
        · exact Or.inl h1
        · exact Or.inr (by rw [allocSeg_next] at h1; omega)

theorem mutIds_subset (ids : List Nat) : ∀ (slots : List (VSlot P)), InRange slots ids.length →
    ∀ i ∈ mutIds ids slots, i ∈ ids := by
  intro slots
  induction slots with
  | nil => intro _ i hi; simp [mutIds] at hi
  | cons s r ih =>
    intro hr i hi
    have hr' := inRange_tail hr
    cases s with
    | keep k => exact ih hr' i (by simpa only [mutIds] using hi)
    | fresh v => exact ih hr' i (by simpa only [mutIds] using hi)
    | upd k v =>
      simp only [mutIds, List.mem_cons] at hi
      rcases hi with rfl | hi
      · exact idAt_mem ids k (hr (.upd k v) (by simp) k rfl)
      · exact ih hr' i hi

/-- all segment objects that exist before still exist after -/
theorem runSlots_isSome (ids : List Nat) : ∀ (slots : List (VSlot P)) (h : Heap P) (j : Nat),
    (h.segs j).isSome → ((runSlots ids h slots).1.segs j).isSome := by
  intro slots
  induction slots with
  | nil => intro h j hj; exact hj
  | cons s r ih =>
    intro h j hj
    cases s with
    | keep k => simp only [runSlots]; exact ih h j hj
    | upd k v =>
      simp only [runSlots]; apply ih
      rw [setSeg_segs]; split <;> simp [hj]
    | fresh v =>
      simp only [runSlots]; apply ih
      rw [allocSeg_segs]; split <;> simp [hj]

/-- nothing is allocated at or above the new `next` -/
theorem runSlots_segs_lt (ids : List Nat) : ∀ (slots : List (VSlot P)) (h : Heap P),
    (∀ i, h.next ≤ i → h.segs i = none) → (∀ i ∈ ids, i < h.next) → InRange slots ids.length →
    ∀ i, (runSlots ids h slots).1.next ≤ i → (runSlots ids h slots).1.segs i = none := by
  intro slots
  induction slots with
  | nil => intro h hs _ _ i hi; exact hs i hi
  | cons s r ih =>
    intro h hs hids hr i hi
    have hr' := inRange_tail hr
    cases s with
    | keep k => simp only [runSlots] at hi ⊢; exact ih h hs hids hr' i hi
    | upd k v =>
      simp only [runSlots] at hi ⊢
      have hidk : idAt ids k < h.next := hids _ (idAt_mem ids k (hr (.upd k v) (by simp) k rfl))
      apply ih _ _ (by simpa using hids) hr' i hi
      intro j hj
      rw [setSeg_segs, if_neg (by simp at hj; omega)]
      exact hs j (by simpa using hj)
    | fresh v =>
      simp only [runSlots] at hi ⊢
      apply ih _ _ (fun j hj => by have := hids j hj; rw [allocSeg_next]; omega) hr' i hi
      intro j hj
      rw [allocSeg_next] at hj
      rw [allocSeg_segs, if_neg (by omega)]
      exact hs j (by omega)

/-- every id of the resulting list is allocated in the resulting heap -/
theorem runSlots_members (ids : List Nat) : ∀ (slots : List (VSlot P)) (h : Heap P),
    (∀ i ∈ ids, (h.segs i).isSome) → InRange slots ids.length →
    ∀ i ∈ (runSlots ids h slots).2, ((runSlots ids h slots).1.segs i).isSome := by
  intro slots
  induction slots with
  | nil => intro h _ _ i hi; simp [runSlots] at hi
  | cons s r ih =>
    intro h hids hr i hi
    have hr' := inRange_tail hr
    cases s with
    | keep k =>
      simp only [runSlots, List.mem_cons] at hi ⊢
      rcases hi with rfl | hi
      · exact runSlots_isSome ids r h _ (hids _ (idAt_mem ids k (hr (.keep k) (by simp) k rfl)))
      · exact ih h hids hr' i hi
    | upd k v =>
      simp only [runSlots, List.mem_cons] at hi ⊢
      have hids' : ∀ i ∈ ids, ((h.setSeg (idAt ids k) v).segs i).isSome := by
        intro j hj; rw [setSeg_segs]; split <;> simp [hids j hj]
      rcases hi with rfl | hi
      · apply runSlots_isSome; rw [setSeg_segs]; simp
      · exact ih _ hids' hr' i hi
    | fresh v =>
      simp only [runSlots, List.mem_cons] at hi ⊢
      have hids' : ∀ i ∈ ids, ((h.allocSeg v).segs i).isSome := by
        intro j hj; rw [allocSeg_segs]; split <;> simp [hids j hj]
      rcases hi with rfl | hi
      · apply runSlots_isSome; rw [allocSeg_segs]; simp
      · exact ih _ hids' hr' i hi

end HeapModel

namespace HeapModel
variable {P : Type}
open Heap

/-- each position of the receiver's old list is used at most once -/
def Linear (slots : List (VSlot P)) : Prop := (slots.filterMap VSlot.old).Nodup

theorem linear_tail {s : VSlot P} {r : List (VSlot P)} (h : Linear (s :: r)) : Linear r := by
  unfold Linear at *
  cases s <;> simp [List.filterMap_cons, VSlot.old] at h ⊢ <;> first | exact h | exact h.2

theorem linear_head_notin {s : VSlot P} {r : List (VSlot P)} (h : Linear (s :: r)) (k : Nat)
    (hk : VSlot.old s = some k) : ∀ t ∈ r, VSlot.old t ≠ some k := by
  unfold Linear at h
  rw [List.filterMap_cons, hk] at h
  have := (List.nodup_cons.mp h).1
  intro t ht hto
  exact this (List.mem_filterMap.mpr ⟨t, ht, hto⟩)

theorem idAt_inj (ids : List Nat) (hnd : ids.Nodup) (k k' : Nat) (hk : k < ids.length) (hk' : k' < ids.length)
    (h : idAt ids k = idAt ids k') : k = k' := by
  unfold idAt at h
  exact (List.getD_inj hk hk' hnd).mp h

theorem mem_mutIds (ids : List Nat) : ∀ (slots : List (VSlot P)) (i : Nat), i ∈ mutIds ids slots →
    ∃ k v, VSlot.upd k v ∈ slots ∧ idAt ids k = i := by
  intro slots
  induction slots with
  | nil => intro i hi; simp [mutIds] at hi
  | cons s r ih =>
    intro i hi
    cases s with
    | keep k =>
      obtain ⟨k', v, h1, h2⟩ := ih i (by simpa only [mutIds] using hi)
      exact ⟨k', v, List.mem_cons_of_mem _ h1, h2⟩
    | fresh w =>
      obtain ⟨k', v, h1, h2⟩ := ih i (by simpa only [mutIds] using hi)
      exact ⟨k', v, List.mem_cons_of_mem _ h1, h2⟩
    | upd k w =>
      simp only [mutIds, List.mem_cons] at hi
      rcases hi with rfl | hi
      · exact ⟨k, w, by simp, rfl⟩
      · obtain ⟨k', v, h1, h2⟩ := ih i hi
        exact ⟨k', v, List.mem_cons_of_mem _ h1, h2⟩

/-- value a slot ends up with, read against heap `h` -/
def slotVal (h : Heap P) (ids : List Nat) : VSlot P → Option (SegVal P)
  | .keep k => h.segs (idAt ids k)
  | .upd _ v => some v
  | .fresh v => some v

/-- position `k` is not mutated by `rest` when the slot list is linear -/
theorem not_mut_of_linear (ids : List Nat) (hnd : ids.Nodup) (rest : List (VSlot P)) (k : Nat)
    (hk : k < ids.length) (hr : InRange rest ids.length) (hlin : ∀ t ∈ rest, VSlot.old t ≠ some k) :
    idAt ids k ∉ mutIds ids rest := by
  intro hm
  obtain ⟨k', v, h1, h2⟩ := mem_mutIds ids rest _ hm
  have hk' : k' < ids.length := hr _ h1 k' rfl
  have := idAt_inj ids hnd k' k hk' hk h2
  subst this
  exact hlin _ h1 rfl

/-- **what the resulting objects hold**: position by position, the final heap holds the slot's value -/
theorem runSlots_vals (ids : List Nat) (hnd : ids.Nodup) : ∀ (slots : List (VSlot P)) (h : Heap P),
    (∀ i ∈ ids, i < h.next) → InRange slots ids.length → Linear slots →
    (runSlots ids h slots).2.map (runSlots ids h slots).1.segs = slots.map (slotVal h ids) := by
  intro slots
  induction slots with
  | nil => intro h _ _ _; rfl
  | cons s r ih =>
    intro h hids hr hlin
    have hr' := inRange_tail hr
    have hlin' := linear_tail hlin
    cases s with
    | keep k =>
      have hk : k < ids.length := hr (.keep k) (by simp) k rfl
      simp only [runSlots, List.map_cons, slotVal]
      rw [ih h hids hr' hlin']
      congr 1
      exact runSlots_segs_frame ids r h _ (hids _ (idAt_mem ids k hk))
        (not_mut_of_linear ids hnd r k hk hr' (linear_head_notin hlin k rfl))
    | upd k v =>
      have hk : k < ids.length := hr (.upd k v) (by simp) k rfl
      simp only [runSlots, List.map_cons, slotVal]
      rw [ih (h.setSeg (idAt ids k) v) (by simpa using hids) hr' hlin']
      congr 1
      · rw [runSlots_segs_frame ids r _ _ (by simpa using hids _ (idAt_mem ids k hk))
          (not_mut_of_linear ids hnd r k hk hr' (linear_head_notin hlin k rfl)), setSeg_segs, if_pos rfl]
      · apply List.map_congr_left
        intro t ht
        cases t with
        | keep k' =>
          simp only [slotVal]
          have hk' : k' < ids.length := hr' _ ht k' rfl
          have hne : idAt ids k' ≠ idAt ids k := by
            intro he
            have := idAt_inj ids hnd k' k hk' hk he
            subst this
            exact linear_head_notin hlin k' rfl _ ht rfl
          rw [setSeg_segs, if_neg hne]
        | upd _ _ => rfl
        | fresh _ => rfl
    | fresh v =>
      simp only [runSlots, List.map_cons, slotVal]
      have hids' : ∀ i ∈ ids, i < (h.allocSeg v).next := fun i hi => by rw [allocSeg_next]; have := hids i hi; omega
      rw [ih (h.allocSeg v) hids' hr' hlin']
      congr 1
      · have hnm : h.next ∉ mutIds ids r := by
          intro hm
          have := hids _ (mutIds_subset ids r hr' _ hm)
          omega
        rw [runSlots_segs_frame ids r _ _ (by rw [allocSeg_next]; omega) hnm, allocSeg_segs, if_pos rfl]
      · apply List.map_congr_left
        intro t ht
        cases t with
        | keep k' =>
          simp only [slotVal]
          have hk' : k' < ids.length := hr' _ ht k' rfl
          have := hids _ (idAt_mem ids k' hk')
          rw [allocSeg_segs, if_neg (by omega)]
        | upd _ _ => rfl
        | fresh _ => rfl

/-- the resulting id list has no repetition -/
theorem runSlots_nodup (ids : List Nat) (hnd : ids.Nodup) : ∀ (slots : List (VSlot P)) (h : Heap P),
    (∀ i ∈ ids, i < h.next) → InRange slots ids.length → Linear slots → (runSlots ids h slots).2.Nodup := by
  intro slots
  induction slots with
  | nil => intro h _ _ _; simp [runSlots]
  | cons s r ih =>
    intro h hids hr hlin
    have hr' := inRange_tail hr
    have hlin' := linear_tail hlin
    -- a kept/updated position k does not reappear in the rest
    have hold : ∀ (k : Nat) (h' : Heap P), k < ids.length → h.next ≤ h'.next → (∀ t ∈ r, VSlot.old t ≠ some k) →
        idAt ids k ∉ (runSlots ids h' r).2 := by
      intro k h' hk hle hno hmem
      -- every id in the result is either idAt of an old position used in r, or ≥ h'.next
      have key : ∀ (r : List (VSlot P)) (h' : Heap P), InRange r ids.length → ∀ i ∈ (runSlots ids h' r).2,
          (∃ t ∈ r, ∃ k', VSlot.old t = some k' ∧ idAt ids k' = i) ∨ h'.next ≤ i := by
        intro r
        induction r with
        | nil => intro h' _ i hi; simp [runSlots] at hi
        | cons t r ih2 =>
          intro h' hr2 i hi
          have hr2' := inRange_tail hr2
          cases t with
          | keep k' =>
            simp only [runSlots, List.mem_cons] at hi
            rcases hi with rfl | hi
            · exact Or.inl ⟨VSlot.keep k', by simp, k', rfl, rfl⟩
            · rcases ih2 h' hr2' i hi with ⟨t, ht, k'', h1, h2⟩ | h1
              · exact Or.inl ⟨t, List.mem_cons_of_mem _ ht, k'', h1, h2⟩
              · exact Or.inr h1
          | upd k' v =>
            simp only [runSlots, List.mem_cons] at hi
            rcases hi with rfl | hi
            · exact Or.inl ⟨VSlot.upd k' v, by simp, k', rfl, rfl⟩
            · rcases ih2 _ hr2' i hi with ⟨t, ht, k'', h1, h2⟩ | h1
              · exact Or.inl ⟨t, List.mem_cons_of_mem _ ht, k'', h1, h2⟩
              · exact Or.inr (by simpa using h1)
          | fresh v =>
            simp only [runSlots, List.mem_cons] at hi
            rcases hi with rfl | hi
            · exact Or.inr (Nat.le_refl _)
            · rcases ih2 _ hr2' i hi with ⟨t, ht, k'', h1, h2⟩ | h1
              · exact Or.inl ⟨t, List.mem_cons_of_mem _ ht, k'', h1, h2⟩
              · exact Or.inr (by rw [allocSeg_next] at h1; omega)
      rcases key r h' hr' _ hmem with ⟨t, ht, k', h1, h2⟩ | h1
      · have hk' : k' < ids.length := hr' t ht k' h1
        have := idAt_inj ids hnd k' k hk' hk h2
        subst this
        exact hno t ht h1
      · have := hids _ (idAt_mem ids k hk); omega
    cases s with
    | keep k =>
      have hk : k < ids.length := hr (.keep k) (by simp) k rfl
      simp only [runSlots]
      exact List.nodup_cons.mpr ⟨hold k h hk (Nat.le_refl _) (linear_head_notin hlin k rfl), ih h hids hr' hlin'⟩
    | upd k v =>
      have hk : k < ids.length := hr (.upd k v) (by simp) k rfl
      simp only [runSlots]
      exact List.nodup_cons.mpr ⟨hold k _ hk (by simp) (linear_head_notin hlin k rfl),
        ih _ (by simpa using hids) hr' hlin'⟩
    | fresh v =>
      simp only [runSlots]
      have hids' : ∀ i ∈ ids, i < (h.allocSeg v).next := fun i hi => by rw [allocSeg_next]; have := hids i hi; omega
      refine List.nodup_cons.mpr ⟨?_, ih _ hids' hr' hlin'⟩
      intro hmem
      rcases runSlots_ids ids r (h.allocSeg v) hr' _ hmem with h1 | h1
      · have := hids _ h1; omega
      · rw [allocSeg_next] at h1; omega

end HeapModel
