/-
  C01's theorems lifted to the `Seg` datatype used by the path-level hand models.
-/
import BezierVerif.Model.Seg
import BezierVerif.Tactics

set_option linter.unusedSectionVars false
set_option linter.unusedVariables false
set_option linter.unusedTactic false
set_option linter.unnecessarySeqFocus false

namespace Seg
variable {K : Type} [Field K] [LinearOrder K] [IsStrictOrderedRing K]
open Gen

macro "seg_ring" : tactic =>
  `(tactic| (apply Seg.ext_pt <;> ((try simp only [gen_def]) <;> (try ring))))

theorem eval_zero (s : Seg K) : s.eval 0 = s.start := by
  cases s <;> (simp only [eval, start]; seg_ring)
theorem eval_one (s : Seg K) : s.eval 1 = s.end := by
  cases s <;> (simp only [eval, «end»]; seg_ring)

theorem eval_split_left (s : Seg K) (t u : K) : (s.split t).1.eval u = s.eval (u * t) := by
  cases s <;> (simp only [eval, split]; seg_ring)
theorem eval_split_right (s : Seg K) (t u : K) : (s.split t).2.eval u = s.eval (t + u * (1 - t)) := by
  cases s <;> (simp only [eval, split]; seg_ring)

theorem split_left_start (s : Seg K) (t : K) : (s.split t).1.start = s.start := by
  cases s <;> (simp only [split, start]; seg_ring)
theorem split_right_end (s : Seg K) (t : K) : (s.split t).2.end = s.end := by
  cases s <;> (simp only [split, «end»]; seg_ring)
theorem split_left_end (s : Seg K) (t : K) : (s.split t).1.end = s.eval t := by
  cases s <;> (simp only [split, «end», eval]; seg_ring)
theorem split_right_start (s : Seg K) (t : K) : (s.split t).2.start = s.eval t := by
  cases s <;> (simp only [split, start, eval]; seg_ring)

theorem split_order (s : Seg K) (t : K) : (s.split t).1.order = s.order ∧ (s.split t).2.order = s.order := by
  cases s <;> simp [split, order, points]

theorem eval_reversed (s : Seg K) (t : K) : s.reversed.eval t = s.eval (1 - t) := by
  cases s <;> (simp only [eval, reversed]; seg_ring)
theorem reversed_start (s : Seg K) : s.reversed.start = s.end := by cases s <;> rfl
theorem reversed_end (s : Seg K) : s.reversed.end = s.start := by cases s <;> rfl
theorem reversed_reversed (s : Seg K) : s.reversed.reversed = s := by cases s <;> rfl

theorem eval_translated (s : Seg K) (v : Pt K) (t : K) :
    (s.translated v).eval t = ⟨(s.eval t).x + v.x, (s.eval t).y + v.y⟩ := by
  cases s <;> (simp only [eval, translated, mapPts]; seg_ring)
theorem eval_scaled (s : Seg K) (k t : K) :
    (s.scaled k).eval t = ⟨(s.eval t).x * k, (s.eval t).y * k⟩ := by
  cases s <;> (simp only [eval, scaled, mapPts]; seg_ring)

theorem translated_start (s : Seg K) (v : Pt K) : (s.translated v).start = ⟨s.start.x + v.x, s.start.y + v.y⟩ := by
  cases s <;> rfl
theorem translated_end (s : Seg K) (v : Pt K) : (s.translated v).end = ⟨s.end.x + v.x, s.end.y + v.y⟩ := by
  cases s <;> rfl
theorem scaled_start (s : Seg K) (k : K) : (s.scaled k).start = ⟨s.start.x * k, s.start.y * k⟩ := by cases s <;> rfl
theorem scaled_end (s : Seg K) (k : K) : (s.scaled k).end = ⟨s.end.x * k, s.end.y * k⟩ := by cases s <;> rfl

/-- the generated `translated` / `scaled` / `reversed` agree with the data-level ones -/
theorem translated_matches_gen (a b c d v : Pt K) :
    cubic_translated a.x a.y b.x b.y c.x c.y d.x d.y v.x v.y
      = [a.x + v.x, a.y + v.y, b.x + v.x, b.y + v.y, c.x + v.x, c.y + v.y, d.x + v.x, d.y + v.y] := by
  simp [gen_def]
theorem scaled_matches_gen (a b c d : Pt K) (k : K) :
    cubic_scaled a.x a.y b.x b.y c.x c.y d.x d.y k
      = [a.x * k, a.y * k, b.x * k, b.y * k, c.x * k, c.y * k, d.x * k, d.y * k] := by
  simp [gen_def]

end Seg
