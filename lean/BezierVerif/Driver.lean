/-
  Line-protocol driver: runs generated definitions (at K = ℚ) and the hand models on the
  operations sent by the Python harness.  One request per line, one reply per line.
-/
import BezierVerif.Basic
import BezierVerif.Gen.Eval
import BezierVerif.Gen.Affine
import BezierVerif.Gen.Area
import BezierVerif.Gen.Box
import BezierVerif.Gen.Roots
import BezierVerif.Gen.Curv
import BezierVerif.Gen.Dist
import BezierVerif.Gen.Length
import BezierVerif.Gen.Lookup
import BezierVerif.Gen.Inter

namespace Driver

def sentinel : ℚ := 123456789 / 1000000007

/-- `cos:1/2=3/5` or `atan2:1,2=7/8` -/
def parseEntry (s : String) : Option (String × List ℚ × ℚ) :=
  match s.splitOn ":" with
  | [f, rest] =>
    match rest.splitOn "=" with
    | [as, v] => do
        let args ← (as.splitOn ",").mapM parseRat
        let v ← parseRat v
        some (f, args, v)
    | _ => none
  | _ => none

def lookup1 (tb : List (String × List ℚ × ℚ)) (f : String) (x : ℚ) : ℚ :=
  match tb.find? (fun e => e.1 == f && e.2.1 == [x]) with
  | some e => e.2.2
  | none => sentinel

def lookup2 (tb : List (String × List ℚ × ℚ)) (f : String) (x y : ℚ) : ℚ :=
  match tb.find? (fun e => e.1 == f && e.2.1 == [x, y]) with
  | some e => e.2.2
  | none => sentinel

def mkTable (tb : List (String × List ℚ × ℚ)) : FnTable :=
  { pi := (884279719003555 : ℚ) / 281474976710656, sqrt := ratSqrt, cos := lookup1 tb "cos", sin := lookup1 tb "sin", acos := lookup1 tb "acos",
    atan2 := lookup2 tb "atan2", rpow := lookup2 tb "rpow" }

def genDispatch (tbl : FnTable) (name : String) (args : List ℚ) : Option (List ℚ) :=
  (Gen.dispatchEval tbl name args)
  <|> (Gen.dispatchAffine tbl name args)
  <|> (Gen.dispatchArea tbl name args)
  <|> (Gen.dispatchBox tbl name args)
  <|> (Gen.dispatchRoots tbl name args)
  <|> (Gen.dispatchCurv tbl name args)
  <|> (Gen.dispatchDist tbl name args)
  <|> (Gen.dispatchLength tbl name args)
  <|> (Gen.dispatchLookup tbl name args)
  <|> (Gen.dispatchInter tbl name args)

def words (s : String) : List String := (s.splitOn " ").filter (· ≠ "")

def handleGen (rest : List String) : String :=
  match rest with
  | name :: more =>
    let (as, tbs) := more.span (· ≠ "|")
    match as.mapM parseRat, (tbs.drop 1).mapM parseEntry with
    | some args, some tb =>
      match genDispatch (mkTable tb) name args with
      | some r => "ok " ++ showRats r
      | none => "nodef"
    | _, _ => "bad-args"
  | _ => "bad-op"

end Driver
