/-
  Line-protocol interpreter for histories over the heap model (C07).  One request line carries a whole
  history `op ; op ; …`; the reply lists, after every operation, each live path's list-object id and its
  (segment-object id = value) pairs, so that the harness can compare values *and* the alias partition.
-/
import BezierVerif.Basic
import BezierVerif.Model.Heap
import BezierVerif.Model.Seg

namespace HeapDriver
open HeapModel

abbrev QP := ℚ × ℚ

structure HState where
  heap : Heap QP
  paths : Array Path

def valOf : Seg ℚ → SegVal QP
  | .line a b => [(a.x, a.y), (b.x, b.y)]
  | .quad a b c => [(a.x, a.y), (b.x, b.y), (c.x, c.y)]
  | .cubic a b c d => [(a.x, a.y), (b.x, b.y), (c.x, c.y), (d.x, d.y)]

def showVal (v : SegVal QP) : String :=
  (match v.length with | 2 => "L" | 3 => "Q" | 4 => "C" | _ => "?") ++ " " ++
    showRats (v.flatMap fun p => [p.1, p.2])

def dumpPath (h : Heap QP) (i : Nat) (p : Path) : String :=
  s!"P{i} list={p.rep} closed={if p.closed then 1 else 0} : " ++
    " , ".intercalate ((h.segIds p).map fun s => s!"{s}=" ++ (match h.segs s with | some v => showVal v | none => "dangling"))

def dump (st : HState) : String :=
  " | ".intercalate ((st.paths.toList.zipIdx).map fun (p, i) => dumpPath st.heap i p)

/-- parse `L ..`, `Q ..`, `C ..` tokens into values; stops at the first token that is not a segment -/
partial def parseVals : List String → Option (List (SegVal QP) × List String)
  | "L" :: a :: b :: c :: d :: rest => do
      let xs ← [a, b, c, d].mapM parseRat
      let (l, r) ← parseVals rest
      some ([(xs[0]!, xs[1]!), (xs[2]!, xs[3]!)] :: l, r)
  | "Q" :: a :: b :: c :: d :: e :: f :: rest => do
      let xs ← [a, b, c, d, e, f].mapM parseRat
      let (l, r) ← parseVals rest
      some ([(xs[0]!, xs[1]!), (xs[2]!, xs[3]!), (xs[4]!, xs[5]!)] :: l, r)
  | "C" :: a :: b :: c :: d :: e :: f :: g :: h :: rest => do
      let xs ← [a, b, c, d, e, f, g, h].mapM parseRat
      let (l, r) ← parseVals rest
      some ([(xs[0]!, xs[1]!), (xs[2]!, xs[3]!), (xs[4]!, xs[5]!), (xs[6]!, xs[7]!)] :: l, r)
  | rest => some ([], rest)

/-- groups: `n v1 .. vn` repeated; n = 0 gives [] -/
partial def parseGroups : List String → Option (List (List (SegVal QP)))
  | [] => some []
  | n :: rest => do
      let n ← n.toNat?
      let (vs, r) ← parseVals rest
      if vs.length < n then none else
      -- parseVals is greedy: it may have swallowed following groups' segments only if they directly follow;
      -- groups are therefore separated by their counts, so re-split
      let mine := vs.take n
      let extra := vs.drop n
      if extra ≠ [] then none else
      let more ← parseGroups r
      some (mine :: more)

def truncQ (q : ℚ) : ℚ := ((q.num.tdiv (q.den : Int) : Int) : ℚ)

def lookupPt (tb : List (QP × QP)) (p : QP) : QP :=
  match tb.find? (fun e => e.1 == p) with
  | some e => e.2
  | none => p

partial def parsePairs : List String → Option (List (QP × QP))
  | [] => some []
  | a :: b :: c :: d :: rest => do
      let a ← parseRat a; let b ← parseRat b; let c ← parseRat c; let d ← parseRat d
      let more ← parsePairs rest
      some (((a, b), (c, d)) :: more)
  | _ => none

def getPath (st : HState) (s : String) : Option (Nat × Path) := do
  let i ← s.toNat?
  let p ← st.paths[i]?
  some (i, p)

def doStep (st : HState) (i : Nat) (p : Path) (op : Op QP) : HState :=
  let r := step st.heap p op
  { heap := r.1, paths := st.paths.set! i r.2 }

def optGroups (g : List (List (SegVal QP))) : List (Option (SegVal QP)) := g.map fun l => l.head?

def sOfV (v : SegVal QP) : QP := v.headD (0, 0)
def eOfV (v : SegVal QP) : QP := v.getLastD (0, 0)

def exec (st : HState) (toks : List String) : Option HState :=
  match toks with
  | "new" :: c :: rest => do
      let (vals, r) ← parseVals rest
      if r ≠ [] then none else
      let res := st.heap.applySlots ⟨0, c == "1"⟩ (vals.map VSlot.fresh) true
      some { heap := res.1, paths := st.paths.push res.2 }
  | "map" :: h :: rest => do
      let (i, p) ← getPath st h
      let tb ← parsePairs rest
      some (doStep st i p (Op.mapPts (lookupPt tb)))
  | ["reverse", h] => do
      let (i, p) ← getPath st h
      some (doStep st i p Op.reverse)
  | "split" :: h :: rest => do
      let (i, p) ← getPath st h
      let g ← parseGroups rest
      some (doStep st i p (Op.split g))
  | "mutate" :: h :: rest => do
      let (i, p) ← getPath st h
      let g ← parseGroups rest
      some (doStep st i p (Op.mutateAll (optGroups g)))
  | ["round", h] => do
      let (i, p) ← getPath st h
      let vals := st.heap.obs p
      some (doStep st i p (Op.mutateAll (vals.map fun v => some (v.map fun q => (truncQ q.1, truncQ q.2)))))
  | "q2c" :: h :: rest => do
      let (i, p) ← getPath st h
      let g ← parseGroups rest
      some (doStep st i p (Op.quadsToCubics (optGroups g)))
  | "remove" :: h :: rest => do
      let (i, p) ← getPath st h
      some (doStep st i p (Op.removeIrrelevant (rest.map (· == "1"))))
  | ["reconvert", h] => do
      let (i, p) ← getPath st h
      some (doStep st i p Op.reconvert)
  | ["append", h, o, flip] => do
      let (i, p) ← getPath st h
      let (_, q) ← getPath st o
      let v1 := st.heap.obs p
      let v2 := st.heap.obs q
      let v2' := if flip == "1" then (v2.map List.reverse).reverse else v2
      match v1.getLast?, v2'.head? with
      | none, _ => none            -- empty receiver: outside the modelled domain
      | _, none => some st
      | some l, some f =>
        -- `Point.__eq__`: both coordinates within 1e-9 relative; equal-within-tolerance starts are moved onto the receiver's end (F24)
        let close (a b : ℚ) : Bool := decide (|a - b| ≤ (1 : ℚ) / 1000000000 * max |a| |b|)
        let same : Bool := close (eOfV l).1 (sOfV f).1 && close (eOfV l).2 (sOfV f).2
        let snapped := match v2' with
          | (_ :: restPts) :: more => (eOfV l :: restPts) :: more
          | other => other
        let ext := if same then snapped else [eOfV l, sOfV f] :: v2'
        some (doStep st i p (Op.appendVals ext))
  | ["clone", h] => do
      let (_, p) ← getPath st h
      let r := clone st.heap p
      some { heap := r.1, paths := st.paths.push r.2 }
  | "flatten" :: h :: rest => do
      let (_, p) ← getPath st h
      let g ← parseGroups rest
      let r := flatten st.heap p g
      some { heap := r.1, paths := st.paths.push r.2 }
  | _ => none

def splitOn (sep : String) : List String → List (List String)
  | [] => [[]]
  | t :: ts =>
    let r := splitOn sep ts
    if t == sep then [] :: r
    else match r with
      | [] => [[t]]
      | g :: gs => (t :: g) :: gs

def runHistory (toks : List String) : String :=
  let cmds := (splitOn ";" toks).filter (· ≠ [])
  let init : HState := { heap := { lists := fun _ => none, segs := fun _ => none, next := 1 }, paths := #[] }
  let (_, out, err) := cmds.foldl (fun (acc : HState × List String × Option String) c =>
      match acc.2.2 with
      | some _ => acc
      | none =>
        match exec acc.1 c with
        | some st' => (st', acc.2.1 ++ [dump st'], none)
        | none => (acc.1, acc.2.1, some (" ".intercalate c))) (init, [], none)
  match err with
  | some e => "bad-op " ++ e
  | none => "ok " ++ " ## ".intercalate out

end HeapDriver
