/-
  GENERATED FILE -- do not edit.  Regenerated on every check run by /verif/harness from the
  Python source under /repo/src/beziers (symbolic tracing of the real code); see DESIGN.md 2.2.
-/
import BezierVerif.Basic

set_option maxRecDepth 100000
set_option linter.unusedVariables false

namespace Gen
variable {K : Type} [Field K] [LinearOrder K] [IsStrictOrderedRing K]


/-- utils.quadraticRoots -/

@[gen_def] def quadraticRoots (sqrt : K → K) (a b c : K) : List K :=
  if a = (0 : K) then
    if b ≠ (0 : K) then
      if ((-c) / b) ≥ (0 : K) then
        if ((-c) / b) ≤ (1 : K) then
          [((-c) / b)]
        else
          []
      else
        []
    else
      []
  else
    if ((b * b) - (((4 : K) * a) * c)) > (0 : K) then
      if b ≥ (0 : K) then
        if ((-(b + (sqrt ((b * b) - (((4 : K) * a) * c))))) / (2 : K)) ≠ (0 : K) then
          if (c / ((-(b + (sqrt ((b * b) - (((4 : K) * a) * c))))) / (2 : K))) < (((-(b + (sqrt ((b * b) - (((4 : K) * a) * c))))) / (2 : K)) / a) then
            if (c / ((-(b + (sqrt ((b * b) - (((4 : K) * a) * c))))) / (2 : K))) ≥ (0 : K) then
              if (c / ((-(b + (sqrt ((b * b) - (((4 : K) * a) * c))))) / (2 : K))) ≤ (1 : K) then
                if (((-(b + (sqrt ((b * b) - (((4 : K) * a) * c))))) / (2 : K)) / a) ≥ (0 : K) then
                  if (((-(b + (sqrt ((b * b) - (((4 : K) * a) * c))))) / (2 : K)) / a) ≤ (1 : K) then
                    let v0 := ((-(b + (sqrt ((b * b) - (((4 : K) * a) * c))))) / (2 : K))
                    [(c / v0), (v0 / a)]
                  else
                    [(c / ((-(b + (sqrt ((b * b) - (((4 : K) * a) * c))))) / (2 : K)))]
                else
                  [(c / ((-(b + (sqrt ((b * b) - (((4 : K) * a) * c))))) / (2 : K)))]
              else
                if (((-(b + (sqrt ((b * b) - (((4 : K) * a) * c))))) / (2 : K)) / a) ≥ (0 : K) then
                  if (((-(b + (sqrt ((b * b) - (((4 : K) * a) * c))))) / (2 : K)) / a) ≤ (1 : K) then
                    [(((-(b + (sqrt ((b * b) - (((4 : K) * a) * c))))) / (2 : K)) / a)]
                  else
                    []
                else
                  []
            else
              if (((-(b + (sqrt ((b * b) - (((4 : K) * a) * c))))) / (2 : K)) / a) ≥ (0 : K) then
                if (((-(b + (sqrt ((b * b) - (((4 : K) * a) * c))))) / (2 : K)) / a) ≤ (1 : K) then
                  [(((-(b + (sqrt ((b * b) - (((4 : K) * a) * c))))) / (2 : K)) / a)]
                else
                  []
              else
                []
          else
            if (((-(b + (sqrt ((b * b) - (((4 : K) * a) * c))))) / (2 : K)) / a) ≥ (0 : K) then
              if (((-(b + (sqrt ((b * b) - (((4 : K) * a) * c))))) / (2 : K)) / a) ≤ (1 : K) then
                if (c / ((-(b + (sqrt ((b * b) - (((4 : K) * a) * c))))) / (2 : K))) ≥ (0 : K) then
                  if (c / ((-(b + (sqrt ((b * b) - (((4 : K) * a) * c))))) / (2 : K))) ≤ (1 : K) then
                    let v0 := ((-(b + (sqrt ((b * b) - (((4 : K) * a) * c))))) / (2 : K))
                    [(v0 / a), (c / v0)]
                  else
                    [(((-(b + (sqrt ((b * b) - (((4 : K) * a) * c))))) / (2 : K)) / a)]
                else
                  [(((-(b + (sqrt ((b * b) - (((4 : K) * a) * c))))) / (2 : K)) / a)]
              else
                if (c / ((-(b + (sqrt ((b * b) - (((4 : K) * a) * c))))) / (2 : K))) ≥ (0 : K) then
                  if (c / ((-(b + (sqrt ((b * b) - (((4 : K) * a) * c))))) / (2 : K))) ≤ (1 : K) then
                    [(c / ((-(b + (sqrt ((b * b) - (((4 : K) * a) * c))))) / (2 : K)))]
                  else
                    []
                else
                  []
            else
              if (c / ((-(b + (sqrt ((b * b) - (((4 : K) * a) * c))))) / (2 : K))) ≥ (0 : K) then
                if (c / ((-(b + (sqrt ((b * b) - (((4 : K) * a) * c))))) / (2 : K))) ≤ (1 : K) then
                  [(c / ((-(b + (sqrt ((b * b) - (((4 : K) * a) * c))))) / (2 : K)))]
                else
                  []
              else
                []
        else
          if (((-(b + (sqrt ((b * b) - (((4 : K) * a) * c))))) / (2 : K)) / a) ≥ (0 : K) then
            if (((-(b + (sqrt ((b * b) - (((4 : K) * a) * c))))) / (2 : K)) / a) ≤ (1 : K) then
              [(((-(b + (sqrt ((b * b) - (((4 : K) * a) * c))))) / (2 : K)) / a)]
            else
              []
          else
            []
      else
        if ((-(b - (sqrt ((b * b) - (((4 : K) * a) * c))))) / (2 : K)) ≠ (0 : K) then
          if (c / ((-(b - (sqrt ((b * b) - (((4 : K) * a) * c))))) / (2 : K))) < (((-(b - (sqrt ((b * b) - (((4 : K) * a) * c))))) / (2 : K)) / a) then
            if (c / ((-(b - (sqrt ((b * b) - (((4 : K) * a) * c))))) / (2 : K))) ≥ (0 : K) then
              if (c / ((-(b - (sqrt ((b * b) - (((4 : K) * a) * c))))) / (2 : K))) ≤ (1 : K) then
                if (((-(b - (sqrt ((b * b) - (((4 : K) * a) * c))))) / (2 : K)) / a) ≥ (0 : K) then
                  if (((-(b - (sqrt ((b * b) - (((4 : K) * a) * c))))) / (2 : K)) / a) ≤ (1 : K) then
                    let v0 := ((-(b - (sqrt ((b * b) - (((4 : K) * a) * c))))) / (2 : K))
                    [(c / v0), (v0 / a)]
                  else
                    [(c / ((-(b - (sqrt ((b * b) - (((4 : K) * a) * c))))) / (2 : K)))]
                else
                  [(c / ((-(b - (sqrt ((b * b) - (((4 : K) * a) * c))))) / (2 : K)))]
              else
                if (((-(b - (sqrt ((b * b) - (((4 : K) * a) * c))))) / (2 : K)) / a) ≥ (0 : K) then
                  if (((-(b - (sqrt ((b * b) - (((4 : K) * a) * c))))) / (2 : K)) / a) ≤ (1 : K) then
                    [(((-(b - (sqrt ((b * b) - (((4 : K) * a) * c))))) / (2 : K)) / a)]
                  else
                    []
                else
                  []
            else
              if (((-(b - (sqrt ((b * b) - (((4 : K) * a) * c))))) / (2 : K)) / a) ≥ (0 : K) then
                if (((-(b - (sqrt ((b * b) - (((4 : K) * a) * c))))) / (2 : K)) / a) ≤ (1 : K) then
                  [(((-(b - (sqrt ((b * b) - (((4 : K) * a) * c))))) / (2 : K)) / a)]
                else
                  []
              else
                []
          else
            if (((-(b - (sqrt ((b * b) - (((4 : K) * a) * c))))) / (2 : K)) / a) ≥ (0 : K) then
              if (((-(b - (sqrt ((b * b) - (((4 : K) * a) * c))))) / (2 : K)) / a) ≤ (1 : K) then
                if (c / ((-(b - (sqrt ((b * b) - (((4 : K) * a) * c))))) / (2 : K))) ≥ (0 : K) then
                  if (c / ((-(b - (sqrt ((b * b) - (((4 : K) * a) * c))))) / (2 : K))) ≤ (1 : K) then
                    let v0 := ((-(b - (sqrt ((b * b) - (((4 : K) * a) * c))))) / (2 : K))
                    [(v0 / a), (c / v0)]
                  else
                    [(((-(b - (sqrt ((b * b) - (((4 : K) * a) * c))))) / (2 : K)) / a)]
                else
                  [(((-(b - (sqrt ((b * b) - (((4 : K) * a) * c))))) / (2 : K)) / a)]
              else
                if (c / ((-(b - (sqrt ((b * b) - (((4 : K) * a) * c))))) / (2 : K))) ≥ (0 : K) then
                  if (c / ((-(b - (sqrt ((b * b) - (((4 : K) * a) * c))))) / (2 : K))) ≤ (1 : K) then
                    [(c / ((-(b - (sqrt ((b * b) - (((4 : K) * a) * c))))) / (2 : K)))]
                  else
                    []
                else
                  []
            else
              if (c / ((-(b - (sqrt ((b * b) - (((4 : K) * a) * c))))) / (2 : K))) ≥ (0 : K) then
                if (c / ((-(b - (sqrt ((b * b) - (((4 : K) * a) * c))))) / (2 : K))) ≤ (1 : K) then
                  [(c / ((-(b - (sqrt ((b * b) - (((4 : K) * a) * c))))) / (2 : K)))]
                else
                  []
              else
                []
        else
          if (((-(b - (sqrt ((b * b) - (((4 : K) * a) * c))))) / (2 : K)) / a) ≥ (0 : K) then
            if (((-(b - (sqrt ((b * b) - (((4 : K) * a) * c))))) / (2 : K)) / a) ≤ (1 : K) then
              [(((-(b - (sqrt ((b * b) - (((4 : K) * a) * c))))) / (2 : K)) / a)]
            else
              []
          else
            []
    else
      []


/-- arguments CubicBezier._findDRoots passes to quadraticRoots (x then y) -/

@[gen_def] def cubic_dcoeffs_ax (p0x p0y p1x p1y p2x p2y p3x p3y : K) : K :=
  ((((p1x - p0x) * (3 : K)) - ((2 : K) * ((p2x - p1x) * (3 : K)))) + ((p3x - p2x) * (3 : K)))

@[gen_def] def cubic_dcoeffs_bx (p0x p0y p1x p1y p2x p2y p3x p3y : K) : K :=
  ((2 : K) * (((p2x - p1x) * (3 : K)) - ((p1x - p0x) * (3 : K))))

@[gen_def] def cubic_dcoeffs_cx (p0x p0y p1x p1y p2x p2y p3x p3y : K) : K :=
  ((p1x - p0x) * (3 : K))

@[gen_def] def cubic_dcoeffs_ay (p0x p0y p1x p1y p2x p2y p3x p3y : K) : K :=
  ((((p1y - p0y) * (3 : K)) - ((2 : K) * ((p2y - p1y) * (3 : K)))) + ((p3y - p2y) * (3 : K)))

@[gen_def] def cubic_dcoeffs_by (p0x p0y p1x p1y p2x p2y p3x p3y : K) : K :=
  ((2 : K) * (((p2y - p1y) * (3 : K)) - ((p1y - p0y) * (3 : K))))

@[gen_def] def cubic_dcoeffs_cy (p0x p0y p1x p1y p2x p2y p3x p3y : K) : K :=
  ((p1y - p0y) * (3 : K))

@[gen_def] def cubic_dcoeffs (p0x p0y p1x p1y p2x p2y p3x p3y : K) : List K :=
  [cubic_dcoeffs_ax p0x p0y p1x p1y p2x p2y p3x p3y, cubic_dcoeffs_bx p0x p0y p1x p1y p2x p2y p3x p3y, cubic_dcoeffs_cx p0x p0y p1x p1y p2x p2y p3x p3y, cubic_dcoeffs_ay p0x p0y p1x p1y p2x p2y p3x p3y, cubic_dcoeffs_by p0x p0y p1x p1y p2x p2y p3x p3y, cubic_dcoeffs_cy p0x p0y p1x p1y p2x p2y p3x p3y]


/-- QuadraticBezier._findDRoots (= findExtremes) -/

@[gen_def] def quad_findDRoots (p0x p0y p1x p1y p2x p2y : K) : List K :=
  if ((p0x - ((2 : K) * p1x)) + p2x) ≠ (0 : K) then
    if ((p0y - ((2 : K) * p1y)) + p2y) ≠ (0 : K) then
      if ((p0x - p1x) / ((p0x - ((2 : K) * p1x)) + p2x)) ≥ ((1 : K) / 100) then
        if ((p0x - p1x) / ((p0x - ((2 : K) * p1x)) + p2x)) ≤ ((99 : K) / 100) then
          if ((p0y - p1y) / ((p0y - ((2 : K) * p1y)) + p2y)) ≥ ((1 : K) / 100) then
            if ((p0y - p1y) / ((p0y - ((2 : K) * p1y)) + p2y)) ≤ ((99 : K) / 100) then
              [((p0x - p1x) / ((p0x - ((2 : K) * p1x)) + p2x)), ((p0y - p1y) / ((p0y - ((2 : K) * p1y)) + p2y))]
            else
              [((p0x - p1x) / ((p0x - ((2 : K) * p1x)) + p2x))]
          else
            [((p0x - p1x) / ((p0x - ((2 : K) * p1x)) + p2x))]
        else
          if ((p0y - p1y) / ((p0y - ((2 : K) * p1y)) + p2y)) ≥ ((1 : K) / 100) then
            if ((p0y - p1y) / ((p0y - ((2 : K) * p1y)) + p2y)) ≤ ((99 : K) / 100) then
              [((p0y - p1y) / ((p0y - ((2 : K) * p1y)) + p2y))]
            else
              []
          else
            []
      else
        if ((p0y - p1y) / ((p0y - ((2 : K) * p1y)) + p2y)) ≥ ((1 : K) / 100) then
          if ((p0y - p1y) / ((p0y - ((2 : K) * p1y)) + p2y)) ≤ ((99 : K) / 100) then
            [((p0y - p1y) / ((p0y - ((2 : K) * p1y)) + p2y))]
          else
            []
        else
          []
    else
      if ((p0x - p1x) / ((p0x - ((2 : K) * p1x)) + p2x)) ≥ ((1 : K) / 100) then
        if ((p0x - p1x) / ((p0x - ((2 : K) * p1x)) + p2x)) ≤ ((99 : K) / 100) then
          [((p0x - p1x) / ((p0x - ((2 : K) * p1x)) + p2x))]
        else
          []
      else
        []
  else
    if ((p0y - ((2 : K) * p1y)) + p2y) ≠ (0 : K) then
      if ((p0y - p1y) / ((p0y - ((2 : K) * p1y)) + p2y)) ≥ ((1 : K) / 100) then
        if ((p0y - p1y) / ((p0y - ((2 : K) * p1y)) + p2y)) ≤ ((99 : K) / 100) then
          [((p0y - p1y) / ((p0y - ((2 : K) * p1y)) + p2y))]
        else
          []
      else
        []
    else
      []


/-- arguments QuadraticBezier._findRoots('y') passes to quadraticRoots -/

@[gen_def] def quad_rootcoeffs_y_a (p0x p0y p1x p1y p2x p2y : K) : K :=
  ((p0y - ((2 : K) * p1y)) + p2y)

@[gen_def] def quad_rootcoeffs_y_b (p0x p0y p1x p1y p2x p2y : K) : K :=
  ((2 : K) * (p1y - p0y))

@[gen_def] def quad_rootcoeffs_y_c (p0x p0y p1x p1y p2x p2y : K) : K :=
  p0y

@[gen_def] def quad_rootcoeffs_y (p0x p0y p1x p1y p2x p2y : K) : List K :=
  [quad_rootcoeffs_y_a p0x p0y p1x p1y p2x p2y, quad_rootcoeffs_y_b p0x p0y p1x p1y p2x p2y, quad_rootcoeffs_y_c p0x p0y p1x p1y p2x p2y]


/-- utils.quadraticRoots(a, b, c, limited=False) -/

@[gen_def] def quadraticRoots_unlimited (sqrt : K → K) (a b c : K) : List K :=
  if a = (0 : K) then
    if b ≠ (0 : K) then
      [((-c) / b)]
    else
      []
  else
    if ((b * b) - (((4 : K) * a) * c)) > (0 : K) then
      if b ≥ (0 : K) then
        if ((-(b + (sqrt ((b * b) - (((4 : K) * a) * c))))) / (2 : K)) ≠ (0 : K) then
          if (c / ((-(b + (sqrt ((b * b) - (((4 : K) * a) * c))))) / (2 : K))) < (((-(b + (sqrt ((b * b) - (((4 : K) * a) * c))))) / (2 : K)) / a) then
            let v0 := ((-(b + (sqrt ((b * b) - (((4 : K) * a) * c))))) / (2 : K))
            [(c / v0), (v0 / a)]
          else
            let v0 := ((-(b + (sqrt ((b * b) - (((4 : K) * a) * c))))) / (2 : K))
            [(v0 / a), (c / v0)]
        else
          [(((-(b + (sqrt ((b * b) - (((4 : K) * a) * c))))) / (2 : K)) / a)]
      else
        if ((-(b - (sqrt ((b * b) - (((4 : K) * a) * c))))) / (2 : K)) ≠ (0 : K) then
          if (c / ((-(b - (sqrt ((b * b) - (((4 : K) * a) * c))))) / (2 : K))) < (((-(b - (sqrt ((b * b) - (((4 : K) * a) * c))))) / (2 : K)) / a) then
            let v0 := ((-(b - (sqrt ((b * b) - (((4 : K) * a) * c))))) / (2 : K))
            [(c / v0), (v0 / a)]
          else
            let v0 := ((-(b - (sqrt ((b * b) - (((4 : K) * a) * c))))) / (2 : K))
            [(v0 / a), (c / v0)]
        else
          [(((-(b - (sqrt ((b * b) - (((4 : K) * a) * c))))) / (2 : K)) / a)]
    else
      []


/-- coefficients a t^2 + b t + c + d t^3 that CubicBezier._findRoots('y') extracts -/

@[gen_def] def cubic_rootcoeffs_y_a (p0x p0y p1x p1y p2x p2y p3x p3y : K) : K :=
  ((((3 : K) * p0y) - ((6 : K) * p1y)) + ((3 : K) * p2y))

@[gen_def] def cubic_rootcoeffs_y_b (p0x p0y p1x p1y p2x p2y p3x p3y : K) : K :=
  (((-3 : K) * p0y) + ((3 : K) * p1y))

@[gen_def] def cubic_rootcoeffs_y_c (p0x p0y p1x p1y p2x p2y p3x p3y : K) : K :=
  p0y

@[gen_def] def cubic_rootcoeffs_y_d (p0x p0y p1x p1y p2x p2y p3x p3y : K) : K :=
  ((((-p0y) + ((3 : K) * p1y)) - ((3 : K) * p2y)) + p3y)

@[gen_def] def cubic_rootcoeffs_y (p0x p0y p1x p1y p2x p2y p3x p3y : K) : List K :=
  [cubic_rootcoeffs_y_a p0x p0y p1x p1y p2x p2y p3x p3y, cubic_rootcoeffs_y_b p0x p0y p1x p1y p2x p2y p3x p3y, cubic_rootcoeffs_y_c p0x p0y p1x p1y p2x p2y p3x p3y, cubic_rootcoeffs_y_d p0x p0y p1x p1y p2x p2y p3x p3y]


/-- which solver CubicBezier._findRoots('y') uses: [0] exact quadratic, [1] polished quadratic (negligible d), [2] Cardano -/

@[gen_def] def cubic_findRoots_dispatch (p0x p0y p1x p1y p2x p2y p3x p3y : K) : List K :=
  if |((((-p0y) + ((3 : K) * p1y)) - ((3 : K) * p2y)) + p3y)| ≤ (((1 : K) / 1000000) * (max (max |((((3 : K) * p0y) - ((6 : K) * p1y)) + ((3 : K) * p2y))| |(((-3 : K) * p0y) + ((3 : K) * p1y))|) |p0y|)) then
    if ((((-p0y) + ((3 : K) * p1y)) - ((3 : K) * p2y)) + p3y) = (0 : K) then
      [(0 : K)]
    else
      [(1 : K)]
  else
    [(2 : K)]

/-- the single value returned -/
@[gen_def] def cubic_findRoots_dispatch_v (p0x p0y p1x p1y p2x p2y p3x p3y : K) : K :=
  (cubic_findRoots_dispatch p0x p0y p1x p1y p2x p2y p3x p3y).headD 0


/-- the closed-form roots CubicBezier._findRoots('y') hands to _polishRoots ([] in the quadratic fallbacks) -/

@[gen_def] def cubic_cardano_roots (pi : K) (sqrt : K → K) (cos : K → K) (acos : K → K) (rpow : K → K → K) (p0x p0y p1x p1y p2x p2y p3x p3y : K) : List K :=
  if |((((-p0y) + ((3 : K) * p1y)) - ((3 : K) * p2y)) + p3y)| ≤ (((1 : K) / 1000000) * (max (max |((((3 : K) * p0y) - ((6 : K) * p1y)) + ((3 : K) * p2y))| |(((-3 : K) * p0y) + ((3 : K) * p1y))|) |p0y|)) then
    []
  else
    if ((((((((((2 : K) * (((((3 : K) * p0y) - ((6 : K) * p1y)) + ((3 : K) * p2y)) / ((((-p0y) + ((3 : K) * p1y)) - ((3 : K) * p2y)) + p3y))) * (((((3 : K) * p0y) - ((6 : K) * p1y)) + ((3 : K) * p2y)) / ((((-p0y) + ((3 : K) * p1y)) - ((3 : K) * p2y)) + p3y))) * (((((3 : K) * p0y) - ((6 : K) * p1y)) + ((3 : K) * p2y)) / ((((-p0y) + ((3 : K) * p1y)) - ((3 : K) * p2y)) + p3y))) - (((9 : K) * (((((3 : K) * p0y) - ((6 : K) * p1y)) + ((3 : K) * p2y)) / ((((-p0y) + ((3 : K) * p1y)) - ((3 : K) * p2y)) + p3y))) * ((((-3 : K) * p0y) + ((3 : K) * p1y)) / ((((-p0y) + ((3 : K) * p1y)) - ((3 : K) * p2y)) + p3y)))) + ((27 : K) * (p0y / ((((-p0y) + ((3 : K) * p1y)) - ((3 : K) * p2y)) + p3y)))) / (27 : K)) / (2 : K)) * ((((((((2 : K) * (((((3 : K) * p0y) - ((6 : K) * p1y)) + ((3 : K) * p2y)) / ((((-p0y) + ((3 : K) * p1y)) - ((3 : K) * p2y)) + p3y))) * (((((3 : K) * p0y) - ((6 : K) * p1y)) + ((3 : K) * p2y)) / ((((-p0y) + ((3 : K) * p1y)) - ((3 : K) * p2y)) + p3y))) * (((((3 : K) * p0y) - ((6 : K) * p1y)) + ((3 : K) * p2y)) / ((((-p0y) + ((3 : K) * p1y)) - ((3 : K) * p2y)) + p3y))) - (((9 : K) * (((((3 : K) * p0y) - ((6 : K) * p1y)) + ((3 : K) * p2y)) / ((((-p0y) + ((3 : K) * p1y)) - ((3 : K) * p2y)) + p3y))) * ((((-3 : K) * p0y) + ((3 : K) * p1y)) / ((((-p0y) + ((3 : K) * p1y)) - ((3 : K) * p2y)) + p3y)))) + ((27 : K) * (p0y / ((((-p0y) + ((3 : K) * p1y)) - ((3 : K) * p2y)) + p3y)))) / (27 : K)) / (2 : K))) + (((((((3 : K) * ((((-3 : K) * p0y) + ((3 : K) * p1y)) / ((((-p0y) + ((3 : K) * p1y)) - ((3 : K) * p2y)) + p3y))) - ((((((3 : K) * p0y) - ((6 : K) * p1y)) + ((3 : K) * p2y)) / ((((-p0y) + ((3 : K) * p1y)) - ((3 : K) * p2y)) + p3y)) * (((((3 : K) * p0y) - ((6 : K) * p1y)) + ((3 : K) * p2y)) / ((((-p0y) + ((3 : K) * p1y)) - ((3 : K) * p2y)) + p3y)))) / (3 : K)) / (3 : K)) * (((((3 : K) * ((((-3 : K) * p0y) + ((3 : K) * p1y)) / ((((-p0y) + ((3 : K) * p1y)) - ((3 : K) * p2y)) + p3y))) - ((((((3 : K) * p0y) - ((6 : K) * p1y)) + ((3 : K) * p2y)) / ((((-p0y) + ((3 : K) * p1y)) - ((3 : K) * p2y)) + p3y)) * (((((3 : K) * p0y) - ((6 : K) * p1y)) + ((3 : K) * p2y)) / ((((-p0y) + ((3 : K) * p1y)) - ((3 : K) * p2y)) + p3y)))) / (3 : K)) / (3 : K))) * (((((3 : K) * ((((-3 : K) * p0y) + ((3 : K) * p1y)) / ((((-p0y) + ((3 : K) * p1y)) - ((3 : K) * p2y)) + p3y))) - ((((((3 : K) * p0y) - ((6 : K) * p1y)) + ((3 : K) * p2y)) / ((((-p0y) + ((3 : K) * p1y)) - ((3 : K) * p2y)) + p3y)) * (((((3 : K) * p0y) - ((6 : K) * p1y)) + ((3 : K) * p2y)) / ((((-p0y) + ((3 : K) * p1y)) - ((3 : K) * p2y)) + p3y)))) / (3 : K)) / (3 : K)))) < (0 : K) then
      if (sqrt ((((-((((3 : K) * ((((-3 : K) * p0y) + ((3 : K) * p1y)) / ((((-p0y) + ((3 : K) * p1y)) - ((3 : K) * p2y)) + p3y))) - ((((((3 : K) * p0y) - ((6 : K) * p1y)) + ((3 : K) * p2y)) / ((((-p0y) + ((3 : K) * p1y)) - ((3 : K) * p2y)) + p3y)) * (((((3 : K) * p0y) - ((6 : K) * p1y)) + ((3 : K) * p2y)) / ((((-p0y) + ((3 : K) * p1y)) - ((3 : K) * p2y)) + p3y)))) / (3 : K))) / (3 : K)) * ((-((((3 : K) * ((((-3 : K) * p0y) + ((3 : K) * p1y)) / ((((-p0y) + ((3 : K) * p1y)) - ((3 : K) * p2y)) + p3y))) - ((((((3 : K) * p0y) - ((6 : K) * p1y)) + ((3 : K) * p2y)) / ((((-p0y) + ((3 : K) * p1y)) - ((3 : K) * p2y)) + p3y)) * (((((3 : K) * p0y) - ((6 : K) * p1y)) + ((3 : K) * p2y)) / ((((-p0y) + ((3 : K) * p1y)) - ((3 : K) * p2y)) + p3y)))) / (3 : K))) / (3 : K))) * ((-((((3 : K) * ((((-3 : K) * p0y) + ((3 : K) * p1y)) / ((((-p0y) + ((3 : K) * p1y)) - ((3 : K) * p2y)) + p3y))) - ((((((3 : K) * p0y) - ((6 : K) * p1y)) + ((3 : K) * p2y)) / ((((-p0y) + ((3 : K) * p1y)) - ((3 : K) * p2y)) + p3y)) * (((((3 : K) * p0y) - ((6 : K) * p1y)) + ((3 : K) * p2y)) / ((((-p0y) + ((3 : K) * p1y)) - ((3 : K) * p2y)) + p3y)))) / (3 : K))) / (3 : K)))) < (0 : K) then
        let v0 := ((3 : K) * p1y)
        let v1 := ((3 : K) * p2y)
        let v2 := ((((-p0y) + v0) - v1) + p3y)
        let v3 := ((((-3 : K) * p0y) + v0) / v2)
        let v4 := (((((3 : K) * p0y) - ((6 : K) * p1y)) + v1) / v2)
        let v5 := ((-((((3 : K) * v3) - (v4 * v4)) / (3 : K))) / (3 : K))
        let v6 := (sqrt ((v5 * v5) * v5))
        let v7 := ((2 : K) * (-(rpow (-v6) ((1 : K) / 3))))
        let v8 := (acos (max (min ((-(((((((2 : K) * v4) * v4) * v4) - (((9 : K) * v4) * v3)) + ((27 : K) * (p0y / v2))) / (27 : K))) / ((2 : K) * v6)) (1 : K)) (-1 : K)))
        let v9 := (v4 / (3 : K))
        [((v7 * (cos (v8 / (3 : K)))) - v9), ((v7 * (cos ((v8 + ((2 : K) * pi)) / (3 : K)))) - v9), ((v7 * (cos ((v8 + ((4 : K) * pi)) / (3 : K)))) - v9)]
      else
        let v0 := ((3 : K) * p1y)
        let v1 := ((3 : K) * p2y)
        let v2 := ((((-p0y) + v0) - v1) + p3y)
        let v3 := ((((-3 : K) * p0y) + v0) / v2)
        let v4 := (((((3 : K) * p0y) - ((6 : K) * p1y)) + v1) / v2)
        let v5 := ((-((((3 : K) * v3) - (v4 * v4)) / (3 : K))) / (3 : K))
        let v6 := (sqrt ((v5 * v5) * v5))
        let v7 := ((2 : K) * (rpow v6 ((1 : K) / 3)))
        let v8 := (acos (max (min ((-(((((((2 : K) * v4) * v4) * v4) - (((9 : K) * v4) * v3)) + ((27 : K) * (p0y / v2))) / (27 : K))) / ((2 : K) * v6)) (1 : K)) (-1 : K)))
        let v9 := (v4 / (3 : K))
        [((v7 * (cos (v8 / (3 : K)))) - v9), ((v7 * (cos ((v8 + ((2 : K) * pi)) / (3 : K)))) - v9), ((v7 * (cos ((v8 + ((4 : K) * pi)) / (3 : K)))) - v9)]
    else
      if ((((((((((2 : K) * (((((3 : K) * p0y) - ((6 : K) * p1y)) + ((3 : K) * p2y)) / ((((-p0y) + ((3 : K) * p1y)) - ((3 : K) * p2y)) + p3y))) * (((((3 : K) * p0y) - ((6 : K) * p1y)) + ((3 : K) * p2y)) / ((((-p0y) + ((3 : K) * p1y)) - ((3 : K) * p2y)) + p3y))) * (((((3 : K) * p0y) - ((6 : K) * p1y)) + ((3 : K) * p2y)) / ((((-p0y) + ((3 : K) * p1y)) - ((3 : K) * p2y)) + p3y))) - (((9 : K) * (((((3 : K) * p0y) - ((6 : K) * p1y)) + ((3 : K) * p2y)) / ((((-p0y) + ((3 : K) * p1y)) - ((3 : K) * p2y)) + p3y))) * ((((-3 : K) * p0y) + ((3 : K) * p1y)) / ((((-p0y) + ((3 : K) * p1y)) - ((3 : K) * p2y)) + p3y)))) + ((27 : K) * (p0y / ((((-p0y) + ((3 : K) * p1y)) - ((3 : K) * p2y)) + p3y)))) / (27 : K)) / (2 : K)) * ((((((((2 : K) * (((((3 : K) * p0y) - ((6 : K) * p1y)) + ((3 : K) * p2y)) / ((((-p0y) + ((3 : K) * p1y)) - ((3 : K) * p2y)) + p3y))) * (((((3 : K) * p0y) - ((6 : K) * p1y)) + ((3 : K) * p2y)) / ((((-p0y) + ((3 : K) * p1y)) - ((3 : K) * p2y)) + p3y))) * (((((3 : K) * p0y) - ((6 : K) * p1y)) + ((3 : K) * p2y)) / ((((-p0y) + ((3 : K) * p1y)) - ((3 : K) * p2y)) + p3y))) - (((9 : K) * (((((3 : K) * p0y) - ((6 : K) * p1y)) + ((3 : K) * p2y)) / ((((-p0y) + ((3 : K) * p1y)) - ((3 : K) * p2y)) + p3y))) * ((((-3 : K) * p0y) + ((3 : K) * p1y)) / ((((-p0y) + ((3 : K) * p1y)) - ((3 : K) * p2y)) + p3y)))) + ((27 : K) * (p0y / ((((-p0y) + ((3 : K) * p1y)) - ((3 : K) * p2y)) + p3y)))) / (27 : K)) / (2 : K))) + (((((((3 : K) * ((((-3 : K) * p0y) + ((3 : K) * p1y)) / ((((-p0y) + ((3 : K) * p1y)) - ((3 : K) * p2y)) + p3y))) - ((((((3 : K) * p0y) - ((6 : K) * p1y)) + ((3 : K) * p2y)) / ((((-p0y) + ((3 : K) * p1y)) - ((3 : K) * p2y)) + p3y)) * (((((3 : K) * p0y) - ((6 : K) * p1y)) + ((3 : K) * p2y)) / ((((-p0y) + ((3 : K) * p1y)) - ((3 : K) * p2y)) + p3y)))) / (3 : K)) / (3 : K)) * (((((3 : K) * ((((-3 : K) * p0y) + ((3 : K) * p1y)) / ((((-p0y) + ((3 : K) * p1y)) - ((3 : K) * p2y)) + p3y))) - ((((((3 : K) * p0y) - ((6 : K) * p1y)) + ((3 : K) * p2y)) / ((((-p0y) + ((3 : K) * p1y)) - ((3 : K) * p2y)) + p3y)) * (((((3 : K) * p0y) - ((6 : K) * p1y)) + ((3 : K) * p2y)) / ((((-p0y) + ((3 : K) * p1y)) - ((3 : K) * p2y)) + p3y)))) / (3 : K)) / (3 : K))) * (((((3 : K) * ((((-3 : K) * p0y) + ((3 : K) * p1y)) / ((((-p0y) + ((3 : K) * p1y)) - ((3 : K) * p2y)) + p3y))) - ((((((3 : K) * p0y) - ((6 : K) * p1y)) + ((3 : K) * p2y)) / ((((-p0y) + ((3 : K) * p1y)) - ((3 : K) * p2y)) + p3y)) * (((((3 : K) * p0y) - ((6 : K) * p1y)) + ((3 : K) * p2y)) / ((((-p0y) + ((3 : K) * p1y)) - ((3 : K) * p2y)) + p3y)))) / (3 : K)) / (3 : K)))) = (0 : K) then
        if ((((((((2 : K) * (((((3 : K) * p0y) - ((6 : K) * p1y)) + ((3 : K) * p2y)) / ((((-p0y) + ((3 : K) * p1y)) - ((3 : K) * p2y)) + p3y))) * (((((3 : K) * p0y) - ((6 : K) * p1y)) + ((3 : K) * p2y)) / ((((-p0y) + ((3 : K) * p1y)) - ((3 : K) * p2y)) + p3y))) * (((((3 : K) * p0y) - ((6 : K) * p1y)) + ((3 : K) * p2y)) / ((((-p0y) + ((3 : K) * p1y)) - ((3 : K) * p2y)) + p3y))) - (((9 : K) * (((((3 : K) * p0y) - ((6 : K) * p1y)) + ((3 : K) * p2y)) / ((((-p0y) + ((3 : K) * p1y)) - ((3 : K) * p2y)) + p3y))) * ((((-3 : K) * p0y) + ((3 : K) * p1y)) / ((((-p0y) + ((3 : K) * p1y)) - ((3 : K) * p2y)) + p3y)))) + ((27 : K) * (p0y / ((((-p0y) + ((3 : K) * p1y)) - ((3 : K) * p2y)) + p3y)))) / (27 : K)) / (2 : K)) < (0 : K) then
          if (-((((((((2 : K) * (((((3 : K) * p0y) - ((6 : K) * p1y)) + ((3 : K) * p2y)) / ((((-p0y) + ((3 : K) * p1y)) - ((3 : K) * p2y)) + p3y))) * (((((3 : K) * p0y) - ((6 : K) * p1y)) + ((3 : K) * p2y)) / ((((-p0y) + ((3 : K) * p1y)) - ((3 : K) * p2y)) + p3y))) * (((((3 : K) * p0y) - ((6 : K) * p1y)) + ((3 : K) * p2y)) / ((((-p0y) + ((3 : K) * p1y)) - ((3 : K) * p2y)) + p3y))) - (((9 : K) * (((((3 : K) * p0y) - ((6 : K) * p1y)) + ((3 : K) * p2y)) / ((((-p0y) + ((3 : K) * p1y)) - ((3 : K) * p2y)) + p3y))) * ((((-3 : K) * p0y) + ((3 : K) * p1y)) / ((((-p0y) + ((3 : K) * p1y)) - ((3 : K) * p2y)) + p3y)))) + ((27 : K) * (p0y / ((((-p0y) + ((3 : K) * p1y)) - ((3 : K) * p2y)) + p3y)))) / (27 : K)) / (2 : K))) < (0 : K) then
            let v0 := ((3 : K) * p2y)
            let v1 := ((3 : K) * p1y)
            let v2 := ((((-p0y) + v1) - v0) + p3y)
            let v3 := (((((3 : K) * p0y) - ((6 : K) * p1y)) + v0) / v2)
            let v4 := (-(rpow (-(-((((((((2 : K) * v3) * v3) * v3) - (((9 : K) * v3) * ((((-3 : K) * p0y) + v1) / v2))) + ((27 : K) * (p0y / v2))) / (27 : K)) / (2 : K)))) ((1 : K) / 3)))
            let v5 := (v3 / (3 : K))
            [(((2 : K) * v4) - v5), ((-v4) - v5)]
          else
            let v0 := ((3 : K) * p2y)
            let v1 := ((3 : K) * p1y)
            let v2 := ((((-p0y) + v1) - v0) + p3y)
            let v3 := (((((3 : K) * p0y) - ((6 : K) * p1y)) + v0) / v2)
            let v4 := (rpow (-((((((((2 : K) * v3) * v3) * v3) - (((9 : K) * v3) * ((((-3 : K) * p0y) + v1) / v2))) + ((27 : K) * (p0y / v2))) / (27 : K)) / (2 : K))) ((1 : K) / 3))
            let v5 := (v3 / (3 : K))
            [(((2 : K) * v4) - v5), ((-v4) - v5)]
        else
          let v0 := ((3 : K) * p2y)
          let v1 := ((3 : K) * p1y)
          let v2 := ((((-p0y) + v1) - v0) + p3y)
          let v3 := (((((3 : K) * p0y) - ((6 : K) * p1y)) + v0) / v2)
          let v4 := (rpow ((((((((2 : K) * v3) * v3) * v3) - (((9 : K) * v3) * ((((-3 : K) * p0y) + v1) / v2))) + ((27 : K) * (p0y / v2))) / (27 : K)) / (2 : K)) ((1 : K) / 3))
          let v5 := (v3 / (3 : K))
          [(((2 : K) * v4) - v5), ((-v4) - v5)]
      else
        if ((sqrt ((((((((((2 : K) * (((((3 : K) * p0y) - ((6 : K) * p1y)) + ((3 : K) * p2y)) / ((((-p0y) + ((3 : K) * p1y)) - ((3 : K) * p2y)) + p3y))) * (((((3 : K) * p0y) - ((6 : K) * p1y)) + ((3 : K) * p2y)) / ((((-p0y) + ((3 : K) * p1y)) - ((3 : K) * p2y)) + p3y))) * (((((3 : K) * p0y) - ((6 : K) * p1y)) + ((3 : K) * p2y)) / ((((-p0y) + ((3 : K) * p1y)) - ((3 : K) * p2y)) + p3y))) - (((9 : K) * (((((3 : K) * p0y) - ((6 : K) * p1y)) + ((3 : K) * p2y)) / ((((-p0y) + ((3 : K) * p1y)) - ((3 : K) * p2y)) + p3y))) * ((((-3 : K) * p0y) + ((3 : K) * p1y)) / ((((-p0y) + ((3 : K) * p1y)) - ((3 : K) * p2y)) + p3y)))) + ((27 : K) * (p0y / ((((-p0y) + ((3 : K) * p1y)) - ((3 : K) * p2y)) + p3y)))) / (27 : K)) / (2 : K)) * ((((((((2 : K) * (((((3 : K) * p0y) - ((6 : K) * p1y)) + ((3 : K) * p2y)) / ((((-p0y) + ((3 : K) * p1y)) - ((3 : K) * p2y)) + p3y))) * (((((3 : K) * p0y) - ((6 : K) * p1y)) + ((3 : K) * p2y)) / ((((-p0y) + ((3 : K) * p1y)) - ((3 : K) * p2y)) + p3y))) * (((((3 : K) * p0y) - ((6 : K) * p1y)) + ((3 : K) * p2y)) / ((((-p0y) + ((3 : K) * p1y)) - ((3 : K) * p2y)) + p3y))) - (((9 : K) * (((((3 : K) * p0y) - ((6 : K) * p1y)) + ((3 : K) * p2y)) / ((((-p0y) + ((3 : K) * p1y)) - ((3 : K) * p2y)) + p3y))) * ((((-3 : K) * p0y) + ((3 : K) * p1y)) / ((((-p0y) + ((3 : K) * p1y)) - ((3 : K) * p2y)) + p3y)))) + ((27 : K) * (p0y / ((((-p0y) + ((3 : K) * p1y)) - ((3 : K) * p2y)) + p3y)))) / (27 : K)) / (2 : K))) + (((((((3 : K) * ((((-3 : K) * p0y) + ((3 : K) * p1y)) / ((((-p0y) + ((3 : K) * p1y)) - ((3 : K) * p2y)) + p3y))) - ((((((3 : K) * p0y) - ((6 : K) * p1y)) + ((3 : K) * p2y)) / ((((-p0y) + ((3 : K) * p1y)) - ((3 : K) * p2y)) + p3y)) * (((((3 : K) * p0y) - ((6 : K) * p1y)) + ((3 : K) * p2y)) / ((((-p0y) + ((3 : K) * p1y)) - ((3 : K) * p2y)) + p3y)))) / (3 : K)) / (3 : K)) * (((((3 : K) * ((((-3 : K) * p0y) + ((3 : K) * p1y)) / ((((-p0y) + ((3 : K) * p1y)) - ((3 : K) * p2y)) + p3y))) - ((((((3 : K) * p0y) - ((6 : K) * p1y)) + ((3 : K) * p2y)) / ((((-p0y) + ((3 : K) * p1y)) - ((3 : K) * p2y)) + p3y)) * (((((3 : K) * p0y) - ((6 : K) * p1y)) + ((3 : K) * p2y)) / ((((-p0y) + ((3 : K) * p1y)) - ((3 : K) * p2y)) + p3y)))) / (3 : K)) / (3 : K))) * (((((3 : K) * ((((-3 : K) * p0y) + ((3 : K) * p1y)) / ((((-p0y) + ((3 : K) * p1y)) - ((3 : K) * p2y)) + p3y))) - ((((((3 : K) * p0y) - ((6 : K) * p1y)) + ((3 : K) * p2y)) / ((((-p0y) + ((3 : K) * p1y)) - ((3 : K) * p2y)) + p3y)) * (((((3 : K) * p0y) - ((6 : K) * p1y)) + ((3 : K) * p2y)) / ((((-p0y) + ((3 : K) * p1y)) - ((3 : K) * p2y)) + p3y)))) / (3 : K)) / (3 : K))))) - ((((((((2 : K) * (((((3 : K) * p0y) - ((6 : K) * p1y)) + ((3 : K) * p2y)) / ((((-p0y) + ((3 : K) * p1y)) - ((3 : K) * p2y)) + p3y))) * (((((3 : K) * p0y) - ((6 : K) * p1y)) + ((3 : K) * p2y)) / ((((-p0y) + ((3 : K) * p1y)) - ((3 : K) * p2y)) + p3y))) * (((((3 : K) * p0y) - ((6 : K) * p1y)) + ((3 : K) * p2y)) / ((((-p0y) + ((3 : K) * p1y)) - ((3 : K) * p2y)) + p3y))) - (((9 : K) * (((((3 : K) * p0y) - ((6 : K) * p1y)) + ((3 : K) * p2y)) / ((((-p0y) + ((3 : K) * p1y)) - ((3 : K) * p2y)) + p3y))) * ((((-3 : K) * p0y) + ((3 : K) * p1y)) / ((((-p0y) + ((3 : K) * p1y)) - ((3 : K) * p2y)) + p3y)))) + ((27 : K) * (p0y / ((((-p0y) + ((3 : K) * p1y)) - ((3 : K) * p2y)) + p3y)))) / (27 : K)) / (2 : K))) < (0 : K) then
          if ((sqrt ((((((((((2 : K) * (((((3 : K) * p0y) - ((6 : K) * p1y)) + ((3 : K) * p2y)) / ((((-p0y) + ((3 : K) * p1y)) - ((3 : K) * p2y)) + p3y))) * (((((3 : K) * p0y) - ((6 : K) * p1y)) + ((3 : K) * p2y)) / ((((-p0y) + ((3 : K) * p1y)) - ((3 : K) * p2y)) + p3y))) * (((((3 : K) * p0y) - ((6 : K) * p1y)) + ((3 : K) * p2y)) / ((((-p0y) + ((3 : K) * p1y)) - ((3 : K) * p2y)) + p3y))) - (((9 : K) * (((((3 : K) * p0y) - ((6 : K) * p1y)) + ((3 : K) * p2y)) / ((((-p0y) + ((3 : K) * p1y)) - ((3 : K) * p2y)) + p3y))) * ((((-3 : K) * p0y) + ((3 : K) * p1y)) / ((((-p0y) + ((3 : K) * p1y)) - ((3 : K) * p2y)) + p3y)))) + ((27 : K) * (p0y / ((((-p0y) + ((3 : K) * p1y)) - ((3 : K) * p2y)) + p3y)))) / (27 : K)) / (2 : K)) * ((((((((2 : K) * (((((3 : K) * p0y) - ((6 : K) * p1y)) + ((3 : K) * p2y)) / ((((-p0y) + ((3 : K) * p1y)) - ((3 : K) * p2y)) + p3y))) * (((((3 : K) * p0y) - ((6 : K) * p1y)) + ((3 : K) * p2y)) / ((((-p0y) + ((3 : K) * p1y)) - ((3 : K) * p2y)) + p3y))) * (((((3 : K) * p0y) - ((6 : K) * p1y)) + ((3 : K) * p2y)) / ((((-p0y) + ((3 : K) * p1y)) - ((3 : K) * p2y)) + p3y))) - (((9 : K) * (((((3 : K) * p0y) - ((6 : K) * p1y)) + ((3 : K) * p2y)) / ((((-p0y) + ((3 : K) * p1y)) - ((3 : K) * p2y)) + p3y))) * ((((-3 : K) * p0y) + ((3 : K) * p1y)) / ((((-p0y) + ((3 : K) * p1y)) - ((3 : K) * p2y)) + p3y)))) + ((27 : K) * (p0y / ((((-p0y) + ((3 : K) * p1y)) - ((3 : K) * p2y)) + p3y)))) / (27 : K)) / (2 : K))) + (((((((3 : K) * ((((-3 : K) * p0y) + ((3 : K) * p1y)) / ((((-p0y) + ((3 : K) * p1y)) - ((3 : K) * p2y)) + p3y))) - ((((((3 : K) * p0y) - ((6 : K) * p1y)) + ((3 : K) * p2y)) / ((((-p0y) + ((3 : K) * p1y)) - ((3 : K) * p2y)) + p3y)) * (((((3 : K) * p0y) - ((6 : K) * p1y)) + ((3 : K) * p2y)) / ((((-p0y) + ((3 : K) * p1y)) - ((3 : K) * p2y)) + p3y)))) / (3 : K)) / (3 : K)) * (((((3 : K) * ((((-3 : K) * p0y) + ((3 : K) * p1y)) / ((((-p0y) + ((3 : K) * p1y)) - ((3 : K) * p2y)) + p3y))) - ((((((3 : K) * p0y) - ((6 : K) * p1y)) + ((3 : K) * p2y)) / ((((-p0y) + ((3 : K) * p1y)) - ((3 : K) * p2y)) + p3y)) * (((((3 : K) * p0y) - ((6 : K) * p1y)) + ((3 : K) * p2y)) / ((((-p0y) + ((3 : K) * p1y)) - ((3 : K) * p2y)) + p3y)))) / (3 : K)) / (3 : K))) * (((((3 : K) * ((((-3 : K) * p0y) + ((3 : K) * p1y)) / ((((-p0y) + ((3 : K) * p1y)) - ((3 : K) * p2y)) + p3y))) - ((((((3 : K) * p0y) - ((6 : K) * p1y)) + ((3 : K) * p2y)) / ((((-p0y) + ((3 : K) * p1y)) - ((3 : K) * p2y)) + p3y)) * (((((3 : K) * p0y) - ((6 : K) * p1y)) + ((3 : K) * p2y)) / ((((-p0y) + ((3 : K) * p1y)) - ((3 : K) * p2y)) + p3y)))) / (3 : K)) / (3 : K))))) + ((((((((2 : K) * (((((3 : K) * p0y) - ((6 : K) * p1y)) + ((3 : K) * p2y)) / ((((-p0y) + ((3 : K) * p1y)) - ((3 : K) * p2y)) + p3y))) * (((((3 : K) * p0y) - ((6 : K) * p1y)) + ((3 : K) * p2y)) / ((((-p0y) + ((3 : K) * p1y)) - ((3 : K) * p2y)) + p3y))) * (((((3 : K) * p0y) - ((6 : K) * p1y)) + ((3 : K) * p2y)) / ((((-p0y) + ((3 : K) * p1y)) - ((3 : K) * p2y)) + p3y))) - (((9 : K) * (((((3 : K) * p0y) - ((6 : K) * p1y)) + ((3 : K) * p2y)) / ((((-p0y) + ((3 : K) * p1y)) - ((3 : K) * p2y)) + p3y))) * ((((-3 : K) * p0y) + ((3 : K) * p1y)) / ((((-p0y) + ((3 : K) * p1y)) - ((3 : K) * p2y)) + p3y)))) + ((27 : K) * (p0y / ((((-p0y) + ((3 : K) * p1y)) - ((3 : K) * p2y)) + p3y)))) / (27 : K)) / (2 : K))) < (0 : K) then
            let v0 := ((3 : K) * p2y)
            let v1 := ((3 : K) * p1y)
            let v2 := ((((-p0y) + v1) - v0) + p3y)
            let v3 := (((((3 : K) * p0y) - ((6 : K) * p1y)) + v0) / v2)
            let v4 := ((((-3 : K) * p0y) + v1) / v2)
            let v5 := ((((((((2 : K) * v3) * v3) * v3) - (((9 : K) * v3) * v4)) + ((27 : K) * (p0y / v2))) / (27 : K)) / (2 : K))
            let v6 := (((((3 : K) * v4) - (v3 * v3)) / (3 : K)) / (3 : K))
            let v7 := (sqrt ((v5 * v5) + ((v6 * v6) * v6)))
            [(((-(rpow (-(v7 - v5)) ((1 : K) / 3))) - (-(rpow (-(v7 + v5)) ((1 : K) / 3)))) - (v3 / (3 : K)))]
          else
            let v0 := ((3 : K) * p2y)
            let v1 := ((3 : K) * p1y)
            let v2 := ((((-p0y) + v1) - v0) + p3y)
            let v3 := (((((3 : K) * p0y) - ((6 : K) * p1y)) + v0) / v2)
            let v4 := ((((-3 : K) * p0y) + v1) / v2)
            let v5 := ((((((((2 : K) * v3) * v3) * v3) - (((9 : K) * v3) * v4)) + ((27 : K) * (p0y / v2))) / (27 : K)) / (2 : K))
            let v6 := (((((3 : K) * v4) - (v3 * v3)) / (3 : K)) / (3 : K))
            let v7 := (sqrt ((v5 * v5) + ((v6 * v6) * v6)))
            [(((-(rpow (-(v7 - v5)) ((1 : K) / 3))) - (rpow (v7 + v5) ((1 : K) / 3))) - (v3 / (3 : K)))]
        else
          if ((sqrt ((((((((((2 : K) * (((((3 : K) * p0y) - ((6 : K) * p1y)) + ((3 : K) * p2y)) / ((((-p0y) + ((3 : K) * p1y)) - ((3 : K) * p2y)) + p3y))) * (((((3 : K) * p0y) - ((6 : K) * p1y)) + ((3 : K) * p2y)) / ((((-p0y) + ((3 : K) * p1y)) - ((3 : K) * p2y)) + p3y))) * (((((3 : K) * p0y) - ((6 : K) * p1y)) + ((3 : K) * p2y)) / ((((-p0y) + ((3 : K) * p1y)) - ((3 : K) * p2y)) + p3y))) - (((9 : K) * (((((3 : K) * p0y) - ((6 : K) * p1y)) + ((3 : K) * p2y)) / ((((-p0y) + ((3 : K) * p1y)) - ((3 : K) * p2y)) + p3y))) * ((((-3 : K) * p0y) + ((3 : K) * p1y)) / ((((-p0y) + ((3 : K) * p1y)) - ((3 : K) * p2y)) + p3y)))) + ((27 : K) * (p0y / ((((-p0y) + ((3 : K) * p1y)) - ((3 : K) * p2y)) + p3y)))) / (27 : K)) / (2 : K)) * ((((((((2 : K) * (((((3 : K) * p0y) - ((6 : K) * p1y)) + ((3 : K) * p2y)) / ((((-p0y) + ((3 : K) * p1y)) - ((3 : K) * p2y)) + p3y))) * (((((3 : K) * p0y) - ((6 : K) * p1y)) + ((3 : K) * p2y)) / ((((-p0y) + ((3 : K) * p1y)) - ((3 : K) * p2y)) + p3y))) * (((((3 : K) * p0y) - ((6 : K) * p1y)) + ((3 : K) * p2y)) / ((((-p0y) + ((3 : K) * p1y)) - ((3 : K) * p2y)) + p3y))) - (((9 : K) * (((((3 : K) * p0y) - ((6 : K) * p1y)) + ((3 : K) * p2y)) / ((((-p0y) + ((3 : K) * p1y)) - ((3 : K) * p2y)) + p3y))) * ((((-3 : K) * p0y) + ((3 : K) * p1y)) / ((((-p0y) + ((3 : K) * p1y)) - ((3 : K) * p2y)) + p3y)))) + ((27 : K) * (p0y / ((((-p0y) + ((3 : K) * p1y)) - ((3 : K) * p2y)) + p3y)))) / (27 : K)) / (2 : K))) + (((((((3 : K) * ((((-3 : K) * p0y) + ((3 : K) * p1y)) / ((((-p0y) + ((3 : K) * p1y)) - ((3 : K) * p2y)) + p3y))) - ((((((3 : K) * p0y) - ((6 : K) * p1y)) + ((3 : K) * p2y)) / ((((-p0y) + ((3 : K) * p1y)) - ((3 : K) * p2y)) + p3y)) * (((((3 : K) * p0y) - ((6 : K) * p1y)) + ((3 : K) * p2y)) / ((((-p0y) + ((3 : K) * p1y)) - ((3 : K) * p2y)) + p3y)))) / (3 : K)) / (3 : K)) * (((((3 : K) * ((((-3 : K) * p0y) + ((3 : K) * p1y)) / ((((-p0y) + ((3 : K) * p1y)) - ((3 : K) * p2y)) + p3y))) - ((((((3 : K) * p0y) - ((6 : K) * p1y)) + ((3 : K) * p2y)) / ((((-p0y) + ((3 : K) * p1y)) - ((3 : K) * p2y)) + p3y)) * (((((3 : K) * p0y) - ((6 : K) * p1y)) + ((3 : K) * p2y)) / ((((-p0y) + ((3 : K) * p1y)) - ((3 : K) * p2y)) + p3y)))) / (3 : K)) / (3 : K))) * (((((3 : K) * ((((-3 : K) * p0y) + ((3 : K) * p1y)) / ((((-p0y) + ((3 : K) * p1y)) - ((3 : K) * p2y)) + p3y))) - ((((((3 : K) * p0y) - ((6 : K) * p1y)) + ((3 : K) * p2y)) / ((((-p0y) + ((3 : K) * p1y)) - ((3 : K) * p2y)) + p3y)) * (((((3 : K) * p0y) - ((6 : K) * p1y)) + ((3 : K) * p2y)) / ((((-p0y) + ((3 : K) * p1y)) - ((3 : K) * p2y)) + p3y)))) / (3 : K)) / (3 : K))))) + ((((((((2 : K) * (((((3 : K) * p0y) - ((6 : K) * p1y)) + ((3 : K) * p2y)) / ((((-p0y) + ((3 : K) * p1y)) - ((3 : K) * p2y)) + p3y))) * (((((3 : K) * p0y) - ((6 : K) * p1y)) + ((3 : K) * p2y)) / ((((-p0y) + ((3 : K) * p1y)) - ((3 : K) * p2y)) + p3y))) * (((((3 : K) * p0y) - ((6 : K) * p1y)) + ((3 : K) * p2y)) / ((((-p0y) + ((3 : K) * p1y)) - ((3 : K) * p2y)) + p3y))) - (((9 : K) * (((((3 : K) * p0y) - ((6 : K) * p1y)) + ((3 : K) * p2y)) / ((((-p0y) + ((3 : K) * p1y)) - ((3 : K) * p2y)) + p3y))) * ((((-3 : K) * p0y) + ((3 : K) * p1y)) / ((((-p0y) + ((3 : K) * p1y)) - ((3 : K) * p2y)) + p3y)))) + ((27 : K) * (p0y / ((((-p0y) + ((3 : K) * p1y)) - ((3 : K) * p2y)) + p3y)))) / (27 : K)) / (2 : K))) < (0 : K) then
            let v0 := ((3 : K) * p2y)
            let v1 := ((3 : K) * p1y)
            let v2 := ((((-p0y) + v1) - v0) + p3y)
            let v3 := (((((3 : K) * p0y) - ((6 : K) * p1y)) + v0) / v2)
            let v4 := ((((-3 : K) * p0y) + v1) / v2)
            let v5 := ((((((((2 : K) * v3) * v3) * v3) - (((9 : K) * v3) * v4)) + ((27 : K) * (p0y / v2))) / (27 : K)) / (2 : K))
            let v6 := (((((3 : K) * v4) - (v3 * v3)) / (3 : K)) / (3 : K))
            let v7 := (sqrt ((v5 * v5) + ((v6 * v6) * v6)))
            [(((rpow (v7 - v5) ((1 : K) / 3)) - (-(rpow (-(v7 + v5)) ((1 : K) / 3)))) - (v3 / (3 : K)))]
          else
            let v0 := ((3 : K) * p2y)
            let v1 := ((3 : K) * p1y)
            let v2 := ((((-p0y) + v1) - v0) + p3y)
            let v3 := (((((3 : K) * p0y) - ((6 : K) * p1y)) + v0) / v2)
            let v4 := ((((-3 : K) * p0y) + v1) / v2)
            let v5 := ((((((((2 : K) * v3) * v3) * v3) - (((9 : K) * v3) * v4)) + ((27 : K) * (p0y / v2))) / (27 : K)) / (2 : K))
            let v6 := (((((3 : K) * v4) - (v3 * v3)) / (3 : K)) / (3 : K))
            let v7 := (sqrt ((v5 * v5) + ((v6 * v6) * v6)))
            [(((rpow (v7 - v5) ((1 : K) / 3)) - (rpow (v7 + v5) ((1 : K) / 3))) - (v3 / (3 : K)))]


/-- arguments QuadraticBezier.tOfPoint passes to quadraticRoots (x then y) -/

@[gen_def] def quad_tOfPoint_coeffs_ax (p0x p0y p1x p1y p2x p2y qx qy : K) : K :=
  ((p0x - ((2 : K) * p1x)) + p2x)

@[gen_def] def quad_tOfPoint_coeffs_bx (p0x p0y p1x p1y p2x p2y qx qy : K) : K :=
  ((2 : K) * (p1x - p0x))

@[gen_def] def quad_tOfPoint_coeffs_cx (p0x p0y p1x p1y p2x p2y qx qy : K) : K :=
  (p0x - qx)

@[gen_def] def quad_tOfPoint_coeffs_ay (p0x p0y p1x p1y p2x p2y qx qy : K) : K :=
  ((p0y - ((2 : K) * p1y)) + p2y)

@[gen_def] def quad_tOfPoint_coeffs_by (p0x p0y p1x p1y p2x p2y qx qy : K) : K :=
  ((2 : K) * (p1y - p0y))

@[gen_def] def quad_tOfPoint_coeffs_cy (p0x p0y p1x p1y p2x p2y qx qy : K) : K :=
  (p0y - qy)

@[gen_def] def quad_tOfPoint_coeffs (p0x p0y p1x p1y p2x p2y qx qy : K) : List K :=
  [quad_tOfPoint_coeffs_ax p0x p0y p1x p1y p2x p2y qx qy, quad_tOfPoint_coeffs_bx p0x p0y p1x p1y p2x p2y qx qy, quad_tOfPoint_coeffs_cx p0x p0y p1x p1y p2x p2y qx qy, quad_tOfPoint_coeffs_ay p0x p0y p1x p1y p2x p2y qx qy, quad_tOfPoint_coeffs_by p0x p0y p1x p1y p2x p2y qx qy, quad_tOfPoint_coeffs_cy p0x p0y p1x p1y p2x p2y qx qy]


end Gen

/-- evaluation at K = ℚ for the correspondence driver -/
def Gen.dispatchRoots (tbl : FnTable) (name : String) (a : List ℚ) : Option (List ℚ) :=
  match name with
  | "quadraticRoots" => if a.length = 3 then some (Gen.quadraticRoots (tbl.sqrt) (a.getD 0 0) (a.getD 1 0) (a.getD 2 0)) else none
  | "cubic_dcoeffs" => if a.length = 8 then some (Gen.cubic_dcoeffs (a.getD 0 0) (a.getD 1 0) (a.getD 2 0) (a.getD 3 0) (a.getD 4 0) (a.getD 5 0) (a.getD 6 0) (a.getD 7 0)) else none
  | "quad_findDRoots" => if a.length = 6 then some (Gen.quad_findDRoots (a.getD 0 0) (a.getD 1 0) (a.getD 2 0) (a.getD 3 0) (a.getD 4 0) (a.getD 5 0)) else none
  | "quad_rootcoeffs_y" => if a.length = 6 then some (Gen.quad_rootcoeffs_y (a.getD 0 0) (a.getD 1 0) (a.getD 2 0) (a.getD 3 0) (a.getD 4 0) (a.getD 5 0)) else none
  | "quadraticRoots_unlimited" => if a.length = 3 then some (Gen.quadraticRoots_unlimited (tbl.sqrt) (a.getD 0 0) (a.getD 1 0) (a.getD 2 0)) else none
  | "cubic_rootcoeffs_y" => if a.length = 8 then some (Gen.cubic_rootcoeffs_y (a.getD 0 0) (a.getD 1 0) (a.getD 2 0) (a.getD 3 0) (a.getD 4 0) (a.getD 5 0) (a.getD 6 0) (a.getD 7 0)) else none
  | "cubic_findRoots_dispatch" => if a.length = 8 then some (Gen.cubic_findRoots_dispatch (a.getD 0 0) (a.getD 1 0) (a.getD 2 0) (a.getD 3 0) (a.getD 4 0) (a.getD 5 0) (a.getD 6 0) (a.getD 7 0)) else none
  | "cubic_cardano_roots" => if a.length = 8 then some (Gen.cubic_cardano_roots (tbl.pi) (tbl.sqrt) (tbl.cos) (tbl.acos) (tbl.rpow) (a.getD 0 0) (a.getD 1 0) (a.getD 2 0) (a.getD 3 0) (a.getD 4 0) (a.getD 5 0) (a.getD 6 0) (a.getD 7 0)) else none
  | "quad_tOfPoint_coeffs" => if a.length = 8 then some (Gen.quad_tOfPoint_coeffs (a.getD 0 0) (a.getD 1 0) (a.getD 2 0) (a.getD 3 0) (a.getD 4 0) (a.getD 5 0) (a.getD 6 0) (a.getD 7 0)) else none
  | _ => none
