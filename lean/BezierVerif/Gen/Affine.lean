/-
  GENERATED FILE -- do not edit.  Regenerated on every check run by /verif/harness from the
  Python source under /repo/src/beziers (symbolic tracing of the real code); see DESIGN.md 2.2.
-/
import BezierVerif.Basic

set_option maxRecDepth 100000
set_option linter.unusedVariables false

namespace Gen
variable {K : Type} [Field K] [LinearOrder K] [IsStrictOrderedRing K]


/-- Point.transformed -/

@[gen_def] def point_transformed_x (px py m00 m01 m02 m10 m11 m12 m20 m21 m22 : K) : K :=
  (((m00 * px) + (m01 * py)) + m02)

@[gen_def] def point_transformed_y (px py m00 m01 m02 m10 m11 m12 m20 m21 m22 : K) : K :=
  (((m10 * px) + (m11 * py)) + m12)

@[gen_def] def point_transformed (px py m00 m01 m02 m10 m11 m12 m20 m21 m22 : K) : List K :=
  [point_transformed_x px py m00 m01 m02 m10 m11 m12 m20 m21 m22, point_transformed_y px py m00 m01 m02 m10 m11 m12 m20 m21 m22]


/-- AffineTransformation.apply (self := self x other) -/

@[gen_def] def at_apply_m00 (m00 m01 m02 m10 m11 m12 m20 m21 m22 n00 n01 n02 n10 n11 n12 n20 n21 n22 : K) : K :=
  (((m00 * n00) + (m01 * n10)) + (m02 * n20))

@[gen_def] def at_apply_m01 (m00 m01 m02 m10 m11 m12 m20 m21 m22 n00 n01 n02 n10 n11 n12 n20 n21 n22 : K) : K :=
  (((m00 * n01) + (m01 * n11)) + (m02 * n21))

@[gen_def] def at_apply_m02 (m00 m01 m02 m10 m11 m12 m20 m21 m22 n00 n01 n02 n10 n11 n12 n20 n21 n22 : K) : K :=
  (((m00 * n02) + (m01 * n12)) + (m02 * n22))

@[gen_def] def at_apply_m10 (m00 m01 m02 m10 m11 m12 m20 m21 m22 n00 n01 n02 n10 n11 n12 n20 n21 n22 : K) : K :=
  (((m10 * n00) + (m11 * n10)) + (m12 * n20))

@[gen_def] def at_apply_m11 (m00 m01 m02 m10 m11 m12 m20 m21 m22 n00 n01 n02 n10 n11 n12 n20 n21 n22 : K) : K :=
  (((m10 * n01) + (m11 * n11)) + (m12 * n21))

@[gen_def] def at_apply_m12 (m00 m01 m02 m10 m11 m12 m20 m21 m22 n00 n01 n02 n10 n11 n12 n20 n21 n22 : K) : K :=
  (((m10 * n02) + (m11 * n12)) + (m12 * n22))

@[gen_def] def at_apply_m20 (m00 m01 m02 m10 m11 m12 m20 m21 m22 n00 n01 n02 n10 n11 n12 n20 n21 n22 : K) : K :=
  (((m20 * n00) + (m21 * n10)) + (m22 * n20))

@[gen_def] def at_apply_m21 (m00 m01 m02 m10 m11 m12 m20 m21 m22 n00 n01 n02 n10 n11 n12 n20 n21 n22 : K) : K :=
  (((m20 * n01) + (m21 * n11)) + (m22 * n21))

@[gen_def] def at_apply_m22 (m00 m01 m02 m10 m11 m12 m20 m21 m22 n00 n01 n02 n10 n11 n12 n20 n21 n22 : K) : K :=
  (((m20 * n02) + (m21 * n12)) + (m22 * n22))

@[gen_def] def at_apply (m00 m01 m02 m10 m11 m12 m20 m21 m22 n00 n01 n02 n10 n11 n12 n20 n21 n22 : K) : List K :=
  [at_apply_m00 m00 m01 m02 m10 m11 m12 m20 m21 m22 n00 n01 n02 n10 n11 n12 n20 n21 n22, at_apply_m01 m00 m01 m02 m10 m11 m12 m20 m21 m22 n00 n01 n02 n10 n11 n12 n20 n21 n22, at_apply_m02 m00 m01 m02 m10 m11 m12 m20 m21 m22 n00 n01 n02 n10 n11 n12 n20 n21 n22, at_apply_m10 m00 m01 m02 m10 m11 m12 m20 m21 m22 n00 n01 n02 n10 n11 n12 n20 n21 n22, at_apply_m11 m00 m01 m02 m10 m11 m12 m20 m21 m22 n00 n01 n02 n10 n11 n12 n20 n21 n22, at_apply_m12 m00 m01 m02 m10 m11 m12 m20 m21 m22 n00 n01 n02 n10 n11 n12 n20 n21 n22, at_apply_m20 m00 m01 m02 m10 m11 m12 m20 m21 m22 n00 n01 n02 n10 n11 n12 n20 n21 n22, at_apply_m21 m00 m01 m02 m10 m11 m12 m20 m21 m22 n00 n01 n02 n10 n11 n12 n20 n21 n22, at_apply_m22 m00 m01 m02 m10 m11 m12 m20 m21 m22 n00 n01 n02 n10 n11 n12 n20 n21 n22]


/-- AffineTransformation.apply_backwards (self := other x self) -/

@[gen_def] def at_apply_backwards_m00 (m00 m01 m02 m10 m11 m12 m20 m21 m22 n00 n01 n02 n10 n11 n12 n20 n21 n22 : K) : K :=
  (((n00 * m00) + (n01 * m10)) + (n02 * m20))

@[gen_def] def at_apply_backwards_m01 (m00 m01 m02 m10 m11 m12 m20 m21 m22 n00 n01 n02 n10 n11 n12 n20 n21 n22 : K) : K :=
  (((n00 * m01) + (n01 * m11)) + (n02 * m21))

@[gen_def] def at_apply_backwards_m02 (m00 m01 m02 m10 m11 m12 m20 m21 m22 n00 n01 n02 n10 n11 n12 n20 n21 n22 : K) : K :=
  (((n00 * m02) + (n01 * m12)) + (n02 * m22))

@[gen_def] def at_apply_backwards_m10 (m00 m01 m02 m10 m11 m12 m20 m21 m22 n00 n01 n02 n10 n11 n12 n20 n21 n22 : K) : K :=
  (((n10 * m00) + (n11 * m10)) + (n12 * m20))

@[gen_def] def at_apply_backwards_m11 (m00 m01 m02 m10 m11 m12 m20 m21 m22 n00 n01 n02 n10 n11 n12 n20 n21 n22 : K) : K :=
  (((n10 * m01) + (n11 * m11)) + (n12 * m21))

@[gen_def] def at_apply_backwards_m12 (m00 m01 m02 m10 m11 m12 m20 m21 m22 n00 n01 n02 n10 n11 n12 n20 n21 n22 : K) : K :=
  (((n10 * m02) + (n11 * m12)) + (n12 * m22))

@[gen_def] def at_apply_backwards_m20 (m00 m01 m02 m10 m11 m12 m20 m21 m22 n00 n01 n02 n10 n11 n12 n20 n21 n22 : K) : K :=
  (((n20 * m00) + (n21 * m10)) + (n22 * m20))

@[gen_def] def at_apply_backwards_m21 (m00 m01 m02 m10 m11 m12 m20 m21 m22 n00 n01 n02 n10 n11 n12 n20 n21 n22 : K) : K :=
  (((n20 * m01) + (n21 * m11)) + (n22 * m21))

@[gen_def] def at_apply_backwards_m22 (m00 m01 m02 m10 m11 m12 m20 m21 m22 n00 n01 n02 n10 n11 n12 n20 n21 n22 : K) : K :=
  (((n20 * m02) + (n21 * m12)) + (n22 * m22))

@[gen_def] def at_apply_backwards (m00 m01 m02 m10 m11 m12 m20 m21 m22 n00 n01 n02 n10 n11 n12 n20 n21 n22 : K) : List K :=
  [at_apply_backwards_m00 m00 m01 m02 m10 m11 m12 m20 m21 m22 n00 n01 n02 n10 n11 n12 n20 n21 n22, at_apply_backwards_m01 m00 m01 m02 m10 m11 m12 m20 m21 m22 n00 n01 n02 n10 n11 n12 n20 n21 n22, at_apply_backwards_m02 m00 m01 m02 m10 m11 m12 m20 m21 m22 n00 n01 n02 n10 n11 n12 n20 n21 n22, at_apply_backwards_m10 m00 m01 m02 m10 m11 m12 m20 m21 m22 n00 n01 n02 n10 n11 n12 n20 n21 n22, at_apply_backwards_m11 m00 m01 m02 m10 m11 m12 m20 m21 m22 n00 n01 n02 n10 n11 n12 n20 n21 n22, at_apply_backwards_m12 m00 m01 m02 m10 m11 m12 m20 m21 m22 n00 n01 n02 n10 n11 n12 n20 n21 n22, at_apply_backwards_m20 m00 m01 m02 m10 m11 m12 m20 m21 m22 n00 n01 n02 n10 n11 n12 n20 n21 n22, at_apply_backwards_m21 m00 m01 m02 m10 m11 m12 m20 m21 m22 n00 n01 n02 n10 n11 n12 n20 n21 n22, at_apply_backwards_m22 m00 m01 m02 m10 m11 m12 m20 m21 m22 n00 n01 n02 n10 n11 n12 n20 n21 n22]


/-- AffineTransformation.translation -/

@[gen_def] def at_translation_m00 (vx vy : K) : K :=
  (1 : K)

@[gen_def] def at_translation_m01 (vx vy : K) : K :=
  (0 : K)

@[gen_def] def at_translation_m02 (vx vy : K) : K :=
  vx

@[gen_def] def at_translation_m10 (vx vy : K) : K :=
  (0 : K)

@[gen_def] def at_translation_m11 (vx vy : K) : K :=
  (1 : K)

@[gen_def] def at_translation_m12 (vx vy : K) : K :=
  vy

@[gen_def] def at_translation_m20 (vx vy : K) : K :=
  (0 : K)

@[gen_def] def at_translation_m21 (vx vy : K) : K :=
  (0 : K)

@[gen_def] def at_translation_m22 (vx vy : K) : K :=
  (1 : K)

@[gen_def] def at_translation (vx vy : K) : List K :=
  [at_translation_m00 vx vy, at_translation_m01 vx vy, at_translation_m02 vx vy, at_translation_m10 vx vy, at_translation_m11 vx vy, at_translation_m12 vx vy, at_translation_m20 vx vy, at_translation_m21 vx vy, at_translation_m22 vx vy]


/-- AffineTransformation.scaling(fx, fy) -/

@[gen_def] def at_scaling2_0 (fx fy : K) : K :=
  fx

@[gen_def] def at_scaling2_1 (fx fy : K) : K :=
  (0 : K)

@[gen_def] def at_scaling2_2 (fx fy : K) : K :=
  (0 : K)

@[gen_def] def at_scaling2_3 (fx fy : K) : K :=
  (0 : K)

@[gen_def] def at_scaling2_4 (fx fy : K) : K :=
  fy

@[gen_def] def at_scaling2_5 (fx fy : K) : K :=
  (0 : K)

@[gen_def] def at_scaling2_6 (fx fy : K) : K :=
  (0 : K)

@[gen_def] def at_scaling2_7 (fx fy : K) : K :=
  (0 : K)

@[gen_def] def at_scaling2_8 (fx fy : K) : K :=
  (1 : K)

@[gen_def] def at_scaling2 (fx fy : K) : List K :=
  [at_scaling2_0 fx fy, at_scaling2_1 fx fy, at_scaling2_2 fx fy, at_scaling2_3 fx fy, at_scaling2_4 fx fy, at_scaling2_5 fx fy, at_scaling2_6 fx fy, at_scaling2_7 fx fy, at_scaling2_8 fx fy]


/-- AffineTransformation.scaling(fx) -/

@[gen_def] def at_scaling1_m00 (fx : K) : K :=
  fx

@[gen_def] def at_scaling1_m01 (fx : K) : K :=
  (0 : K)

@[gen_def] def at_scaling1_m02 (fx : K) : K :=
  (0 : K)

@[gen_def] def at_scaling1_m10 (fx : K) : K :=
  (0 : K)

@[gen_def] def at_scaling1_m11 (fx : K) : K :=
  fx

@[gen_def] def at_scaling1_m12 (fx : K) : K :=
  (0 : K)

@[gen_def] def at_scaling1_m20 (fx : K) : K :=
  (0 : K)

@[gen_def] def at_scaling1_m21 (fx : K) : K :=
  (0 : K)

@[gen_def] def at_scaling1_m22 (fx : K) : K :=
  (1 : K)

@[gen_def] def at_scaling1 (fx : K) : List K :=
  [at_scaling1_m00 fx, at_scaling1_m01 fx, at_scaling1_m02 fx, at_scaling1_m10 fx, at_scaling1_m11 fx, at_scaling1_m12 fx, at_scaling1_m20 fx, at_scaling1_m21 fx, at_scaling1_m22 fx]


/-- AffineTransformation.reflection -/

@[gen_def] def at_reflection_m00 : K :=
  (-1 : K)

@[gen_def] def at_reflection_m01 : K :=
  (0 : K)

@[gen_def] def at_reflection_m02 : K :=
  (0 : K)

@[gen_def] def at_reflection_m10 : K :=
  (0 : K)

@[gen_def] def at_reflection_m11 : K :=
  (1 : K)

@[gen_def] def at_reflection_m12 : K :=
  (0 : K)

@[gen_def] def at_reflection_m20 : K :=
  (0 : K)

@[gen_def] def at_reflection_m21 : K :=
  (0 : K)

@[gen_def] def at_reflection_m22 : K :=
  (1 : K)

@[gen_def] def at_reflection : List K :=
  [at_reflection_m00, at_reflection_m01, at_reflection_m02, at_reflection_m10, at_reflection_m11, at_reflection_m12, at_reflection_m20, at_reflection_m21, at_reflection_m22]


/-- AffineTransformation.rotation -/

@[gen_def] def at_rotation_m00 (cos : K → K) (sin : K → K) (angle : K) : K :=
  (cos (-angle))

@[gen_def] def at_rotation_m01 (cos : K → K) (sin : K → K) (angle : K) : K :=
  (sin (-angle))

@[gen_def] def at_rotation_m02 (cos : K → K) (sin : K → K) (angle : K) : K :=
  (0 : K)

@[gen_def] def at_rotation_m10 (cos : K → K) (sin : K → K) (angle : K) : K :=
  (-(sin (-angle)))

@[gen_def] def at_rotation_m11 (cos : K → K) (sin : K → K) (angle : K) : K :=
  (cos (-angle))

@[gen_def] def at_rotation_m12 (cos : K → K) (sin : K → K) (angle : K) : K :=
  (0 : K)

@[gen_def] def at_rotation_m20 (cos : K → K) (sin : K → K) (angle : K) : K :=
  (0 : K)

@[gen_def] def at_rotation_m21 (cos : K → K) (sin : K → K) (angle : K) : K :=
  (0 : K)

@[gen_def] def at_rotation_m22 (cos : K → K) (sin : K → K) (angle : K) : K :=
  (1 : K)

@[gen_def] def at_rotation (cos : K → K) (sin : K → K) (angle : K) : List K :=
  [at_rotation_m00 cos sin angle, at_rotation_m01 cos sin angle, at_rotation_m02 cos sin angle, at_rotation_m10 cos sin angle, at_rotation_m11 cos sin angle, at_rotation_m12 cos sin angle, at_rotation_m20 cos sin angle, at_rotation_m21 cos sin angle, at_rotation_m22 cos sin angle]


/-- m.translate(v) -/

@[gen_def] def at_translate_m00 (m00 m01 m02 m10 m11 m12 m20 m21 m22 vx vy : K) : K :=
  ((((1 : K) * m00) + ((0 : K) * m10)) + (vx * m20))

@[gen_def] def at_translate_m01 (m00 m01 m02 m10 m11 m12 m20 m21 m22 vx vy : K) : K :=
  ((((1 : K) * m01) + ((0 : K) * m11)) + (vx * m21))

@[gen_def] def at_translate_m02 (m00 m01 m02 m10 m11 m12 m20 m21 m22 vx vy : K) : K :=
  ((((1 : K) * m02) + ((0 : K) * m12)) + (vx * m22))

@[gen_def] def at_translate_m10 (m00 m01 m02 m10 m11 m12 m20 m21 m22 vx vy : K) : K :=
  ((((0 : K) * m00) + ((1 : K) * m10)) + (vy * m20))

@[gen_def] def at_translate_m11 (m00 m01 m02 m10 m11 m12 m20 m21 m22 vx vy : K) : K :=
  ((((0 : K) * m01) + ((1 : K) * m11)) + (vy * m21))

@[gen_def] def at_translate_m12 (m00 m01 m02 m10 m11 m12 m20 m21 m22 vx vy : K) : K :=
  ((((0 : K) * m02) + ((1 : K) * m12)) + (vy * m22))

@[gen_def] def at_translate_m20 (m00 m01 m02 m10 m11 m12 m20 m21 m22 vx vy : K) : K :=
  ((((0 : K) * m00) + ((0 : K) * m10)) + ((1 : K) * m20))

@[gen_def] def at_translate_m21 (m00 m01 m02 m10 m11 m12 m20 m21 m22 vx vy : K) : K :=
  ((((0 : K) * m01) + ((0 : K) * m11)) + ((1 : K) * m21))

@[gen_def] def at_translate_m22 (m00 m01 m02 m10 m11 m12 m20 m21 m22 vx vy : K) : K :=
  ((((0 : K) * m02) + ((0 : K) * m12)) + ((1 : K) * m22))

@[gen_def] def at_translate (m00 m01 m02 m10 m11 m12 m20 m21 m22 vx vy : K) : List K :=
  [at_translate_m00 m00 m01 m02 m10 m11 m12 m20 m21 m22 vx vy, at_translate_m01 m00 m01 m02 m10 m11 m12 m20 m21 m22 vx vy, at_translate_m02 m00 m01 m02 m10 m11 m12 m20 m21 m22 vx vy, at_translate_m10 m00 m01 m02 m10 m11 m12 m20 m21 m22 vx vy, at_translate_m11 m00 m01 m02 m10 m11 m12 m20 m21 m22 vx vy, at_translate_m12 m00 m01 m02 m10 m11 m12 m20 m21 m22 vx vy, at_translate_m20 m00 m01 m02 m10 m11 m12 m20 m21 m22 vx vy, at_translate_m21 m00 m01 m02 m10 m11 m12 m20 m21 m22 vx vy, at_translate_m22 m00 m01 m02 m10 m11 m12 m20 m21 m22 vx vy]


/-- m.scale(fx, fy) -/

@[gen_def] def at_scale2_0 (m00 m01 m02 m10 m11 m12 m20 m21 m22 fx fy : K) : K :=
  (((fx * m00) + ((0 : K) * m10)) + ((0 : K) * m20))

@[gen_def] def at_scale2_1 (m00 m01 m02 m10 m11 m12 m20 m21 m22 fx fy : K) : K :=
  (((fx * m01) + ((0 : K) * m11)) + ((0 : K) * m21))

@[gen_def] def at_scale2_2 (m00 m01 m02 m10 m11 m12 m20 m21 m22 fx fy : K) : K :=
  (((fx * m02) + ((0 : K) * m12)) + ((0 : K) * m22))

@[gen_def] def at_scale2_3 (m00 m01 m02 m10 m11 m12 m20 m21 m22 fx fy : K) : K :=
  ((((0 : K) * m00) + (fy * m10)) + ((0 : K) * m20))

@[gen_def] def at_scale2_4 (m00 m01 m02 m10 m11 m12 m20 m21 m22 fx fy : K) : K :=
  ((((0 : K) * m01) + (fy * m11)) + ((0 : K) * m21))

@[gen_def] def at_scale2_5 (m00 m01 m02 m10 m11 m12 m20 m21 m22 fx fy : K) : K :=
  ((((0 : K) * m02) + (fy * m12)) + ((0 : K) * m22))

@[gen_def] def at_scale2_6 (m00 m01 m02 m10 m11 m12 m20 m21 m22 fx fy : K) : K :=
  ((((0 : K) * m00) + ((0 : K) * m10)) + ((1 : K) * m20))

@[gen_def] def at_scale2_7 (m00 m01 m02 m10 m11 m12 m20 m21 m22 fx fy : K) : K :=
  ((((0 : K) * m01) + ((0 : K) * m11)) + ((1 : K) * m21))

@[gen_def] def at_scale2_8 (m00 m01 m02 m10 m11 m12 m20 m21 m22 fx fy : K) : K :=
  ((((0 : K) * m02) + ((0 : K) * m12)) + ((1 : K) * m22))

@[gen_def] def at_scale2 (m00 m01 m02 m10 m11 m12 m20 m21 m22 fx fy : K) : List K :=
  [at_scale2_0 m00 m01 m02 m10 m11 m12 m20 m21 m22 fx fy, at_scale2_1 m00 m01 m02 m10 m11 m12 m20 m21 m22 fx fy, at_scale2_2 m00 m01 m02 m10 m11 m12 m20 m21 m22 fx fy, at_scale2_3 m00 m01 m02 m10 m11 m12 m20 m21 m22 fx fy, at_scale2_4 m00 m01 m02 m10 m11 m12 m20 m21 m22 fx fy, at_scale2_5 m00 m01 m02 m10 m11 m12 m20 m21 m22 fx fy, at_scale2_6 m00 m01 m02 m10 m11 m12 m20 m21 m22 fx fy, at_scale2_7 m00 m01 m02 m10 m11 m12 m20 m21 m22 fx fy, at_scale2_8 m00 m01 m02 m10 m11 m12 m20 m21 m22 fx fy]


/-- m.reflect() -/

@[gen_def] def at_reflect_m00 (m00 m01 m02 m10 m11 m12 m20 m21 m22 : K) : K :=
  ((((-1 : K) * m00) + ((0 : K) * m10)) + ((0 : K) * m20))

@[gen_def] def at_reflect_m01 (m00 m01 m02 m10 m11 m12 m20 m21 m22 : K) : K :=
  ((((-1 : K) * m01) + ((0 : K) * m11)) + ((0 : K) * m21))

@[gen_def] def at_reflect_m02 (m00 m01 m02 m10 m11 m12 m20 m21 m22 : K) : K :=
  ((((-1 : K) * m02) + ((0 : K) * m12)) + ((0 : K) * m22))

@[gen_def] def at_reflect_m10 (m00 m01 m02 m10 m11 m12 m20 m21 m22 : K) : K :=
  ((((0 : K) * m00) + ((1 : K) * m10)) + ((0 : K) * m20))

@[gen_def] def at_reflect_m11 (m00 m01 m02 m10 m11 m12 m20 m21 m22 : K) : K :=
  ((((0 : K) * m01) + ((1 : K) * m11)) + ((0 : K) * m21))

@[gen_def] def at_reflect_m12 (m00 m01 m02 m10 m11 m12 m20 m21 m22 : K) : K :=
  ((((0 : K) * m02) + ((1 : K) * m12)) + ((0 : K) * m22))

@[gen_def] def at_reflect_m20 (m00 m01 m02 m10 m11 m12 m20 m21 m22 : K) : K :=
  ((((0 : K) * m00) + ((0 : K) * m10)) + ((1 : K) * m20))

@[gen_def] def at_reflect_m21 (m00 m01 m02 m10 m11 m12 m20 m21 m22 : K) : K :=
  ((((0 : K) * m01) + ((0 : K) * m11)) + ((1 : K) * m21))

@[gen_def] def at_reflect_m22 (m00 m01 m02 m10 m11 m12 m20 m21 m22 : K) : K :=
  ((((0 : K) * m02) + ((0 : K) * m12)) + ((1 : K) * m22))

@[gen_def] def at_reflect (m00 m01 m02 m10 m11 m12 m20 m21 m22 : K) : List K :=
  [at_reflect_m00 m00 m01 m02 m10 m11 m12 m20 m21 m22, at_reflect_m01 m00 m01 m02 m10 m11 m12 m20 m21 m22, at_reflect_m02 m00 m01 m02 m10 m11 m12 m20 m21 m22, at_reflect_m10 m00 m01 m02 m10 m11 m12 m20 m21 m22, at_reflect_m11 m00 m01 m02 m10 m11 m12 m20 m21 m22, at_reflect_m12 m00 m01 m02 m10 m11 m12 m20 m21 m22, at_reflect_m20 m00 m01 m02 m10 m11 m12 m20 m21 m22, at_reflect_m21 m00 m01 m02 m10 m11 m12 m20 m21 m22, at_reflect_m22 m00 m01 m02 m10 m11 m12 m20 m21 m22]


/-- m.rotate(angle) -/

@[gen_def] def at_rotate_m00 (cos : K → K) (sin : K → K) (m00 m01 m02 m10 m11 m12 m20 m21 m22 angle : K) : K :=
  ((((cos (-angle)) * m00) + ((sin (-angle)) * m10)) + ((0 : K) * m20))

@[gen_def] def at_rotate_m01 (cos : K → K) (sin : K → K) (m00 m01 m02 m10 m11 m12 m20 m21 m22 angle : K) : K :=
  ((((cos (-angle)) * m01) + ((sin (-angle)) * m11)) + ((0 : K) * m21))

@[gen_def] def at_rotate_m02 (cos : K → K) (sin : K → K) (m00 m01 m02 m10 m11 m12 m20 m21 m22 angle : K) : K :=
  ((((cos (-angle)) * m02) + ((sin (-angle)) * m12)) + ((0 : K) * m22))

@[gen_def] def at_rotate_m10 (cos : K → K) (sin : K → K) (m00 m01 m02 m10 m11 m12 m20 m21 m22 angle : K) : K :=
  ((((-(sin (-angle))) * m00) + ((cos (-angle)) * m10)) + ((0 : K) * m20))

@[gen_def] def at_rotate_m11 (cos : K → K) (sin : K → K) (m00 m01 m02 m10 m11 m12 m20 m21 m22 angle : K) : K :=
  ((((-(sin (-angle))) * m01) + ((cos (-angle)) * m11)) + ((0 : K) * m21))

@[gen_def] def at_rotate_m12 (cos : K → K) (sin : K → K) (m00 m01 m02 m10 m11 m12 m20 m21 m22 angle : K) : K :=
  ((((-(sin (-angle))) * m02) + ((cos (-angle)) * m12)) + ((0 : K) * m22))

@[gen_def] def at_rotate_m20 (cos : K → K) (sin : K → K) (m00 m01 m02 m10 m11 m12 m20 m21 m22 angle : K) : K :=
  ((((0 : K) * m00) + ((0 : K) * m10)) + ((1 : K) * m20))

@[gen_def] def at_rotate_m21 (cos : K → K) (sin : K → K) (m00 m01 m02 m10 m11 m12 m20 m21 m22 angle : K) : K :=
  ((((0 : K) * m01) + ((0 : K) * m11)) + ((1 : K) * m21))

@[gen_def] def at_rotate_m22 (cos : K → K) (sin : K → K) (m00 m01 m02 m10 m11 m12 m20 m21 m22 angle : K) : K :=
  ((((0 : K) * m02) + ((0 : K) * m12)) + ((1 : K) * m22))

@[gen_def] def at_rotate (cos : K → K) (sin : K → K) (m00 m01 m02 m10 m11 m12 m20 m21 m22 angle : K) : List K :=
  [at_rotate_m00 cos sin m00 m01 m02 m10 m11 m12 m20 m21 m22 angle, at_rotate_m01 cos sin m00 m01 m02 m10 m11 m12 m20 m21 m22 angle, at_rotate_m02 cos sin m00 m01 m02 m10 m11 m12 m20 m21 m22 angle, at_rotate_m10 cos sin m00 m01 m02 m10 m11 m12 m20 m21 m22 angle, at_rotate_m11 cos sin m00 m01 m02 m10 m11 m12 m20 m21 m22 angle, at_rotate_m12 cos sin m00 m01 m02 m10 m11 m12 m20 m21 m22 angle, at_rotate_m20 cos sin m00 m01 m02 m10 m11 m12 m20 m21 m22 angle, at_rotate_m21 cos sin m00 m01 m02 m10 m11 m12 m20 m21 m22 angle, at_rotate_m22 cos sin m00 m01 m02 m10 m11 m12 m20 m21 m22 angle]


/-- m.invert(): [] when the determinant guard fires, else the 9 entries -/

@[gen_def] def at_invert (m00 m01 m02 m10 m11 m12 m20 m21 m22 : K) : List K :=
  if isclose (((m00 * ((m11 * m22) - (m12 * m21))) - (m01 * ((m10 * m22) - (m12 * m20)))) + (m02 * ((m10 * m21) - (m11 * m20)))) (0 : K) ((1 : K) / 1000000000) (0 : K) then
    []
  else
    let v0 := ((m10 * m21) - (m11 * m20))
    let v1 := (((m00 * ((m11 * m22) - (m12 * m21))) - (m01 * ((m10 * m22) - (m12 * m20)))) + (m02 * v0))
    [(((m11 * m22) - (m21 * m12)) / v1), (((m21 * m02) - (m01 * m22)) / v1), (((m01 * m12) - (m11 * m02)) / v1), (((m12 * m20) - (m10 * m22)) / v1), (((m00 * m22) - (m02 * m20)) / v1), (((m02 * m10) - (m00 * m12)) / v1), (v0 / v1), (((m01 * m20) - (m00 * m21)) / v1), (((m00 * m11) - (m01 * m10)) / v1)]


/-- Segment.transformed on a Line -/

@[gen_def] def line_transformed_q0x (p0x p0y p1x p1y m00 m01 m02 m10 m11 m12 m20 m21 m22 : K) : K :=
  (((m00 * p0x) + (m01 * p0y)) + m02)

@[gen_def] def line_transformed_q0y (p0x p0y p1x p1y m00 m01 m02 m10 m11 m12 m20 m21 m22 : K) : K :=
  (((m10 * p0x) + (m11 * p0y)) + m12)

@[gen_def] def line_transformed_q1x (p0x p0y p1x p1y m00 m01 m02 m10 m11 m12 m20 m21 m22 : K) : K :=
  (((m00 * p1x) + (m01 * p1y)) + m02)

@[gen_def] def line_transformed_q1y (p0x p0y p1x p1y m00 m01 m02 m10 m11 m12 m20 m21 m22 : K) : K :=
  (((m10 * p1x) + (m11 * p1y)) + m12)

@[gen_def] def line_transformed (p0x p0y p1x p1y m00 m01 m02 m10 m11 m12 m20 m21 m22 : K) : List K :=
  [line_transformed_q0x p0x p0y p1x p1y m00 m01 m02 m10 m11 m12 m20 m21 m22, line_transformed_q0y p0x p0y p1x p1y m00 m01 m02 m10 m11 m12 m20 m21 m22, line_transformed_q1x p0x p0y p1x p1y m00 m01 m02 m10 m11 m12 m20 m21 m22, line_transformed_q1y p0x p0y p1x p1y m00 m01 m02 m10 m11 m12 m20 m21 m22]


/-- Segment.transformed on a QuadraticBezier -/

@[gen_def] def quad_transformed_q0x (p0x p0y p1x p1y p2x p2y m00 m01 m02 m10 m11 m12 m20 m21 m22 : K) : K :=
  (((m00 * p0x) + (m01 * p0y)) + m02)

@[gen_def] def quad_transformed_q0y (p0x p0y p1x p1y p2x p2y m00 m01 m02 m10 m11 m12 m20 m21 m22 : K) : K :=
  (((m10 * p0x) + (m11 * p0y)) + m12)

@[gen_def] def quad_transformed_q1x (p0x p0y p1x p1y p2x p2y m00 m01 m02 m10 m11 m12 m20 m21 m22 : K) : K :=
  (((m00 * p1x) + (m01 * p1y)) + m02)

@[gen_def] def quad_transformed_q1y (p0x p0y p1x p1y p2x p2y m00 m01 m02 m10 m11 m12 m20 m21 m22 : K) : K :=
  (((m10 * p1x) + (m11 * p1y)) + m12)

@[gen_def] def quad_transformed_q2x (p0x p0y p1x p1y p2x p2y m00 m01 m02 m10 m11 m12 m20 m21 m22 : K) : K :=
  (((m00 * p2x) + (m01 * p2y)) + m02)

@[gen_def] def quad_transformed_q2y (p0x p0y p1x p1y p2x p2y m00 m01 m02 m10 m11 m12 m20 m21 m22 : K) : K :=
  (((m10 * p2x) + (m11 * p2y)) + m12)

@[gen_def] def quad_transformed (p0x p0y p1x p1y p2x p2y m00 m01 m02 m10 m11 m12 m20 m21 m22 : K) : List K :=
  [quad_transformed_q0x p0x p0y p1x p1y p2x p2y m00 m01 m02 m10 m11 m12 m20 m21 m22, quad_transformed_q0y p0x p0y p1x p1y p2x p2y m00 m01 m02 m10 m11 m12 m20 m21 m22, quad_transformed_q1x p0x p0y p1x p1y p2x p2y m00 m01 m02 m10 m11 m12 m20 m21 m22, quad_transformed_q1y p0x p0y p1x p1y p2x p2y m00 m01 m02 m10 m11 m12 m20 m21 m22, quad_transformed_q2x p0x p0y p1x p1y p2x p2y m00 m01 m02 m10 m11 m12 m20 m21 m22, quad_transformed_q2y p0x p0y p1x p1y p2x p2y m00 m01 m02 m10 m11 m12 m20 m21 m22]


/-- Segment.transformed on a CubicBezier -/

@[gen_def] def cubic_transformed_q0x (p0x p0y p1x p1y p2x p2y p3x p3y m00 m01 m02 m10 m11 m12 m20 m21 m22 : K) : K :=
  (((m00 * p0x) + (m01 * p0y)) + m02)

@[gen_def] def cubic_transformed_q0y (p0x p0y p1x p1y p2x p2y p3x p3y m00 m01 m02 m10 m11 m12 m20 m21 m22 : K) : K :=
  (((m10 * p0x) + (m11 * p0y)) + m12)

@[gen_def] def cubic_transformed_q1x (p0x p0y p1x p1y p2x p2y p3x p3y m00 m01 m02 m10 m11 m12 m20 m21 m22 : K) : K :=
  (((m00 * p1x) + (m01 * p1y)) + m02)

@[gen_def] def cubic_transformed_q1y (p0x p0y p1x p1y p2x p2y p3x p3y m00 m01 m02 m10 m11 m12 m20 m21 m22 : K) : K :=
  (((m10 * p1x) + (m11 * p1y)) + m12)

@[gen_def] def cubic_transformed_q2x (p0x p0y p1x p1y p2x p2y p3x p3y m00 m01 m02 m10 m11 m12 m20 m21 m22 : K) : K :=
  (((m00 * p2x) + (m01 * p2y)) + m02)

@[gen_def] def cubic_transformed_q2y (p0x p0y p1x p1y p2x p2y p3x p3y m00 m01 m02 m10 m11 m12 m20 m21 m22 : K) : K :=
  (((m10 * p2x) + (m11 * p2y)) + m12)

@[gen_def] def cubic_transformed_q3x (p0x p0y p1x p1y p2x p2y p3x p3y m00 m01 m02 m10 m11 m12 m20 m21 m22 : K) : K :=
  (((m00 * p3x) + (m01 * p3y)) + m02)

@[gen_def] def cubic_transformed_q3y (p0x p0y p1x p1y p2x p2y p3x p3y m00 m01 m02 m10 m11 m12 m20 m21 m22 : K) : K :=
  (((m10 * p3x) + (m11 * p3y)) + m12)

@[gen_def] def cubic_transformed (p0x p0y p1x p1y p2x p2y p3x p3y m00 m01 m02 m10 m11 m12 m20 m21 m22 : K) : List K :=
  [cubic_transformed_q0x p0x p0y p1x p1y p2x p2y p3x p3y m00 m01 m02 m10 m11 m12 m20 m21 m22, cubic_transformed_q0y p0x p0y p1x p1y p2x p2y p3x p3y m00 m01 m02 m10 m11 m12 m20 m21 m22, cubic_transformed_q1x p0x p0y p1x p1y p2x p2y p3x p3y m00 m01 m02 m10 m11 m12 m20 m21 m22, cubic_transformed_q1y p0x p0y p1x p1y p2x p2y p3x p3y m00 m01 m02 m10 m11 m12 m20 m21 m22, cubic_transformed_q2x p0x p0y p1x p1y p2x p2y p3x p3y m00 m01 m02 m10 m11 m12 m20 m21 m22, cubic_transformed_q2y p0x p0y p1x p1y p2x p2y p3x p3y m00 m01 m02 m10 m11 m12 m20 m21 m22, cubic_transformed_q3x p0x p0y p1x p1y p2x p2y p3x p3y m00 m01 m02 m10 m11 m12 m20 m21 m22, cubic_transformed_q3y p0x p0y p1x p1y p2x p2y p3x p3y m00 m01 m02 m10 m11 m12 m20 m21 m22]


/-- Segment.translated on a CubicBezier -/

@[gen_def] def cubic_translated_q0x (p0x p0y p1x p1y p2x p2y p3x p3y vx vy : K) : K :=
  (p0x + vx)

@[gen_def] def cubic_translated_q0y (p0x p0y p1x p1y p2x p2y p3x p3y vx vy : K) : K :=
  (p0y + vy)

@[gen_def] def cubic_translated_q1x (p0x p0y p1x p1y p2x p2y p3x p3y vx vy : K) : K :=
  (p1x + vx)

@[gen_def] def cubic_translated_q1y (p0x p0y p1x p1y p2x p2y p3x p3y vx vy : K) : K :=
  (p1y + vy)

@[gen_def] def cubic_translated_q2x (p0x p0y p1x p1y p2x p2y p3x p3y vx vy : K) : K :=
  (p2x + vx)

@[gen_def] def cubic_translated_q2y (p0x p0y p1x p1y p2x p2y p3x p3y vx vy : K) : K :=
  (p2y + vy)

@[gen_def] def cubic_translated_q3x (p0x p0y p1x p1y p2x p2y p3x p3y vx vy : K) : K :=
  (p3x + vx)

@[gen_def] def cubic_translated_q3y (p0x p0y p1x p1y p2x p2y p3x p3y vx vy : K) : K :=
  (p3y + vy)

@[gen_def] def cubic_translated (p0x p0y p1x p1y p2x p2y p3x p3y vx vy : K) : List K :=
  [cubic_translated_q0x p0x p0y p1x p1y p2x p2y p3x p3y vx vy, cubic_translated_q0y p0x p0y p1x p1y p2x p2y p3x p3y vx vy, cubic_translated_q1x p0x p0y p1x p1y p2x p2y p3x p3y vx vy, cubic_translated_q1y p0x p0y p1x p1y p2x p2y p3x p3y vx vy, cubic_translated_q2x p0x p0y p1x p1y p2x p2y p3x p3y vx vy, cubic_translated_q2y p0x p0y p1x p1y p2x p2y p3x p3y vx vy, cubic_translated_q3x p0x p0y p1x p1y p2x p2y p3x p3y vx vy, cubic_translated_q3y p0x p0y p1x p1y p2x p2y p3x p3y vx vy]


/-- Segment.translated on a QuadraticBezier -/

@[gen_def] def quad_translated_q0x (p0x p0y p1x p1y p2x p2y vx vy : K) : K :=
  (p0x + vx)

@[gen_def] def quad_translated_q0y (p0x p0y p1x p1y p2x p2y vx vy : K) : K :=
  (p0y + vy)

@[gen_def] def quad_translated_q1x (p0x p0y p1x p1y p2x p2y vx vy : K) : K :=
  (p1x + vx)

@[gen_def] def quad_translated_q1y (p0x p0y p1x p1y p2x p2y vx vy : K) : K :=
  (p1y + vy)

@[gen_def] def quad_translated_q2x (p0x p0y p1x p1y p2x p2y vx vy : K) : K :=
  (p2x + vx)

@[gen_def] def quad_translated_q2y (p0x p0y p1x p1y p2x p2y vx vy : K) : K :=
  (p2y + vy)

@[gen_def] def quad_translated (p0x p0y p1x p1y p2x p2y vx vy : K) : List K :=
  [quad_translated_q0x p0x p0y p1x p1y p2x p2y vx vy, quad_translated_q0y p0x p0y p1x p1y p2x p2y vx vy, quad_translated_q1x p0x p0y p1x p1y p2x p2y vx vy, quad_translated_q1y p0x p0y p1x p1y p2x p2y vx vy, quad_translated_q2x p0x p0y p1x p1y p2x p2y vx vy, quad_translated_q2y p0x p0y p1x p1y p2x p2y vx vy]


/-- Segment.translated on a Line -/

@[gen_def] def line_translated_q0x (p0x p0y p1x p1y vx vy : K) : K :=
  (p0x + vx)

@[gen_def] def line_translated_q0y (p0x p0y p1x p1y vx vy : K) : K :=
  (p0y + vy)

@[gen_def] def line_translated_q1x (p0x p0y p1x p1y vx vy : K) : K :=
  (p1x + vx)

@[gen_def] def line_translated_q1y (p0x p0y p1x p1y vx vy : K) : K :=
  (p1y + vy)

@[gen_def] def line_translated (p0x p0y p1x p1y vx vy : K) : List K :=
  [line_translated_q0x p0x p0y p1x p1y vx vy, line_translated_q0y p0x p0y p1x p1y vx vy, line_translated_q1x p0x p0y p1x p1y vx vy, line_translated_q1y p0x p0y p1x p1y vx vy]


/-- Segment.scaled on a CubicBezier -/

@[gen_def] def cubic_scaled_q0x (p0x p0y p1x p1y p2x p2y p3x p3y k : K) : K :=
  (p0x * k)

@[gen_def] def cubic_scaled_q0y (p0x p0y p1x p1y p2x p2y p3x p3y k : K) : K :=
  (p0y * k)

@[gen_def] def cubic_scaled_q1x (p0x p0y p1x p1y p2x p2y p3x p3y k : K) : K :=
  (p1x * k)

@[gen_def] def cubic_scaled_q1y (p0x p0y p1x p1y p2x p2y p3x p3y k : K) : K :=
  (p1y * k)

@[gen_def] def cubic_scaled_q2x (p0x p0y p1x p1y p2x p2y p3x p3y k : K) : K :=
  (p2x * k)

@[gen_def] def cubic_scaled_q2y (p0x p0y p1x p1y p2x p2y p3x p3y k : K) : K :=
  (p2y * k)

@[gen_def] def cubic_scaled_q3x (p0x p0y p1x p1y p2x p2y p3x p3y k : K) : K :=
  (p3x * k)

@[gen_def] def cubic_scaled_q3y (p0x p0y p1x p1y p2x p2y p3x p3y k : K) : K :=
  (p3y * k)

@[gen_def] def cubic_scaled (p0x p0y p1x p1y p2x p2y p3x p3y k : K) : List K :=
  [cubic_scaled_q0x p0x p0y p1x p1y p2x p2y p3x p3y k, cubic_scaled_q0y p0x p0y p1x p1y p2x p2y p3x p3y k, cubic_scaled_q1x p0x p0y p1x p1y p2x p2y p3x p3y k, cubic_scaled_q1y p0x p0y p1x p1y p2x p2y p3x p3y k, cubic_scaled_q2x p0x p0y p1x p1y p2x p2y p3x p3y k, cubic_scaled_q2y p0x p0y p1x p1y p2x p2y p3x p3y k, cubic_scaled_q3x p0x p0y p1x p1y p2x p2y p3x p3y k, cubic_scaled_q3y p0x p0y p1x p1y p2x p2y p3x p3y k]


/-- Segment.scaled on a QuadraticBezier -/

@[gen_def] def quad_scaled_q0x (p0x p0y p1x p1y p2x p2y k : K) : K :=
  (p0x * k)

@[gen_def] def quad_scaled_q0y (p0x p0y p1x p1y p2x p2y k : K) : K :=
  (p0y * k)

@[gen_def] def quad_scaled_q1x (p0x p0y p1x p1y p2x p2y k : K) : K :=
  (p1x * k)

@[gen_def] def quad_scaled_q1y (p0x p0y p1x p1y p2x p2y k : K) : K :=
  (p1y * k)

@[gen_def] def quad_scaled_q2x (p0x p0y p1x p1y p2x p2y k : K) : K :=
  (p2x * k)

@[gen_def] def quad_scaled_q2y (p0x p0y p1x p1y p2x p2y k : K) : K :=
  (p2y * k)

@[gen_def] def quad_scaled (p0x p0y p1x p1y p2x p2y k : K) : List K :=
  [quad_scaled_q0x p0x p0y p1x p1y p2x p2y k, quad_scaled_q0y p0x p0y p1x p1y p2x p2y k, quad_scaled_q1x p0x p0y p1x p1y p2x p2y k, quad_scaled_q1y p0x p0y p1x p1y p2x p2y k, quad_scaled_q2x p0x p0y p1x p1y p2x p2y k, quad_scaled_q2y p0x p0y p1x p1y p2x p2y k]


/-- Segment.scaled on a Line -/

@[gen_def] def line_scaled_q0x (p0x p0y p1x p1y k : K) : K :=
  (p0x * k)

@[gen_def] def line_scaled_q0y (p0x p0y p1x p1y k : K) : K :=
  (p0y * k)

@[gen_def] def line_scaled_q1x (p0x p0y p1x p1y k : K) : K :=
  (p1x * k)

@[gen_def] def line_scaled_q1y (p0x p0y p1x p1y k : K) : K :=
  (p1y * k)

@[gen_def] def line_scaled (p0x p0y p1x p1y k : K) : List K :=
  [line_scaled_q0x p0x p0y p1x p1y k, line_scaled_q0y p0x p0y p1x p1y k, line_scaled_q1x p0x p0y p1x p1y k, line_scaled_q1y p0x p0y p1x p1y k]


/-- Segment.reversed on a CubicBezier -/

@[gen_def] def cubic_reversed_q0x (p0x p0y p1x p1y p2x p2y p3x p3y : K) : K :=
  p3x

@[gen_def] def cubic_reversed_q0y (p0x p0y p1x p1y p2x p2y p3x p3y : K) : K :=
  p3y

@[gen_def] def cubic_reversed_q1x (p0x p0y p1x p1y p2x p2y p3x p3y : K) : K :=
  p2x

@[gen_def] def cubic_reversed_q1y (p0x p0y p1x p1y p2x p2y p3x p3y : K) : K :=
  p2y

@[gen_def] def cubic_reversed_q2x (p0x p0y p1x p1y p2x p2y p3x p3y : K) : K :=
  p1x

@[gen_def] def cubic_reversed_q2y (p0x p0y p1x p1y p2x p2y p3x p3y : K) : K :=
  p1y

@[gen_def] def cubic_reversed_q3x (p0x p0y p1x p1y p2x p2y p3x p3y : K) : K :=
  p0x

@[gen_def] def cubic_reversed_q3y (p0x p0y p1x p1y p2x p2y p3x p3y : K) : K :=
  p0y

@[gen_def] def cubic_reversed (p0x p0y p1x p1y p2x p2y p3x p3y : K) : List K :=
  [cubic_reversed_q0x p0x p0y p1x p1y p2x p2y p3x p3y, cubic_reversed_q0y p0x p0y p1x p1y p2x p2y p3x p3y, cubic_reversed_q1x p0x p0y p1x p1y p2x p2y p3x p3y, cubic_reversed_q1y p0x p0y p1x p1y p2x p2y p3x p3y, cubic_reversed_q2x p0x p0y p1x p1y p2x p2y p3x p3y, cubic_reversed_q2y p0x p0y p1x p1y p2x p2y p3x p3y, cubic_reversed_q3x p0x p0y p1x p1y p2x p2y p3x p3y, cubic_reversed_q3y p0x p0y p1x p1y p2x p2y p3x p3y]


/-- Segment.reversed on a QuadraticBezier -/

@[gen_def] def quad_reversed_q0x (p0x p0y p1x p1y p2x p2y : K) : K :=
  p2x

@[gen_def] def quad_reversed_q0y (p0x p0y p1x p1y p2x p2y : K) : K :=
  p2y

@[gen_def] def quad_reversed_q1x (p0x p0y p1x p1y p2x p2y : K) : K :=
  p1x

@[gen_def] def quad_reversed_q1y (p0x p0y p1x p1y p2x p2y : K) : K :=
  p1y

@[gen_def] def quad_reversed_q2x (p0x p0y p1x p1y p2x p2y : K) : K :=
  p0x

@[gen_def] def quad_reversed_q2y (p0x p0y p1x p1y p2x p2y : K) : K :=
  p0y

@[gen_def] def quad_reversed (p0x p0y p1x p1y p2x p2y : K) : List K :=
  [quad_reversed_q0x p0x p0y p1x p1y p2x p2y, quad_reversed_q0y p0x p0y p1x p1y p2x p2y, quad_reversed_q1x p0x p0y p1x p1y p2x p2y, quad_reversed_q1y p0x p0y p1x p1y p2x p2y, quad_reversed_q2x p0x p0y p1x p1y p2x p2y, quad_reversed_q2y p0x p0y p1x p1y p2x p2y]


/-- Segment.reversed on a Line -/

@[gen_def] def line_reversed_q0x (p0x p0y p1x p1y : K) : K :=
  p1x

@[gen_def] def line_reversed_q0y (p0x p0y p1x p1y : K) : K :=
  p1y

@[gen_def] def line_reversed_q1x (p0x p0y p1x p1y : K) : K :=
  p0x

@[gen_def] def line_reversed_q1y (p0x p0y p1x p1y : K) : K :=
  p0y

@[gen_def] def line_reversed (p0x p0y p1x p1y : K) : List K :=
  [line_reversed_q0x p0x p0y p1x p1y, line_reversed_q0y p0x p0y p1x p1y, line_reversed_q1x p0x p0y p1x p1y, line_reversed_q1y p0x p0y p1x p1y]


/-- Point.rotated(around, by) (polar form) -/

@[gen_def] def point_rotated (sqrt : K → K) (cos : K → K) (sin : K → K) (atan2 : K → K → K) (px py cx cy th : K) : List K :=
  if (sqrt (((cos ((atan2 (cy - py) (cx - px)) + th)) * (cos ((atan2 (cy - py) (cx - px)) + th))) + ((sin ((atan2 (cy - py) (cx - px)) + th)) * (sin ((atan2 (cy - py) (cx - px)) + th))))) = (0 : K) then
    let v0 := ((atan2 (cy - py) (cx - px)) + th)
    let v1 := (sqrt (((cx - px) * (cx - px)) + ((cy - py) * (cy - py))))
    [(cx - (((cos v0) / (1 : K)) * v1)), (cy - (((sin v0) / (1 : K)) * v1))]
  else
    let v0 := ((atan2 (cy - py) (cx - px)) + th)
    let v1 := (sqrt (((cos v0) * (cos v0)) + ((sin v0) * (sin v0))))
    let v2 := (sqrt (((cx - px) * (cx - px)) + ((cy - py) * (cy - py))))
    [(cx - (((cos v0) / v1) * v2)), (cy - (((sin v0) / v1) * v2))]


/-- Segment.alignmentTransformation (depends on start and end only) -/

@[gen_def] def alignmentTransformation_m00 (cos : K → K) (sin : K → K) (atan2 : K → K → K) (sx sy ex ey : K) : K :=
  let v0 := (-((atan2 ((((0 : K) * ex) + ((1 : K) * ey)) + (sy * (-1 : K))) ((((1 : K) * ex) + ((0 : K) * ey)) + (sx * (-1 : K)))) * (-1 : K)))
  ((((cos v0) * (1 : K)) + ((sin v0) * (0 : K))) + (0 : K))

@[gen_def] def alignmentTransformation_m01 (cos : K → K) (sin : K → K) (atan2 : K → K → K) (sx sy ex ey : K) : K :=
  let v0 := (-((atan2 ((((0 : K) * ex) + ((1 : K) * ey)) + (sy * (-1 : K))) ((((1 : K) * ex) + ((0 : K) * ey)) + (sx * (-1 : K)))) * (-1 : K)))
  ((((cos v0) * (0 : K)) + ((sin v0) * (1 : K))) + (0 : K))

@[gen_def] def alignmentTransformation_m02 (cos : K → K) (sin : K → K) (atan2 : K → K → K) (sx sy ex ey : K) : K :=
  let v0 := (sy * (-1 : K))
  let v1 := (sx * (-1 : K))
  let v2 := (-((atan2 ((((0 : K) * ex) + ((1 : K) * ey)) + v0) ((((1 : K) * ex) + ((0 : K) * ey)) + v1)) * (-1 : K)))
  ((((cos v2) * v1) + ((sin v2) * v0)) + (0 : K))

@[gen_def] def alignmentTransformation_m10 (cos : K → K) (sin : K → K) (atan2 : K → K → K) (sx sy ex ey : K) : K :=
  let v0 := (-((atan2 ((((0 : K) * ex) + ((1 : K) * ey)) + (sy * (-1 : K))) ((((1 : K) * ex) + ((0 : K) * ey)) + (sx * (-1 : K)))) * (-1 : K)))
  ((((-(sin v0)) * (1 : K)) + ((cos v0) * (0 : K))) + (0 : K))

@[gen_def] def alignmentTransformation_m11 (cos : K → K) (sin : K → K) (atan2 : K → K → K) (sx sy ex ey : K) : K :=
  let v0 := (-((atan2 ((((0 : K) * ex) + ((1 : K) * ey)) + (sy * (-1 : K))) ((((1 : K) * ex) + ((0 : K) * ey)) + (sx * (-1 : K)))) * (-1 : K)))
  ((((-(sin v0)) * (0 : K)) + ((cos v0) * (1 : K))) + (0 : K))

@[gen_def] def alignmentTransformation_m12 (cos : K → K) (sin : K → K) (atan2 : K → K → K) (sx sy ex ey : K) : K :=
  let v0 := (sy * (-1 : K))
  let v1 := (sx * (-1 : K))
  let v2 := (-((atan2 ((((0 : K) * ex) + ((1 : K) * ey)) + v0) ((((1 : K) * ex) + ((0 : K) * ey)) + v1)) * (-1 : K)))
  ((((-(sin v2)) * v1) + ((cos v2) * v0)) + (0 : K))

@[gen_def] def alignmentTransformation_m20 (cos : K → K) (sin : K → K) (atan2 : K → K → K) (sx sy ex ey : K) : K :=
  (0 : K)

@[gen_def] def alignmentTransformation_m21 (cos : K → K) (sin : K → K) (atan2 : K → K → K) (sx sy ex ey : K) : K :=
  (0 : K)

@[gen_def] def alignmentTransformation_m22 (cos : K → K) (sin : K → K) (atan2 : K → K → K) (sx sy ex ey : K) : K :=
  ((((0 : K) * (sx * (-1 : K))) + ((0 : K) * (sy * (-1 : K)))) + (1 : K))

@[gen_def] def alignmentTransformation (cos : K → K) (sin : K → K) (atan2 : K → K → K) (sx sy ex ey : K) : List K :=
  [alignmentTransformation_m00 cos sin atan2 sx sy ex ey, alignmentTransformation_m01 cos sin atan2 sx sy ex ey, alignmentTransformation_m02 cos sin atan2 sx sy ex ey, alignmentTransformation_m10 cos sin atan2 sx sy ex ey, alignmentTransformation_m11 cos sin atan2 sx sy ex ey, alignmentTransformation_m12 cos sin atan2 sx sy ex ey, alignmentTransformation_m20 cos sin atan2 sx sy ex ey, alignmentTransformation_m21 cos sin atan2 sx sy ex ey, alignmentTransformation_m22 cos sin atan2 sx sy ex ey]


end Gen

/-- evaluation at K = ℚ for the correspondence driver -/
def Gen.dispatchAffine (tbl : FnTable) (name : String) (a : List ℚ) : Option (List ℚ) :=
  match name with
  | "point_transformed" => if a.length = 11 then some (Gen.point_transformed (a.getD 0 0) (a.getD 1 0) (a.getD 2 0) (a.getD 3 0) (a.getD 4 0) (a.getD 5 0) (a.getD 6 0) (a.getD 7 0) (a.getD 8 0) (a.getD 9 0) (a.getD 10 0)) else none
  | "at_apply" => if a.length = 18 then some (Gen.at_apply (a.getD 0 0) (a.getD 1 0) (a.getD 2 0) (a.getD 3 0) (a.getD 4 0) (a.getD 5 0) (a.getD 6 0) (a.getD 7 0) (a.getD 8 0) (a.getD 9 0) (a.getD 10 0) (a.getD 11 0) (a.getD 12 0) (a.getD 13 0) (a.getD 14 0) (a.getD 15 0) (a.getD 16 0) (a.getD 17 0)) else none
  | "at_apply_backwards" => if a.length = 18 then some (Gen.at_apply_backwards (a.getD 0 0) (a.getD 1 0) (a.getD 2 0) (a.getD 3 0) (a.getD 4 0) (a.getD 5 0) (a.getD 6 0) (a.getD 7 0) (a.getD 8 0) (a.getD 9 0) (a.getD 10 0) (a.getD 11 0) (a.getD 12 0) (a.getD 13 0) (a.getD 14 0) (a.getD 15 0) (a.getD 16 0) (a.getD 17 0)) else none
  | "at_translation" => if a.length = 2 then some (Gen.at_translation (a.getD 0 0) (a.getD 1 0)) else none
  | "at_scaling2" => if a.length = 2 then some (Gen.at_scaling2 (a.getD 0 0) (a.getD 1 0)) else none
  | "at_scaling1" => if a.length = 1 then some (Gen.at_scaling1 (a.getD 0 0)) else none
  | "at_reflection" => if a.length = 0 then some (Gen.at_reflection) else none
  | "at_rotation" => if a.length = 1 then some (Gen.at_rotation (tbl.cos) (tbl.sin) (a.getD 0 0)) else none
  | "at_translate" => if a.length = 11 then some (Gen.at_translate (a.getD 0 0) (a.getD 1 0) (a.getD 2 0) (a.getD 3 0) (a.getD 4 0) (a.getD 5 0) (a.getD 6 0) (a.getD 7 0) (a.getD 8 0) (a.getD 9 0) (a.getD 10 0)) else none
  | "at_scale2" => if a.length = 11 then some (Gen.at_scale2 (a.getD 0 0) (a.getD 1 0) (a.getD 2 0) (a.getD 3 0) (a.getD 4 0) (a.getD 5 0) (a.getD 6 0) (a.getD 7 0) (a.getD 8 0) (a.getD 9 0) (a.getD 10 0)) else none
  | "at_reflect" => if a.length = 9 then some (Gen.at_reflect (a.getD 0 0) (a.getD 1 0) (a.getD 2 0) (a.getD 3 0) (a.getD 4 0) (a.getD 5 0) (a.getD 6 0) (a.getD 7 0) (a.getD 8 0)) else none
  | "at_rotate" => if a.length = 10 then some (Gen.at_rotate (tbl.cos) (tbl.sin) (a.getD 0 0) (a.getD 1 0) (a.getD 2 0) (a.getD 3 0) (a.getD 4 0) (a.getD 5 0) (a.getD 6 0) (a.getD 7 0) (a.getD 8 0) (a.getD 9 0)) else none
  | "at_invert" => if a.length = 9 then some (Gen.at_invert (a.getD 0 0) (a.getD 1 0) (a.getD 2 0) (a.getD 3 0) (a.getD 4 0) (a.getD 5 0) (a.getD 6 0) (a.getD 7 0) (a.getD 8 0)) else none
  | "line_transformed" => if a.length = 13 then some (Gen.line_transformed (a.getD 0 0) (a.getD 1 0) (a.getD 2 0) (a.getD 3 0) (a.getD 4 0) (a.getD 5 0) (a.getD 6 0) (a.getD 7 0) (a.getD 8 0) (a.getD 9 0) (a.getD 10 0) (a.getD 11 0) (a.getD 12 0)) else none
  | "quad_transformed" => if a.length = 15 then some (Gen.quad_transformed (a.getD 0 0) (a.getD 1 0) (a.getD 2 0) (a.getD 3 0) (a.getD 4 0) (a.getD 5 0) (a.getD 6 0) (a.getD 7 0) (a.getD 8 0) (a.getD 9 0) (a.getD 10 0) (a.getD 11 0) (a.getD 12 0) (a.getD 13 0) (a.getD 14 0)) else none
  | "cubic_transformed" => if a.length = 17 then some (Gen.cubic_transformed (a.getD 0 0) (a.getD 1 0) (a.getD 2 0) (a.getD 3 0) (a.getD 4 0) (a.getD 5 0) (a.getD 6 0) (a.getD 7 0) (a.getD 8 0) (a.getD 9 0) (a.getD 10 0) (a.getD 11 0) (a.getD 12 0) (a.getD 13 0) (a.getD 14 0) (a.getD 15 0) (a.getD 16 0)) else none
  | "cubic_translated" => if a.length = 10 then some (Gen.cubic_translated (a.getD 0 0) (a.getD 1 0) (a.getD 2 0) (a.getD 3 0) (a.getD 4 0) (a.getD 5 0) (a.getD 6 0) (a.getD 7 0) (a.getD 8 0) (a.getD 9 0)) else none
  | "quad_translated" => if a.length = 8 then some (Gen.quad_translated (a.getD 0 0) (a.getD 1 0) (a.getD 2 0) (a.getD 3 0) (a.getD 4 0) (a.getD 5 0) (a.getD 6 0) (a.getD 7 0)) else none
  | "line_translated" => if a.length = 6 then some (Gen.line_translated (a.getD 0 0) (a.getD 1 0) (a.getD 2 0) (a.getD 3 0) (a.getD 4 0) (a.getD 5 0)) else none
  | "cubic_scaled" => if a.length = 9 then some (Gen.cubic_scaled (a.getD 0 0) (a.getD 1 0) (a.getD 2 0) (a.getD 3 0) (a.getD 4 0) (a.getD 5 0) (a.getD 6 0) (a.getD 7 0) (a.getD 8 0)) else none
  | "quad_scaled" => if a.length = 7 then some (Gen.quad_scaled (a.getD 0 0) (a.getD 1 0) (a.getD 2 0) (a.getD 3 0) (a.getD 4 0) (a.getD 5 0) (a.getD 6 0)) else none
  | "line_scaled" => if a.length = 5 then some (Gen.line_scaled (a.getD 0 0) (a.getD 1 0) (a.getD 2 0) (a.getD 3 0) (a.getD 4 0)) else none
  | "cubic_reversed" => if a.length = 8 then some (Gen.cubic_reversed (a.getD 0 0) (a.getD 1 0) (a.getD 2 0) (a.getD 3 0) (a.getD 4 0) (a.getD 5 0) (a.getD 6 0) (a.getD 7 0)) else none
  | "quad_reversed" => if a.length = 6 then some (Gen.quad_reversed (a.getD 0 0) (a.getD 1 0) (a.getD 2 0) (a.getD 3 0) (a.getD 4 0) (a.getD 5 0)) else none
  | "line_reversed" => if a.length = 4 then some (Gen.line_reversed (a.getD 0 0) (a.getD 1 0) (a.getD 2 0) (a.getD 3 0)) else none
  | "point_rotated" => if a.length = 5 then some (Gen.point_rotated (tbl.sqrt) (tbl.cos) (tbl.sin) (tbl.atan2) (a.getD 0 0) (a.getD 1 0) (a.getD 2 0) (a.getD 3 0) (a.getD 4 0)) else none
  | "alignmentTransformation" => if a.length = 4 then some (Gen.alignmentTransformation (tbl.cos) (tbl.sin) (tbl.atan2) (a.getD 0 0) (a.getD 1 0) (a.getD 2 0) (a.getD 3 0)) else none
  | _ => none
