/-
  GENERATED FILE -- do not edit.  Regenerated on every check run by /verif/harness from the
  Python source under /repo/src/beziers (symbolic tracing of the real code); see DESIGN.md 2.2.
-/
import BezierVerif.Basic
import BezierVerif.Gen.Affine
import BezierVerif.Gen.Roots
import BezierVerif.Gen.Lookup

set_option maxRecDepth 100000
set_option linter.unusedVariables false

namespace Gen
variable {K : Type} [Field K] [LinearOrder K] [IsStrictOrderedRing K]


/-- Line.intersections(Line): [t1, t2] of the reported intersection or [] (IntersectionsMixin.intersections + _line_line_intersections; tOfPoint calls are calls of the generated line_tOfPoint definitions) -/

@[gen_def] def line_line (p0x p0y p1x p1y q0x q0y q1x q1y : K) : List K :=
  if isclose q0x q1x ((1 : K) / 1000000000) (0 : K) then
    if isclose p0x p1x ((1 : K) / 1000000000) (0 : K) then
      []
    else
      if isclose q0y q1y ((1 : K) / 1000000000) (0 : K) then
        if isclose p0y p1y ((1 : K) / 1000000000) (0 : K) then
          []
        else
          []
      else
        if isclose p1x p0x ((1 : K) / 1000000000) (0 : K) then
          if (line_tOfPoint_sworn_v p0x p0y p1x p1y p0x ((((q1y - q0y) / (q1x - q0x)) * (p0x - q0x)) + q0y)) < ((1 : K) / 5000000) then
            []
          else
            if (line_tOfPoint_sworn_v p0x p0y p1x p1y p0x ((((q1y - q0y) / (q1x - q0x)) * (p0x - q0x)) + q0y)) > ((5000001 : K) / 5000000) then
              []
            else
              if (line_tOfPoint_sworn_v q0x q0y q1x q1y p0x ((((q1y - q0y) / (q1x - q0x)) * (p0x - q0x)) + q0y)) < ((1 : K) / 5000000) then
                []
              else
                if (line_tOfPoint_sworn_v q0x q0y q1x q1y p0x ((((q1y - q0y) / (q1x - q0x)) * (p0x - q0x)) + q0y)) > ((5000001 : K) / 5000000) then
                  []
                else
                  let v0 := ((((q1y - q0y) / (q1x - q0x)) * (p0x - q0x)) + q0y)
                  [(line_tOfPoint_sworn_v p0x p0y p1x p1y p0x v0), (line_tOfPoint_sworn_v q0x q0y q1x q1y p0x v0)]
        else
          if (line_tOfPoint_sworn_v p0x p0y p1x p1y q0x ((((p1y - p0y) / (p1x - p0x)) * (q0x - p0x)) + p0y)) < ((1 : K) / 5000000) then
            []
          else
            if (line_tOfPoint_sworn_v p0x p0y p1x p1y q0x ((((p1y - p0y) / (p1x - p0x)) * (q0x - p0x)) + p0y)) > ((5000001 : K) / 5000000) then
              []
            else
              if (line_tOfPoint_sworn_v q0x q0y q1x q1y q0x ((((p1y - p0y) / (p1x - p0x)) * (q0x - p0x)) + p0y)) < ((1 : K) / 5000000) then
                []
              else
                if (line_tOfPoint_sworn_v q0x q0y q1x q1y q0x ((((p1y - p0y) / (p1x - p0x)) * (q0x - p0x)) + p0y)) > ((5000001 : K) / 5000000) then
                  []
                else
                  let v0 := ((((p1y - p0y) / (p1x - p0x)) * (q0x - p0x)) + p0y)
                  [(line_tOfPoint_sworn_v p0x p0y p1x p1y q0x v0), (line_tOfPoint_sworn_v q0x q0y q1x q1y q0x v0)]
  else
    if isclose q0y q1y ((1 : K) / 1000000000) (0 : K) then
      if isclose p0y p1y ((1 : K) / 1000000000) (0 : K) then
        []
      else
        if isclose p0x p1x ((1 : K) / 1000000000) (0 : K) then
          if isclose p1x p0x ((1 : K) / 1000000000) (0 : K) then
            if (line_tOfPoint_sworn_v p0x p0y p1x p1y p0x ((((q1y - q0y) / (q1x - q0x)) * (p0x - q0x)) + q0y)) < ((1 : K) / 5000000) then
              []
            else
              if (line_tOfPoint_sworn_v p0x p0y p1x p1y p0x ((((q1y - q0y) / (q1x - q0x)) * (p0x - q0x)) + q0y)) > ((5000001 : K) / 5000000) then
                []
              else
                if (line_tOfPoint_sworn_v q0x q0y q1x q1y p0x ((((q1y - q0y) / (q1x - q0x)) * (p0x - q0x)) + q0y)) < ((1 : K) / 5000000) then
                  []
                else
                  if (line_tOfPoint_sworn_v q0x q0y q1x q1y p0x ((((q1y - q0y) / (q1x - q0x)) * (p0x - q0x)) + q0y)) > ((5000001 : K) / 5000000) then
                    []
                  else
                    let v0 := ((((q1y - q0y) / (q1x - q0x)) * (p0x - q0x)) + q0y)
                    [(line_tOfPoint_sworn_v p0x p0y p1x p1y p0x v0), (line_tOfPoint_sworn_v q0x q0y q1x q1y p0x v0)]
          else
            if |(((p1y - p0y) / (p1x - p0x)) - ((q1y - q0y) / (q1x - q0x)))| < ((1 : K) / 5000000) then
              []
            else
              if (((((((((p1y - p0y) / (p1x - p0x)) * p0x) - p0y) - (((q1y - q0y) / (q1x - q0x)) * q0x)) + q0y) / (((p1y - p0y) / (p1x - p0x)) - ((q1y - q0y) / (q1x - q0x)))) - p0x) * (p1x - p0x)) ≤ (0 : K) then
                if ((((((p1y - p0y) / (p1x - p0x)) * ((((((((p1y - p0y) / (p1x - p0x)) * p0x) - p0y) - (((q1y - q0y) / (q1x - q0x)) * q0x)) + q0y) / (((p1y - p0y) / (p1x - p0x)) - ((q1y - q0y) / (q1x - q0x)))) - p0x)) + p0y) - p0y) * (p1y - p0y)) ≤ (0 : K) then
                  []
                else
                  if (((((((((p1y - p0y) / (p1x - p0x)) * p0x) - p0y) - (((q1y - q0y) / (q1x - q0x)) * q0x)) + q0y) / (((p1y - p0y) / (p1x - p0x)) - ((q1y - q0y) / (q1x - q0x)))) - q1x) * (q0x - q1x)) ≤ (0 : K) then
                    if ((((((p1y - p0y) / (p1x - p0x)) * ((((((((p1y - p0y) / (p1x - p0x)) * p0x) - p0y) - (((q1y - q0y) / (q1x - q0x)) * q0x)) + q0y) / (((p1y - p0y) / (p1x - p0x)) - ((q1y - q0y) / (q1x - q0x)))) - p0x)) + p0y) - q1y) * (q0y - q1y)) ≤ (0 : K) then
                      []
                    else
                      if (line_tOfPoint_sworn_v p0x p0y p1x p1y (((((((p1y - p0y) / (p1x - p0x)) * p0x) - p0y) - (((q1y - q0y) / (q1x - q0x)) * q0x)) + q0y) / (((p1y - p0y) / (p1x - p0x)) - ((q1y - q0y) / (q1x - q0x)))) ((((p1y - p0y) / (p1x - p0x)) * ((((((((p1y - p0y) / (p1x - p0x)) * p0x) - p0y) - (((q1y - q0y) / (q1x - q0x)) * q0x)) + q0y) / (((p1y - p0y) / (p1x - p0x)) - ((q1y - q0y) / (q1x - q0x)))) - p0x)) + p0y)) < ((1 : K) / 5000000) then
                        []
                      else
                        if (line_tOfPoint_sworn_v p0x p0y p1x p1y (((((((p1y - p0y) / (p1x - p0x)) * p0x) - p0y) - (((q1y - q0y) / (q1x - q0x)) * q0x)) + q0y) / (((p1y - p0y) / (p1x - p0x)) - ((q1y - q0y) / (q1x - q0x)))) ((((p1y - p0y) / (p1x - p0x)) * ((((((((p1y - p0y) / (p1x - p0x)) * p0x) - p0y) - (((q1y - q0y) / (q1x - q0x)) * q0x)) + q0y) / (((p1y - p0y) / (p1x - p0x)) - ((q1y - q0y) / (q1x - q0x)))) - p0x)) + p0y)) > ((5000001 : K) / 5000000) then
                          []
                        else
                          if (line_tOfPoint_sworn_v q0x q0y q1x q1y (((((((p1y - p0y) / (p1x - p0x)) * p0x) - p0y) - (((q1y - q0y) / (q1x - q0x)) * q0x)) + q0y) / (((p1y - p0y) / (p1x - p0x)) - ((q1y - q0y) / (q1x - q0x)))) ((((p1y - p0y) / (p1x - p0x)) * ((((((((p1y - p0y) / (p1x - p0x)) * p0x) - p0y) - (((q1y - q0y) / (q1x - q0x)) * q0x)) + q0y) / (((p1y - p0y) / (p1x - p0x)) - ((q1y - q0y) / (q1x - q0x)))) - p0x)) + p0y)) < ((1 : K) / 5000000) then
                            []
                          else
                            if (line_tOfPoint_sworn_v q0x q0y q1x q1y (((((((p1y - p0y) / (p1x - p0x)) * p0x) - p0y) - (((q1y - q0y) / (q1x - q0x)) * q0x)) + q0y) / (((p1y - p0y) / (p1x - p0x)) - ((q1y - q0y) / (q1x - q0x)))) ((((p1y - p0y) / (p1x - p0x)) * ((((((((p1y - p0y) / (p1x - p0x)) * p0x) - p0y) - (((q1y - q0y) / (q1x - q0x)) * q0x)) + q0y) / (((p1y - p0y) / (p1x - p0x)) - ((q1y - q0y) / (q1x - q0x)))) - p0x)) + p0y)) > ((5000001 : K) / 5000000) then
                              []
                            else
                              let v0 := ((p1y - p0y) / (p1x - p0x))
                              let v1 := ((q1y - q0y) / (q1x - q0x))
                              let v2 := (((((v0 * p0x) - p0y) - (v1 * q0x)) + q0y) / (v0 - v1))
                              let v3 := ((v0 * (v2 - p0x)) + p0y)
                              [(line_tOfPoint_sworn_v p0x p0y p1x p1y v2 v3), (line_tOfPoint_sworn_v q0x q0y q1x q1y v2 v3)]
                  else
                    if (line_tOfPoint_sworn_v p0x p0y p1x p1y (((((((p1y - p0y) / (p1x - p0x)) * p0x) - p0y) - (((q1y - q0y) / (q1x - q0x)) * q0x)) + q0y) / (((p1y - p0y) / (p1x - p0x)) - ((q1y - q0y) / (q1x - q0x)))) ((((p1y - p0y) / (p1x - p0x)) * ((((((((p1y - p0y) / (p1x - p0x)) * p0x) - p0y) - (((q1y - q0y) / (q1x - q0x)) * q0x)) + q0y) / (((p1y - p0y) / (p1x - p0x)) - ((q1y - q0y) / (q1x - q0x)))) - p0x)) + p0y)) < ((1 : K) / 5000000) then
                      []
                    else
                      if (line_tOfPoint_sworn_v p0x p0y p1x p1y (((((((p1y - p0y) / (p1x - p0x)) * p0x) - p0y) - (((q1y - q0y) / (q1x - q0x)) * q0x)) + q0y) / (((p1y - p0y) / (p1x - p0x)) - ((q1y - q0y) / (q1x - q0x)))) ((((p1y - p0y) / (p1x - p0x)) * ((((((((p1y - p0y) / (p1x - p0x)) * p0x) - p0y) - (((q1y - q0y) / (q1x - q0x)) * q0x)) + q0y) / (((p1y - p0y) / (p1x - p0x)) - ((q1y - q0y) / (q1x - q0x)))) - p0x)) + p0y)) > ((5000001 : K) / 5000000) then
                        []
                      else
                        if (line_tOfPoint_sworn_v q0x q0y q1x q1y (((((((p1y - p0y) / (p1x - p0x)) * p0x) - p0y) - (((q1y - q0y) / (q1x - q0x)) * q0x)) + q0y) / (((p1y - p0y) / (p1x - p0x)) - ((q1y - q0y) / (q1x - q0x)))) ((((p1y - p0y) / (p1x - p0x)) * ((((((((p1y - p0y) / (p1x - p0x)) * p0x) - p0y) - (((q1y - q0y) / (q1x - q0x)) * q0x)) + q0y) / (((p1y - p0y) / (p1x - p0x)) - ((q1y - q0y) / (q1x - q0x)))) - p0x)) + p0y)) < ((1 : K) / 5000000) then
                          []
                        else
                          if (line_tOfPoint_sworn_v q0x q0y q1x q1y (((((((p1y - p0y) / (p1x - p0x)) * p0x) - p0y) - (((q1y - q0y) / (q1x - q0x)) * q0x)) + q0y) / (((p1y - p0y) / (p1x - p0x)) - ((q1y - q0y) / (q1x - q0x)))) ((((p1y - p0y) / (p1x - p0x)) * ((((((((p1y - p0y) / (p1x - p0x)) * p0x) - p0y) - (((q1y - q0y) / (q1x - q0x)) * q0x)) + q0y) / (((p1y - p0y) / (p1x - p0x)) - ((q1y - q0y) / (q1x - q0x)))) - p0x)) + p0y)) > ((5000001 : K) / 5000000) then
                            []
                          else
                            let v0 := ((p1y - p0y) / (p1x - p0x))
                            let v1 := ((q1y - q0y) / (q1x - q0x))
                            let v2 := (((((v0 * p0x) - p0y) - (v1 * q0x)) + q0y) / (v0 - v1))
                            let v3 := ((v0 * (v2 - p0x)) + p0y)
                            [(line_tOfPoint_sworn_v p0x p0y p1x p1y v2 v3), (line_tOfPoint_sworn_v q0x q0y q1x q1y v2 v3)]
              else
                if (((((((((p1y - p0y) / (p1x - p0x)) * p0x) - p0y) - (((q1y - q0y) / (q1x - q0x)) * q0x)) + q0y) / (((p1y - p0y) / (p1x - p0x)) - ((q1y - q0y) / (q1x - q0x)))) - q1x) * (q0x - q1x)) ≤ (0 : K) then
                  if ((((((p1y - p0y) / (p1x - p0x)) * ((((((((p1y - p0y) / (p1x - p0x)) * p0x) - p0y) - (((q1y - q0y) / (q1x - q0x)) * q0x)) + q0y) / (((p1y - p0y) / (p1x - p0x)) - ((q1y - q0y) / (q1x - q0x)))) - p0x)) + p0y) - q1y) * (q0y - q1y)) ≤ (0 : K) then
                    []
                  else
                    if (line_tOfPoint_sworn_v p0x p0y p1x p1y (((((((p1y - p0y) / (p1x - p0x)) * p0x) - p0y) - (((q1y - q0y) / (q1x - q0x)) * q0x)) + q0y) / (((p1y - p0y) / (p1x - p0x)) - ((q1y - q0y) / (q1x - q0x)))) ((((p1y - p0y) / (p1x - p0x)) * ((((((((p1y - p0y) / (p1x - p0x)) * p0x) - p0y) - (((q1y - q0y) / (q1x - q0x)) * q0x)) + q0y) / (((p1y - p0y) / (p1x - p0x)) - ((q1y - q0y) / (q1x - q0x)))) - p0x)) + p0y)) < ((1 : K) / 5000000) then
                      []
                    else
                      if (line_tOfPoint_sworn_v p0x p0y p1x p1y (((((((p1y - p0y) / (p1x - p0x)) * p0x) - p0y) - (((q1y - q0y) / (q1x - q0x)) * q0x)) + q0y) / (((p1y - p0y) / (p1x - p0x)) - ((q1y - q0y) / (q1x - q0x)))) ((((p1y - p0y) / (p1x - p0x)) * ((((((((p1y - p0y) / (p1x - p0x)) * p0x) - p0y) - (((q1y - q0y) / (q1x - q0x)) * q0x)) + q0y) / (((p1y - p0y) / (p1x - p0x)) - ((q1y - q0y) / (q1x - q0x)))) - p0x)) + p0y)) > ((5000001 : K) / 5000000) then
                        []
                      else
                        if (line_tOfPoint_sworn_v q0x q0y q1x q1y (((((((p1y - p0y) / (p1x - p0x)) * p0x) - p0y) - (((q1y - q0y) / (q1x - q0x)) * q0x)) + q0y) / (((p1y - p0y) / (p1x - p0x)) - ((q1y - q0y) / (q1x - q0x)))) ((((p1y - p0y) / (p1x - p0x)) * ((((((((p1y - p0y) / (p1x - p0x)) * p0x) - p0y) - (((q1y - q0y) / (q1x - q0x)) * q0x)) + q0y) / (((p1y - p0y) / (p1x - p0x)) - ((q1y - q0y) / (q1x - q0x)))) - p0x)) + p0y)) < ((1 : K) / 5000000) then
                          []
                        else
                          if (line_tOfPoint_sworn_v q0x q0y q1x q1y (((((((p1y - p0y) / (p1x - p0x)) * p0x) - p0y) - (((q1y - q0y) / (q1x - q0x)) * q0x)) + q0y) / (((p1y - p0y) / (p1x - p0x)) - ((q1y - q0y) / (q1x - q0x)))) ((((p1y - p0y) / (p1x - p0x)) * ((((((((p1y - p0y) / (p1x - p0x)) * p0x) - p0y) - (((q1y - q0y) / (q1x - q0x)) * q0x)) + q0y) / (((p1y - p0y) / (p1x - p0x)) - ((q1y - q0y) / (q1x - q0x)))) - p0x)) + p0y)) > ((5000001 : K) / 5000000) then
                            []
                          else
                            let v0 := ((p1y - p0y) / (p1x - p0x))
                            let v1 := ((q1y - q0y) / (q1x - q0x))
                            let v2 := (((((v0 * p0x) - p0y) - (v1 * q0x)) + q0y) / (v0 - v1))
                            let v3 := ((v0 * (v2 - p0x)) + p0y)
                            [(line_tOfPoint_sworn_v p0x p0y p1x p1y v2 v3), (line_tOfPoint_sworn_v q0x q0y q1x q1y v2 v3)]
                else
                  if (line_tOfPoint_sworn_v p0x p0y p1x p1y (((((((p1y - p0y) / (p1x - p0x)) * p0x) - p0y) - (((q1y - q0y) / (q1x - q0x)) * q0x)) + q0y) / (((p1y - p0y) / (p1x - p0x)) - ((q1y - q0y) / (q1x - q0x)))) ((((p1y - p0y) / (p1x - p0x)) * ((((((((p1y - p0y) / (p1x - p0x)) * p0x) - p0y) - (((q1y - q0y) / (q1x - q0x)) * q0x)) + q0y) / (((p1y - p0y) / (p1x - p0x)) - ((q1y - q0y) / (q1x - q0x)))) - p0x)) + p0y)) < ((1 : K) / 5000000) then
                    []
                  else
                    if (line_tOfPoint_sworn_v p0x p0y p1x p1y (((((((p1y - p0y) / (p1x - p0x)) * p0x) - p0y) - (((q1y - q0y) / (q1x - q0x)) * q0x)) + q0y) / (((p1y - p0y) / (p1x - p0x)) - ((q1y - q0y) / (q1x - q0x)))) ((((p1y - p0y) / (p1x - p0x)) * ((((((((p1y - p0y) / (p1x - p0x)) * p0x) - p0y) - (((q1y - q0y) / (q1x - q0x)) * q0x)) + q0y) / (((p1y - p0y) / (p1x - p0x)) - ((q1y - q0y) / (q1x - q0x)))) - p0x)) + p0y)) > ((5000001 : K) / 5000000) then
                      []
                    else
                      if (line_tOfPoint_sworn_v q0x q0y q1x q1y (((((((p1y - p0y) / (p1x - p0x)) * p0x) - p0y) - (((q1y - q0y) / (q1x - q0x)) * q0x)) + q0y) / (((p1y - p0y) / (p1x - p0x)) - ((q1y - q0y) / (q1x - q0x)))) ((((p1y - p0y) / (p1x - p0x)) * ((((((((p1y - p0y) / (p1x - p0x)) * p0x) - p0y) - (((q1y - q0y) / (q1x - q0x)) * q0x)) + q0y) / (((p1y - p0y) / (p1x - p0x)) - ((q1y - q0y) / (q1x - q0x)))) - p0x)) + p0y)) < ((1 : K) / 5000000) then
                        []
                      else
                        if (line_tOfPoint_sworn_v q0x q0y q1x q1y (((((((p1y - p0y) / (p1x - p0x)) * p0x) - p0y) - (((q1y - q0y) / (q1x - q0x)) * q0x)) + q0y) / (((p1y - p0y) / (p1x - p0x)) - ((q1y - q0y) / (q1x - q0x)))) ((((p1y - p0y) / (p1x - p0x)) * ((((((((p1y - p0y) / (p1x - p0x)) * p0x) - p0y) - (((q1y - q0y) / (q1x - q0x)) * q0x)) + q0y) / (((p1y - p0y) / (p1x - p0x)) - ((q1y - q0y) / (q1x - q0x)))) - p0x)) + p0y)) > ((5000001 : K) / 5000000) then
                          []
                        else
                          let v0 := ((p1y - p0y) / (p1x - p0x))
                          let v1 := ((q1y - q0y) / (q1x - q0x))
                          let v2 := (((((v0 * p0x) - p0y) - (v1 * q0x)) + q0y) / (v0 - v1))
                          let v3 := ((v0 * (v2 - p0x)) + p0y)
                          [(line_tOfPoint_sworn_v p0x p0y p1x p1y v2 v3), (line_tOfPoint_sworn_v q0x q0y q1x q1y v2 v3)]
        else
          if isclose p1x p0x ((1 : K) / 1000000000) (0 : K) then
            if (line_tOfPoint_sworn_v p0x p0y p1x p1y p0x ((((q1y - q0y) / (q1x - q0x)) * (p0x - q0x)) + q0y)) < ((1 : K) / 5000000) then
              []
            else
              if (line_tOfPoint_sworn_v p0x p0y p1x p1y p0x ((((q1y - q0y) / (q1x - q0x)) * (p0x - q0x)) + q0y)) > ((5000001 : K) / 5000000) then
                []
              else
                if (line_tOfPoint_sworn_v q0x q0y q1x q1y p0x ((((q1y - q0y) / (q1x - q0x)) * (p0x - q0x)) + q0y)) < ((1 : K) / 5000000) then
                  []
                else
                  if (line_tOfPoint_sworn_v q0x q0y q1x q1y p0x ((((q1y - q0y) / (q1x - q0x)) * (p0x - q0x)) + q0y)) > ((5000001 : K) / 5000000) then
                    []
                  else
                    let v0 := ((((q1y - q0y) / (q1x - q0x)) * (p0x - q0x)) + q0y)
                    [(line_tOfPoint_sworn_v p0x p0y p1x p1y p0x v0), (line_tOfPoint_sworn_v q0x q0y q1x q1y p0x v0)]
          else
            if |(((p1y - p0y) / (p1x - p0x)) - ((q1y - q0y) / (q1x - q0x)))| < ((1 : K) / 5000000) then
              []
            else
              if (((((((((p1y - p0y) / (p1x - p0x)) * p0x) - p0y) - (((q1y - q0y) / (q1x - q0x)) * q0x)) + q0y) / (((p1y - p0y) / (p1x - p0x)) - ((q1y - q0y) / (q1x - q0x)))) - p0x) * (p1x - p0x)) ≤ (0 : K) then
                if ((((((p1y - p0y) / (p1x - p0x)) * ((((((((p1y - p0y) / (p1x - p0x)) * p0x) - p0y) - (((q1y - q0y) / (q1x - q0x)) * q0x)) + q0y) / (((p1y - p0y) / (p1x - p0x)) - ((q1y - q0y) / (q1x - q0x)))) - p0x)) + p0y) - p0y) * (p1y - p0y)) ≤ (0 : K) then
                  []
                else
                  if (((((((((p1y - p0y) / (p1x - p0x)) * p0x) - p0y) - (((q1y - q0y) / (q1x - q0x)) * q0x)) + q0y) / (((p1y - p0y) / (p1x - p0x)) - ((q1y - q0y) / (q1x - q0x)))) - q1x) * (q0x - q1x)) ≤ (0 : K) then
                    if ((((((p1y - p0y) / (p1x - p0x)) * ((((((((p1y - p0y) / (p1x - p0x)) * p0x) - p0y) - (((q1y - q0y) / (q1x - q0x)) * q0x)) + q0y) / (((p1y - p0y) / (p1x - p0x)) - ((q1y - q0y) / (q1x - q0x)))) - p0x)) + p0y) - q1y) * (q0y - q1y)) ≤ (0 : K) then
                      []
                    else
                      if (line_tOfPoint_sworn_v p0x p0y p1x p1y (((((((p1y - p0y) / (p1x - p0x)) * p0x) - p0y) - (((q1y - q0y) / (q1x - q0x)) * q0x)) + q0y) / (((p1y - p0y) / (p1x - p0x)) - ((q1y - q0y) / (q1x - q0x)))) ((((p1y - p0y) / (p1x - p0x)) * ((((((((p1y - p0y) / (p1x - p0x)) * p0x) - p0y) - (((q1y - q0y) / (q1x - q0x)) * q0x)) + q0y) / (((p1y - p0y) / (p1x - p0x)) - ((q1y - q0y) / (q1x - q0x)))) - p0x)) + p0y)) < ((1 : K) / 5000000) then
                        []
                      else
                        if (line_tOfPoint_sworn_v p0x p0y p1x p1y (((((((p1y - p0y) / (p1x - p0x)) * p0x) - p0y) - (((q1y - q0y) / (q1x - q0x)) * q0x)) + q0y) / (((p1y - p0y) / (p1x - p0x)) - ((q1y - q0y) / (q1x - q0x)))) ((((p1y - p0y) / (p1x - p0x)) * ((((((((p1y - p0y) / (p1x - p0x)) * p0x) - p0y) - (((q1y - q0y) / (q1x - q0x)) * q0x)) + q0y) / (((p1y - p0y) / (p1x - p0x)) - ((q1y - q0y) / (q1x - q0x)))) - p0x)) + p0y)) > ((5000001 : K) / 5000000) then
                          []
                        else
                          if (line_tOfPoint_sworn_v q0x q0y q1x q1y (((((((p1y - p0y) / (p1x - p0x)) * p0x) - p0y) - (((q1y - q0y) / (q1x - q0x)) * q0x)) + q0y) / (((p1y - p0y) / (p1x - p0x)) - ((q1y - q0y) / (q1x - q0x)))) ((((p1y - p0y) / (p1x - p0x)) * ((((((((p1y - p0y) / (p1x - p0x)) * p0x) - p0y) - (((q1y - q0y) / (q1x - q0x)) * q0x)) + q0y) / (((p1y - p0y) / (p1x - p0x)) - ((q1y - q0y) / (q1x - q0x)))) - p0x)) + p0y)) < ((1 : K) / 5000000) then
                            []
                          else
                            if (line_tOfPoint_sworn_v q0x q0y q1x q1y (((((((p1y - p0y) / (p1x - p0x)) * p0x) - p0y) - (((q1y - q0y) / (q1x - q0x)) * q0x)) + q0y) / (((p1y - p0y) / (p1x - p0x)) - ((q1y - q0y) / (q1x - q0x)))) ((((p1y - p0y) / (p1x - p0x)) * ((((((((p1y - p0y) / (p1x - p0x)) * p0x) - p0y) - (((q1y - q0y) / (q1x - q0x)) * q0x)) + q0y) / (((p1y - p0y) / (p1x - p0x)) - ((q1y - q0y) / (q1x - q0x)))) - p0x)) + p0y)) > ((5000001 : K) / 5000000) then
                              []
                            else
                              let v0 := ((p1y - p0y) / (p1x - p0x))
                              let v1 := ((q1y - q0y) / (q1x - q0x))
                              let v2 := (((((v0 * p0x) - p0y) - (v1 * q0x)) + q0y) / (v0 - v1))
                              let v3 := ((v0 * (v2 - p0x)) + p0y)
                              [(line_tOfPoint_sworn_v p0x p0y p1x p1y v2 v3), (line_tOfPoint_sworn_v q0x q0y q1x q1y v2 v3)]
                  else
                    if (line_tOfPoint_sworn_v p0x p0y p1x p1y (((((((p1y - p0y) / (p1x - p0x)) * p0x) - p0y) - (((q1y - q0y) / (q1x - q0x)) * q0x)) + q0y) / (((p1y - p0y) / (p1x - p0x)) - ((q1y - q0y) / (q1x - q0x)))) ((((p1y - p0y) / (p1x - p0x)) * ((((((((p1y - p0y) / (p1x - p0x)) * p0x) - p0y) - (((q1y - q0y) / (q1x - q0x)) * q0x)) + q0y) / (((p1y - p0y) / (p1x - p0x)) - ((q1y - q0y) / (q1x - q0x)))) - p0x)) + p0y)) < ((1 : K) / 5000000) then
                      []
                    else
                      if (line_tOfPoint_sworn_v p0x p0y p1x p1y (((((((p1y - p0y) / (p1x - p0x)) * p0x) - p0y) - (((q1y - q0y) / (q1x - q0x)) * q0x)) + q0y) / (((p1y - p0y) / (p1x - p0x)) - ((q1y - q0y) / (q1x - q0x)))) ((((p1y - p0y) / (p1x - p0x)) * ((((((((p1y - p0y) / (p1x - p0x)) * p0x) - p0y) - (((q1y - q0y) / (q1x - q0x)) * q0x)) + q0y) / (((p1y - p0y) / (p1x - p0x)) - ((q1y - q0y) / (q1x - q0x)))) - p0x)) + p0y)) > ((5000001 : K) / 5000000) then
                        []
                      else
                        if (line_tOfPoint_sworn_v q0x q0y q1x q1y (((((((p1y - p0y) / (p1x - p0x)) * p0x) - p0y) - (((q1y - q0y) / (q1x - q0x)) * q0x)) + q0y) / (((p1y - p0y) / (p1x - p0x)) - ((q1y - q0y) / (q1x - q0x)))) ((((p1y - p0y) / (p1x - p0x)) * ((((((((p1y - p0y) / (p1x - p0x)) * p0x) - p0y) - (((q1y - q0y) / (q1x - q0x)) * q0x)) + q0y) / (((p1y - p0y) / (p1x - p0x)) - ((q1y - q0y) / (q1x - q0x)))) - p0x)) + p0y)) < ((1 : K) / 5000000) then
                          []
                        else
                          if (line_tOfPoint_sworn_v q0x q0y q1x q1y (((((((p1y - p0y) / (p1x - p0x)) * p0x) - p0y) - (((q1y - q0y) / (q1x - q0x)) * q0x)) + q0y) / (((p1y - p0y) / (p1x - p0x)) - ((q1y - q0y) / (q1x - q0x)))) ((((p1y - p0y) / (p1x - p0x)) * ((((((((p1y - p0y) / (p1x - p0x)) * p0x) - p0y) - (((q1y - q0y) / (q1x - q0x)) * q0x)) + q0y) / (((p1y - p0y) / (p1x - p0x)) - ((q1y - q0y) / (q1x - q0x)))) - p0x)) + p0y)) > ((5000001 : K) / 5000000) then
                            []
                          else
                            let v0 := ((p1y - p0y) / (p1x - p0x))
                            let v1 := ((q1y - q0y) / (q1x - q0x))
                            let v2 := (((((v0 * p0x) - p0y) - (v1 * q0x)) + q0y) / (v0 - v1))
                            let v3 := ((v0 * (v2 - p0x)) + p0y)
                            [(line_tOfPoint_sworn_v p0x p0y p1x p1y v2 v3), (line_tOfPoint_sworn_v q0x q0y q1x q1y v2 v3)]
              else
                if (((((((((p1y - p0y) / (p1x - p0x)) * p0x) - p0y) - (((q1y - q0y) / (q1x - q0x)) * q0x)) + q0y) / (((p1y - p0y) / (p1x - p0x)) - ((q1y - q0y) / (q1x - q0x)))) - q1x) * (q0x - q1x)) ≤ (0 : K) then
                  if ((((((p1y - p0y) / (p1x - p0x)) * ((((((((p1y - p0y) / (p1x - p0x)) * p0x) - p0y) - (((q1y - q0y) / (q1x - q0x)) * q0x)) + q0y) / (((p1y - p0y) / (p1x - p0x)) - ((q1y - q0y) / (q1x - q0x)))) - p0x)) + p0y) - q1y) * (q0y - q1y)) ≤ (0 : K) then
                    []
                  else
                    if (line_tOfPoint_sworn_v p0x p0y p1x p1y (((((((p1y - p0y) / (p1x - p0x)) * p0x) - p0y) - (((q1y - q0y) / (q1x - q0x)) * q0x)) + q0y) / (((p1y - p0y) / (p1x - p0x)) - ((q1y - q0y) / (q1x - q0x)))) ((((p1y - p0y) / (p1x - p0x)) * ((((((((p1y - p0y) / (p1x - p0x)) * p0x) - p0y) - (((q1y - q0y) / (q1x - q0x)) * q0x)) + q0y) / (((p1y - p0y) / (p1x - p0x)) - ((q1y - q0y) / (q1x - q0x)))) - p0x)) + p0y)) < ((1 : K) / 5000000) then
                      []
                    else
                      if (line_tOfPoint_sworn_v p0x p0y p1x p1y (((((((p1y - p0y) / (p1x - p0x)) * p0x) - p0y) - (((q1y - q0y) / (q1x - q0x)) * q0x)) + q0y) / (((p1y - p0y) / (p1x - p0x)) - ((q1y - q0y) / (q1x - q0x)))) ((((p1y - p0y) / (p1x - p0x)) * ((((((((p1y - p0y) / (p1x - p0x)) * p0x) - p0y) - (((q1y - q0y) / (q1x - q0x)) * q0x)) + q0y) / (((p1y - p0y) / (p1x - p0x)) - ((q1y - q0y) / (q1x - q0x)))) - p0x)) + p0y)) > ((5000001 : K) / 5000000) then
                        []
                      else
                        if (line_tOfPoint_sworn_v q0x q0y q1x q1y (((((((p1y - p0y) / (p1x - p0x)) * p0x) - p0y) - (((q1y - q0y) / (q1x - q0x)) * q0x)) + q0y) / (((p1y - p0y) / (p1x - p0x)) - ((q1y - q0y) / (q1x - q0x)))) ((((p1y - p0y) / (p1x - p0x)) * ((((((((p1y - p0y) / (p1x - p0x)) * p0x) - p0y) - (((q1y - q0y) / (q1x - q0x)) * q0x)) + q0y) / (((p1y - p0y) / (p1x - p0x)) - ((q1y - q0y) / (q1x - q0x)))) - p0x)) + p0y)) < ((1 : K) / 5000000) then
                          []
                        else
                          if (line_tOfPoint_sworn_v q0x q0y q1x q1y (((((((p1y - p0y) / (p1x - p0x)) * p0x) - p0y) - (((q1y - q0y) / (q1x - q0x)) * q0x)) + q0y) / (((p1y - p0y) / (p1x - p0x)) - ((q1y - q0y) / (q1x - q0x)))) ((((p1y - p0y) / (p1x - p0x)) * ((((((((p1y - p0y) / (p1x - p0x)) * p0x) - p0y) - (((q1y - q0y) / (q1x - q0x)) * q0x)) + q0y) / (((p1y - p0y) / (p1x - p0x)) - ((q1y - q0y) / (q1x - q0x)))) - p0x)) + p0y)) > ((5000001 : K) / 5000000) then
                            []
                          else
                            let v0 := ((p1y - p0y) / (p1x - p0x))
                            let v1 := ((q1y - q0y) / (q1x - q0x))
                            let v2 := (((((v0 * p0x) - p0y) - (v1 * q0x)) + q0y) / (v0 - v1))
                            let v3 := ((v0 * (v2 - p0x)) + p0y)
                            [(line_tOfPoint_sworn_v p0x p0y p1x p1y v2 v3), (line_tOfPoint_sworn_v q0x q0y q1x q1y v2 v3)]
                else
                  if (line_tOfPoint_sworn_v p0x p0y p1x p1y (((((((p1y - p0y) / (p1x - p0x)) * p0x) - p0y) - (((q1y - q0y) / (q1x - q0x)) * q0x)) + q0y) / (((p1y - p0y) / (p1x - p0x)) - ((q1y - q0y) / (q1x - q0x)))) ((((p1y - p0y) / (p1x - p0x)) * ((((((((p1y - p0y) / (p1x - p0x)) * p0x) - p0y) - (((q1y - q0y) / (q1x - q0x)) * q0x)) + q0y) / (((p1y - p0y) / (p1x - p0x)) - ((q1y - q0y) / (q1x - q0x)))) - p0x)) + p0y)) < ((1 : K) / 5000000) then
                    []
                  else
                    if (line_tOfPoint_sworn_v p0x p0y p1x p1y (((((((p1y - p0y) / (p1x - p0x)) * p0x) - p0y) - (((q1y - q0y) / (q1x - q0x)) * q0x)) + q0y) / (((p1y - p0y) / (p1x - p0x)) - ((q1y - q0y) / (q1x - q0x)))) ((((p1y - p0y) / (p1x - p0x)) * ((((((((p1y - p0y) / (p1x - p0x)) * p0x) - p0y) - (((q1y - q0y) / (q1x - q0x)) * q0x)) + q0y) / (((p1y - p0y) / (p1x - p0x)) - ((q1y - q0y) / (q1x - q0x)))) - p0x)) + p0y)) > ((5000001 : K) / 5000000) then
                      []
                    else
                      if (line_tOfPoint_sworn_v q0x q0y q1x q1y (((((((p1y - p0y) / (p1x - p0x)) * p0x) - p0y) - (((q1y - q0y) / (q1x - q0x)) * q0x)) + q0y) / (((p1y - p0y) / (p1x - p0x)) - ((q1y - q0y) / (q1x - q0x)))) ((((p1y - p0y) / (p1x - p0x)) * ((((((((p1y - p0y) / (p1x - p0x)) * p0x) - p0y) - (((q1y - q0y) / (q1x - q0x)) * q0x)) + q0y) / (((p1y - p0y) / (p1x - p0x)) - ((q1y - q0y) / (q1x - q0x)))) - p0x)) + p0y)) < ((1 : K) / 5000000) then
                        []
                      else
                        if (line_tOfPoint_sworn_v q0x q0y q1x q1y (((((((p1y - p0y) / (p1x - p0x)) * p0x) - p0y) - (((q1y - q0y) / (q1x - q0x)) * q0x)) + q0y) / (((p1y - p0y) / (p1x - p0x)) - ((q1y - q0y) / (q1x - q0x)))) ((((p1y - p0y) / (p1x - p0x)) * ((((((((p1y - p0y) / (p1x - p0x)) * p0x) - p0y) - (((q1y - q0y) / (q1x - q0x)) * q0x)) + q0y) / (((p1y - p0y) / (p1x - p0x)) - ((q1y - q0y) / (q1x - q0x)))) - p0x)) + p0y)) > ((5000001 : K) / 5000000) then
                          []
                        else
                          let v0 := ((p1y - p0y) / (p1x - p0x))
                          let v1 := ((q1y - q0y) / (q1x - q0x))
                          let v2 := (((((v0 * p0x) - p0y) - (v1 * q0x)) + q0y) / (v0 - v1))
                          let v3 := ((v0 * (v2 - p0x)) + p0y)
                          [(line_tOfPoint_sworn_v p0x p0y p1x p1y v2 v3), (line_tOfPoint_sworn_v q0x q0y q1x q1y v2 v3)]
    else
      if isclose p0x p1x ((1 : K) / 1000000000) (0 : K) then
        if isclose p0y p1y ((1 : K) / 1000000000) (0 : K) then
          []
        else
          if isclose p1x p0x ((1 : K) / 1000000000) (0 : K) then
            if (line_tOfPoint_sworn_v p0x p0y p1x p1y p0x ((((q1y - q0y) / (q1x - q0x)) * (p0x - q0x)) + q0y)) < ((1 : K) / 5000000) then
              []
            else
              if (line_tOfPoint_sworn_v p0x p0y p1x p1y p0x ((((q1y - q0y) / (q1x - q0x)) * (p0x - q0x)) + q0y)) > ((5000001 : K) / 5000000) then
                []
              else
                if (line_tOfPoint_sworn_v q0x q0y q1x q1y p0x ((((q1y - q0y) / (q1x - q0x)) * (p0x - q0x)) + q0y)) < ((1 : K) / 5000000) then
                  []
                else
                  if (line_tOfPoint_sworn_v q0x q0y q1x q1y p0x ((((q1y - q0y) / (q1x - q0x)) * (p0x - q0x)) + q0y)) > ((5000001 : K) / 5000000) then
                    []
                  else
                    let v0 := ((((q1y - q0y) / (q1x - q0x)) * (p0x - q0x)) + q0y)
                    [(line_tOfPoint_sworn_v p0x p0y p1x p1y p0x v0), (line_tOfPoint_sworn_v q0x q0y q1x q1y p0x v0)]
          else
            if |(((p1y - p0y) / (p1x - p0x)) - ((q1y - q0y) / (q1x - q0x)))| < ((1 : K) / 5000000) then
              []
            else
              if (((((((((p1y - p0y) / (p1x - p0x)) * p0x) - p0y) - (((q1y - q0y) / (q1x - q0x)) * q0x)) + q0y) / (((p1y - p0y) / (p1x - p0x)) - ((q1y - q0y) / (q1x - q0x)))) - p0x) * (p1x - p0x)) ≤ (0 : K) then
                if ((((((p1y - p0y) / (p1x - p0x)) * ((((((((p1y - p0y) / (p1x - p0x)) * p0x) - p0y) - (((q1y - q0y) / (q1x - q0x)) * q0x)) + q0y) / (((p1y - p0y) / (p1x - p0x)) - ((q1y - q0y) / (q1x - q0x)))) - p0x)) + p0y) - p0y) * (p1y - p0y)) ≤ (0 : K) then
                  []
                else
                  if (((((((((p1y - p0y) / (p1x - p0x)) * p0x) - p0y) - (((q1y - q0y) / (q1x - q0x)) * q0x)) + q0y) / (((p1y - p0y) / (p1x - p0x)) - ((q1y - q0y) / (q1x - q0x)))) - q1x) * (q0x - q1x)) ≤ (0 : K) then
                    if ((((((p1y - p0y) / (p1x - p0x)) * ((((((((p1y - p0y) / (p1x - p0x)) * p0x) - p0y) - (((q1y - q0y) / (q1x - q0x)) * q0x)) + q0y) / (((p1y - p0y) / (p1x - p0x)) - ((q1y - q0y) / (q1x - q0x)))) - p0x)) + p0y) - q1y) * (q0y - q1y)) ≤ (0 : K) then
                      []
                    else
                      if (line_tOfPoint_sworn_v p0x p0y p1x p1y (((((((p1y - p0y) / (p1x - p0x)) * p0x) - p0y) - (((q1y - q0y) / (q1x - q0x)) * q0x)) + q0y) / (((p1y - p0y) / (p1x - p0x)) - ((q1y - q0y) / (q1x - q0x)))) ((((p1y - p0y) / (p1x - p0x)) * ((((((((p1y - p0y) / (p1x - p0x)) * p0x) - p0y) - (((q1y - q0y) / (q1x - q0x)) * q0x)) + q0y) / (((p1y - p0y) / (p1x - p0x)) - ((q1y - q0y) / (q1x - q0x)))) - p0x)) + p0y)) < ((1 : K) / 5000000) then
                        []
                      else
                        if (line_tOfPoint_sworn_v p0x p0y p1x p1y (((((((p1y - p0y) / (p1x - p0x)) * p0x) - p0y) - (((q1y - q0y) / (q1x - q0x)) * q0x)) + q0y) / (((p1y - p0y) / (p1x - p0x)) - ((q1y - q0y) / (q1x - q0x)))) ((((p1y - p0y) / (p1x - p0x)) * ((((((((p1y - p0y) / (p1x - p0x)) * p0x) - p0y) - (((q1y - q0y) / (q1x - q0x)) * q0x)) + q0y) / (((p1y - p0y) / (p1x - p0x)) - ((q1y - q0y) / (q1x - q0x)))) - p0x)) + p0y)) > ((5000001 : K) / 5000000) then
                          []
                        else
                          if (line_tOfPoint_sworn_v q0x q0y q1x q1y (((((((p1y - p0y) / (p1x - p0x)) * p0x) - p0y) - (((q1y - q0y) / (q1x - q0x)) * q0x)) + q0y) / (((p1y - p0y) / (p1x - p0x)) - ((q1y - q0y) / (q1x - q0x)))) ((((p1y - p0y) / (p1x - p0x)) * ((((((((p1y - p0y) / (p1x - p0x)) * p0x) - p0y) - (((q1y - q0y) / (q1x - q0x)) * q0x)) + q0y) / (((p1y - p0y) / (p1x - p0x)) - ((q1y - q0y) / (q1x - q0x)))) - p0x)) + p0y)) < ((1 : K) / 5000000) then
                            []
                          else
                            if (line_tOfPoint_sworn_v q0x q0y q1x q1y (((((((p1y - p0y) / (p1x - p0x)) * p0x) - p0y) - (((q1y - q0y) / (q1x - q0x)) * q0x)) + q0y) / (((p1y - p0y) / (p1x - p0x)) - ((q1y - q0y) / (q1x - q0x)))) ((((p1y - p0y) / (p1x - p0x)) * ((((((((p1y - p0y) / (p1x - p0x)) * p0x) - p0y) - (((q1y - q0y) / (q1x - q0x)) * q0x)) + q0y) / (((p1y - p0y) / (p1x - p0x)) - ((q1y - q0y) / (q1x - q0x)))) - p0x)) + p0y)) > ((5000001 : K) / 5000000) then
                              []
                            else
                              let v0 := ((p1y - p0y) / (p1x - p0x))
                              let v1 := ((q1y - q0y) / (q1x - q0x))
                              let v2 := (((((v0 * p0x) - p0y) - (v1 * q0x)) + q0y) / (v0 - v1))
                              let v3 := ((v0 * (v2 - p0x)) + p0y)
                              [(line_tOfPoint_sworn_v p0x p0y p1x p1y v2 v3), (line_tOfPoint_sworn_v q0x q0y q1x q1y v2 v3)]
                  else
                    if (line_tOfPoint_sworn_v p0x p0y p1x p1y (((((((p1y - p0y) / (p1x - p0x)) * p0x) - p0y) - (((q1y - q0y) / (q1x - q0x)) * q0x)) + q0y) / (((p1y - p0y) / (p1x - p0x)) - ((q1y - q0y) / (q1x - q0x)))) ((((p1y - p0y) / (p1x - p0x)) * ((((((((p1y - p0y) / (p1x - p0x)) * p0x) - p0y) - (((q1y - q0y) / (q1x - q0x)) * q0x)) + q0y) / (((p1y - p0y) / (p1x - p0x)) - ((q1y - q0y) / (q1x - q0x)))) - p0x)) + p0y)) < ((1 : K) / 5000000) then
                      []
                    else
                      if (line_tOfPoint_sworn_v p0x p0y p1x p1y (((((((p1y - p0y) / (p1x - p0x)) * p0x) - p0y) - (((q1y - q0y) / (q1x - q0x)) * q0x)) + q0y) / (((p1y - p0y) / (p1x - p0x)) - ((q1y - q0y) / (q1x - q0x)))) ((((p1y - p0y) / (p1x - p0x)) * ((((((((p1y - p0y) / (p1x - p0x)) * p0x) - p0y) - (((q1y - q0y) / (q1x - q0x)) * q0x)) + q0y) / (((p1y - p0y) / (p1x - p0x)) - ((q1y - q0y) / (q1x - q0x)))) - p0x)) + p0y)) > ((5000001 : K) / 5000000) then
                        []
                      else
                        if (line_tOfPoint_sworn_v q0x q0y q1x q1y (((((((p1y - p0y) / (p1x - p0x)) * p0x) - p0y) - (((q1y - q0y) / (q1x - q0x)) * q0x)) + q0y) / (((p1y - p0y) / (p1x - p0x)) - ((q1y - q0y) / (q1x - q0x)))) ((((p1y - p0y) / (p1x - p0x)) * ((((((((p1y - p0y) / (p1x - p0x)) * p0x) - p0y) - (((q1y - q0y) / (q1x - q0x)) * q0x)) + q0y) / (((p1y - p0y) / (p1x - p0x)) - ((q1y - q0y) / (q1x - q0x)))) - p0x)) + p0y)) < ((1 : K) / 5000000) then
                          []
                        else
                          if (line_tOfPoint_sworn_v q0x q0y q1x q1y (((((((p1y - p0y) / (p1x - p0x)) * p0x) - p0y) - (((q1y - q0y) / (q1x - q0x)) * q0x)) + q0y) / (((p1y - p0y) / (p1x - p0x)) - ((q1y - q0y) / (q1x - q0x)))) ((((p1y - p0y) / (p1x - p0x)) * ((((((((p1y - p0y) / (p1x - p0x)) * p0x) - p0y) - (((q1y - q0y) / (q1x - q0x)) * q0x)) + q0y) / (((p1y - p0y) / (p1x - p0x)) - ((q1y - q0y) / (q1x - q0x)))) - p0x)) + p0y)) > ((5000001 : K) / 5000000) then
                            []
                          else
                            let v0 := ((p1y - p0y) / (p1x - p0x))
                            let v1 := ((q1y - q0y) / (q1x - q0x))
                            let v2 := (((((v0 * p0x) - p0y) - (v1 * q0x)) + q0y) / (v0 - v1))
                            let v3 := ((v0 * (v2 - p0x)) + p0y)
                            [(line_tOfPoint_sworn_v p0x p0y p1x p1y v2 v3), (line_tOfPoint_sworn_v q0x q0y q1x q1y v2 v3)]
              else
                if (((((((((p1y - p0y) / (p1x - p0x)) * p0x) - p0y) - (((q1y - q0y) / (q1x - q0x)) * q0x)) + q0y) / (((p1y - p0y) / (p1x - p0x)) - ((q1y - q0y) / (q1x - q0x)))) - q1x) * (q0x - q1x)) ≤ (0 : K) then
                  if ((((((p1y - p0y) / (p1x - p0x)) * ((((((((p1y - p0y) / (p1x - p0x)) * p0x) - p0y) - (((q1y - q0y) / (q1x - q0x)) * q0x)) + q0y) / (((p1y - p0y) / (p1x - p0x)) - ((q1y - q0y) / (q1x - q0x)))) - p0x)) + p0y) - q1y) * (q0y - q1y)) ≤ (0 : K) then
                    []
                  else
                    if (line_tOfPoint_sworn_v p0x p0y p1x p1y (((((((p1y - p0y) / (p1x - p0x)) * p0x) - p0y) - (((q1y - q0y) / (q1x - q0x)) * q0x)) + q0y) / (((p1y - p0y) / (p1x - p0x)) - ((q1y - q0y) / (q1x - q0x)))) ((((p1y - p0y) / (p1x - p0x)) * ((((((((p1y - p0y) / (p1x - p0x)) * p0x) - p0y) - (((q1y - q0y) / (q1x - q0x)) * q0x)) + q0y) / (((p1y - p0y) / (p1x - p0x)) - ((q1y - q0y) / (q1x - q0x)))) - p0x)) + p0y)) < ((1 : K) / 5000000) then
                      []
                    else
                      if (line_tOfPoint_sworn_v p0x p0y p1x p1y (((((((p1y - p0y) / (p1x - p0x)) * p0x) - p0y) - (((q1y - q0y) / (q1x - q0x)) * q0x)) + q0y) / (((p1y - p0y) / (p1x - p0x)) - ((q1y - q0y) / (q1x - q0x)))) ((((p1y - p0y) / (p1x - p0x)) * ((((((((p1y - p0y) / (p1x - p0x)) * p0x) - p0y) - (((q1y - q0y) / (q1x - q0x)) * q0x)) + q0y) / (((p1y - p0y) / (p1x - p0x)) - ((q1y - q0y) / (q1x - q0x)))) - p0x)) + p0y)) > ((5000001 : K) / 5000000) then
                        []
                      else
                        if (line_tOfPoint_sworn_v q0x q0y q1x q1y (((((((p1y - p0y) / (p1x - p0x)) * p0x) - p0y) - (((q1y - q0y) / (q1x - q0x)) * q0x)) + q0y) / (((p1y - p0y) / (p1x - p0x)) - ((q1y - q0y) / (q1x - q0x)))) ((((p1y - p0y) / (p1x - p0x)) * ((((((((p1y - p0y) / (p1x - p0x)) * p0x) - p0y) - (((q1y - q0y) / (q1x - q0x)) * q0x)) + q0y) / (((p1y - p0y) / (p1x - p0x)) - ((q1y - q0y) / (q1x - q0x)))) - p0x)) + p0y)) < ((1 : K) / 5000000) then
                          []
                        else
                          if (line_tOfPoint_sworn_v q0x q0y q1x q1y (((((((p1y - p0y) / (p1x - p0x)) * p0x) - p0y) - (((q1y - q0y) / (q1x - q0x)) * q0x)) + q0y) / (((p1y - p0y) / (p1x - p0x)) - ((q1y - q0y) / (q1x - q0x)))) ((((p1y - p0y) / (p1x - p0x)) * ((((((((p1y - p0y) / (p1x - p0x)) * p0x) - p0y) - (((q1y - q0y) / (q1x - q0x)) * q0x)) + q0y) / (((p1y - p0y) / (p1x - p0x)) - ((q1y - q0y) / (q1x - q0x)))) - p0x)) + p0y)) > ((5000001 : K) / 5000000) then
                            []
                          else
                            let v0 := ((p1y - p0y) / (p1x - p0x))
                            let v1 := ((q1y - q0y) / (q1x - q0x))
                            let v2 := (((((v0 * p0x) - p0y) - (v1 * q0x)) + q0y) / (v0 - v1))
                            let v3 := ((v0 * (v2 - p0x)) + p0y)
                            [(line_tOfPoint_sworn_v p0x p0y p1x p1y v2 v3), (line_tOfPoint_sworn_v q0x q0y q1x q1y v2 v3)]
                else
                  if (line_tOfPoint_sworn_v p0x p0y p1x p1y (((((((p1y - p0y) / (p1x - p0x)) * p0x) - p0y) - (((q1y - q0y) / (q1x - q0x)) * q0x)) + q0y) / (((p1y - p0y) / (p1x - p0x)) - ((q1y - q0y) / (q1x - q0x)))) ((((p1y - p0y) / (p1x - p0x)) * ((((((((p1y - p0y) / (p1x - p0x)) * p0x) - p0y) - (((q1y - q0y) / (q1x - q0x)) * q0x)) + q0y) / (((p1y - p0y) / (p1x - p0x)) - ((q1y - q0y) / (q1x - q0x)))) - p0x)) + p0y)) < ((1 : K) / 5000000) then
                    []
                  else
                    if (line_tOfPoint_sworn_v p0x p0y p1x p1y (((((((p1y - p0y) / (p1x - p0x)) * p0x) - p0y) - (((q1y - q0y) / (q1x - q0x)) * q0x)) + q0y) / (((p1y - p0y) / (p1x - p0x)) - ((q1y - q0y) / (q1x - q0x)))) ((((p1y - p0y) / (p1x - p0x)) * ((((((((p1y - p0y) / (p1x - p0x)) * p0x) - p0y) - (((q1y - q0y) / (q1x - q0x)) * q0x)) + q0y) / (((p1y - p0y) / (p1x - p0x)) - ((q1y - q0y) / (q1x - q0x)))) - p0x)) + p0y)) > ((5000001 : K) / 5000000) then
                      []
                    else
                      if (line_tOfPoint_sworn_v q0x q0y q1x q1y (((((((p1y - p0y) / (p1x - p0x)) * p0x) - p0y) - (((q1y - q0y) / (q1x - q0x)) * q0x)) + q0y) / (((p1y - p0y) / (p1x - p0x)) - ((q1y - q0y) / (q1x - q0x)))) ((((p1y - p0y) / (p1x - p0x)) * ((((((((p1y - p0y) / (p1x - p0x)) * p0x) - p0y) - (((q1y - q0y) / (q1x - q0x)) * q0x)) + q0y) / (((p1y - p0y) / (p1x - p0x)) - ((q1y - q0y) / (q1x - q0x)))) - p0x)) + p0y)) < ((1 : K) / 5000000) then
                        []
                      else
                        if (line_tOfPoint_sworn_v q0x q0y q1x q1y (((((((p1y - p0y) / (p1x - p0x)) * p0x) - p0y) - (((q1y - q0y) / (q1x - q0x)) * q0x)) + q0y) / (((p1y - p0y) / (p1x - p0x)) - ((q1y - q0y) / (q1x - q0x)))) ((((p1y - p0y) / (p1x - p0x)) * ((((((((p1y - p0y) / (p1x - p0x)) * p0x) - p0y) - (((q1y - q0y) / (q1x - q0x)) * q0x)) + q0y) / (((p1y - p0y) / (p1x - p0x)) - ((q1y - q0y) / (q1x - q0x)))) - p0x)) + p0y)) > ((5000001 : K) / 5000000) then
                          []
                        else
                          let v0 := ((p1y - p0y) / (p1x - p0x))
                          let v1 := ((q1y - q0y) / (q1x - q0x))
                          let v2 := (((((v0 * p0x) - p0y) - (v1 * q0x)) + q0y) / (v0 - v1))
                          let v3 := ((v0 * (v2 - p0x)) + p0y)
                          [(line_tOfPoint_sworn_v p0x p0y p1x p1y v2 v3), (line_tOfPoint_sworn_v q0x q0y q1x q1y v2 v3)]
      else
        if isclose p1x p0x ((1 : K) / 1000000000) (0 : K) then
          if (line_tOfPoint_sworn_v p0x p0y p1x p1y p0x ((((q1y - q0y) / (q1x - q0x)) * (p0x - q0x)) + q0y)) < ((1 : K) / 5000000) then
            []
          else
            if (line_tOfPoint_sworn_v p0x p0y p1x p1y p0x ((((q1y - q0y) / (q1x - q0x)) * (p0x - q0x)) + q0y)) > ((5000001 : K) / 5000000) then
              []
            else
              if (line_tOfPoint_sworn_v q0x q0y q1x q1y p0x ((((q1y - q0y) / (q1x - q0x)) * (p0x - q0x)) + q0y)) < ((1 : K) / 5000000) then
                []
              else
                if (line_tOfPoint_sworn_v q0x q0y q1x q1y p0x ((((q1y - q0y) / (q1x - q0x)) * (p0x - q0x)) + q0y)) > ((5000001 : K) / 5000000) then
                  []
                else
                  let v0 := ((((q1y - q0y) / (q1x - q0x)) * (p0x - q0x)) + q0y)
                  [(line_tOfPoint_sworn_v p0x p0y p1x p1y p0x v0), (line_tOfPoint_sworn_v q0x q0y q1x q1y p0x v0)]
        else
          if |(((p1y - p0y) / (p1x - p0x)) - ((q1y - q0y) / (q1x - q0x)))| < ((1 : K) / 5000000) then
            []
          else
            if (((((((((p1y - p0y) / (p1x - p0x)) * p0x) - p0y) - (((q1y - q0y) / (q1x - q0x)) * q0x)) + q0y) / (((p1y - p0y) / (p1x - p0x)) - ((q1y - q0y) / (q1x - q0x)))) - p0x) * (p1x - p0x)) ≤ (0 : K) then
              if ((((((p1y - p0y) / (p1x - p0x)) * ((((((((p1y - p0y) / (p1x - p0x)) * p0x) - p0y) - (((q1y - q0y) / (q1x - q0x)) * q0x)) + q0y) / (((p1y - p0y) / (p1x - p0x)) - ((q1y - q0y) / (q1x - q0x)))) - p0x)) + p0y) - p0y) * (p1y - p0y)) ≤ (0 : K) then
                []
              else
                if (((((((((p1y - p0y) / (p1x - p0x)) * p0x) - p0y) - (((q1y - q0y) / (q1x - q0x)) * q0x)) + q0y) / (((p1y - p0y) / (p1x - p0x)) - ((q1y - q0y) / (q1x - q0x)))) - q1x) * (q0x - q1x)) ≤ (0 : K) then
                  if ((((((p1y - p0y) / (p1x - p0x)) * ((((((((p1y - p0y) / (p1x - p0x)) * p0x) - p0y) - (((q1y - q0y) / (q1x - q0x)) * q0x)) + q0y) / (((p1y - p0y) / (p1x - p0x)) - ((q1y - q0y) / (q1x - q0x)))) - p0x)) + p0y) - q1y) * (q0y - q1y)) ≤ (0 : K) then
                    []
                  else
                    if (line_tOfPoint_sworn_v p0x p0y p1x p1y (((((((p1y - p0y) / (p1x - p0x)) * p0x) - p0y) - (((q1y - q0y) / (q1x - q0x)) * q0x)) + q0y) / (((p1y - p0y) / (p1x - p0x)) - ((q1y - q0y) / (q1x - q0x)))) ((((p1y - p0y) / (p1x - p0x)) * ((((((((p1y - p0y) / (p1x - p0x)) * p0x) - p0y) - (((q1y - q0y) / (q1x - q0x)) * q0x)) + q0y) / (((p1y - p0y) / (p1x - p0x)) - ((q1y - q0y) / (q1x - q0x)))) - p0x)) + p0y)) < ((1 : K) / 5000000) then
                      []
                    else
                      if (line_tOfPoint_sworn_v p0x p0y p1x p1y (((((((p1y - p0y) / (p1x - p0x)) * p0x) - p0y) - (((q1y - q0y) / (q1x - q0x)) * q0x)) + q0y) / (((p1y - p0y) / (p1x - p0x)) - ((q1y - q0y) / (q1x - q0x)))) ((((p1y - p0y) / (p1x - p0x)) * ((((((((p1y - p0y) / (p1x - p0x)) * p0x) - p0y) - (((q1y - q0y) / (q1x - q0x)) * q0x)) + q0y) / (((p1y - p0y) / (p1x - p0x)) - ((q1y - q0y) / (q1x - q0x)))) - p0x)) + p0y)) > ((5000001 : K) / 5000000) then
                        []
                      else
                        if (line_tOfPoint_sworn_v q0x q0y q1x q1y (((((((p1y - p0y) / (p1x - p0x)) * p0x) - p0y) - (((q1y - q0y) / (q1x - q0x)) * q0x)) + q0y) / (((p1y - p0y) / (p1x - p0x)) - ((q1y - q0y) / (q1x - q0x)))) ((((p1y - p0y) / (p1x - p0x)) * ((((((((p1y - p0y) / (p1x - p0x)) * p0x) - p0y) - (((q1y - q0y) / (q1x - q0x)) * q0x)) + q0y) / (((p1y - p0y) / (p1x - p0x)) - ((q1y - q0y) / (q1x - q0x)))) - p0x)) + p0y)) < ((1 : K) / 5000000) then
                          []
                        else
                          if (line_tOfPoint_sworn_v q0x q0y q1x q1y (((((((p1y - p0y) / (p1x - p0x)) * p0x) - p0y) - (((q1y - q0y) / (q1x - q0x)) * q0x)) + q0y) / (((p1y - p0y) / (p1x - p0x)) - ((q1y - q0y) / (q1x - q0x)))) ((((p1y - p0y) / (p1x - p0x)) * ((((((((p1y - p0y) / (p1x - p0x)) * p0x) - p0y) - (((q1y - q0y) / (q1x - q0x)) * q0x)) + q0y) / (((p1y - p0y) / (p1x - p0x)) - ((q1y - q0y) / (q1x - q0x)))) - p0x)) + p0y)) > ((5000001 : K) / 5000000) then
                            []
                          else
                            let v0 := ((p1y - p0y) / (p1x - p0x))
                            let v1 := ((q1y - q0y) / (q1x - q0x))
                            let v2 := (((((v0 * p0x) - p0y) - (v1 * q0x)) + q0y) / (v0 - v1))
                            let v3 := ((v0 * (v2 - p0x)) + p0y)
                            [(line_tOfPoint_sworn_v p0x p0y p1x p1y v2 v3), (line_tOfPoint_sworn_v q0x q0y q1x q1y v2 v3)]
                else
                  if (line_tOfPoint_sworn_v p0x p0y p1x p1y (((((((p1y - p0y) / (p1x - p0x)) * p0x) - p0y) - (((q1y - q0y) / (q1x - q0x)) * q0x)) + q0y) / (((p1y - p0y) / (p1x - p0x)) - ((q1y - q0y) / (q1x - q0x)))) ((((p1y - p0y) / (p1x - p0x)) * ((((((((p1y - p0y) / (p1x - p0x)) * p0x) - p0y) - (((q1y - q0y) / (q1x - q0x)) * q0x)) + q0y) / (((p1y - p0y) / (p1x - p0x)) - ((q1y - q0y) / (q1x - q0x)))) - p0x)) + p0y)) < ((1 : K) / 5000000) then
                    []
                  else
                    if (line_tOfPoint_sworn_v p0x p0y p1x p1y (((((((p1y - p0y) / (p1x - p0x)) * p0x) - p0y) - (((q1y - q0y) / (q1x - q0x)) * q0x)) + q0y) / (((p1y - p0y) / (p1x - p0x)) - ((q1y - q0y) / (q1x - q0x)))) ((((p1y - p0y) / (p1x - p0x)) * ((((((((p1y - p0y) / (p1x - p0x)) * p0x) - p0y) - (((q1y - q0y) / (q1x - q0x)) * q0x)) + q0y) / (((p1y - p0y) / (p1x - p0x)) - ((q1y - q0y) / (q1x - q0x)))) - p0x)) + p0y)) > ((5000001 : K) / 5000000) then
                      []
                    else
                      if (line_tOfPoint_sworn_v q0x q0y q1x q1y (((((((p1y - p0y) / (p1x - p0x)) * p0x) - p0y) - (((q1y - q0y) / (q1x - q0x)) * q0x)) + q0y) / (((p1y - p0y) / (p1x - p0x)) - ((q1y - q0y) / (q1x - q0x)))) ((((p1y - p0y) / (p1x - p0x)) * ((((((((p1y - p0y) / (p1x - p0x)) * p0x) - p0y) - (((q1y - q0y) / (q1x - q0x)) * q0x)) + q0y) / (((p1y - p0y) / (p1x - p0x)) - ((q1y - q0y) / (q1x - q0x)))) - p0x)) + p0y)) < ((1 : K) / 5000000) then
                        []
                      else
                        if (line_tOfPoint_sworn_v q0x q0y q1x q1y (((((((p1y - p0y) / (p1x - p0x)) * p0x) - p0y) - (((q1y - q0y) / (q1x - q0x)) * q0x)) + q0y) / (((p1y - p0y) / (p1x - p0x)) - ((q1y - q0y) / (q1x - q0x)))) ((((p1y - p0y) / (p1x - p0x)) * ((((((((p1y - p0y) / (p1x - p0x)) * p0x) - p0y) - (((q1y - q0y) / (q1x - q0x)) * q0x)) + q0y) / (((p1y - p0y) / (p1x - p0x)) - ((q1y - q0y) / (q1x - q0x)))) - p0x)) + p0y)) > ((5000001 : K) / 5000000) then
                          []
                        else
                          let v0 := ((p1y - p0y) / (p1x - p0x))
                          let v1 := ((q1y - q0y) / (q1x - q0x))
                          let v2 := (((((v0 * p0x) - p0y) - (v1 * q0x)) + q0y) / (v0 - v1))
                          let v3 := ((v0 * (v2 - p0x)) + p0y)
                          [(line_tOfPoint_sworn_v p0x p0y p1x p1y v2 v3), (line_tOfPoint_sworn_v q0x q0y q1x q1y v2 v3)]
            else
              if (((((((((p1y - p0y) / (p1x - p0x)) * p0x) - p0y) - (((q1y - q0y) / (q1x - q0x)) * q0x)) + q0y) / (((p1y - p0y) / (p1x - p0x)) - ((q1y - q0y) / (q1x - q0x)))) - q1x) * (q0x - q1x)) ≤ (0 : K) then
                if ((((((p1y - p0y) / (p1x - p0x)) * ((((((((p1y - p0y) / (p1x - p0x)) * p0x) - p0y) - (((q1y - q0y) / (q1x - q0x)) * q0x)) + q0y) / (((p1y - p0y) / (p1x - p0x)) - ((q1y - q0y) / (q1x - q0x)))) - p0x)) + p0y) - q1y) * (q0y - q1y)) ≤ (0 : K) then
                  []
                else
                  if (line_tOfPoint_sworn_v p0x p0y p1x p1y (((((((p1y - p0y) / (p1x - p0x)) * p0x) - p0y) - (((q1y - q0y) / (q1x - q0x)) * q0x)) + q0y) / (((p1y - p0y) / (p1x - p0x)) - ((q1y - q0y) / (q1x - q0x)))) ((((p1y - p0y) / (p1x - p0x)) * ((((((((p1y - p0y) / (p1x - p0x)) * p0x) - p0y) - (((q1y - q0y) / (q1x - q0x)) * q0x)) + q0y) / (((p1y - p0y) / (p1x - p0x)) - ((q1y - q0y) / (q1x - q0x)))) - p0x)) + p0y)) < ((1 : K) / 5000000) then
                    []
                  else
                    if (line_tOfPoint_sworn_v p0x p0y p1x p1y (((((((p1y - p0y) / (p1x - p0x)) * p0x) - p0y) - (((q1y - q0y) / (q1x - q0x)) * q0x)) + q0y) / (((p1y - p0y) / (p1x - p0x)) - ((q1y - q0y) / (q1x - q0x)))) ((((p1y - p0y) / (p1x - p0x)) * ((((((((p1y - p0y) / (p1x - p0x)) * p0x) - p0y) - (((q1y - q0y) / (q1x - q0x)) * q0x)) + q0y) / (((p1y - p0y) / (p1x - p0x)) - ((q1y - q0y) / (q1x - q0x)))) - p0x)) + p0y)) > ((5000001 : K) / 5000000) then
                      []
                    else
                      if (line_tOfPoint_sworn_v q0x q0y q1x q1y (((((((p1y - p0y) / (p1x - p0x)) * p0x) - p0y) - (((q1y - q0y) / (q1x - q0x)) * q0x)) + q0y) / (((p1y - p0y) / (p1x - p0x)) - ((q1y - q0y) / (q1x - q0x)))) ((((p1y - p0y) / (p1x - p0x)) * ((((((((p1y - p0y) / (p1x - p0x)) * p0x) - p0y) - (((q1y - q0y) / (q1x - q0x)) * q0x)) + q0y) / (((p1y - p0y) / (p1x - p0x)) - ((q1y - q0y) / (q1x - q0x)))) - p0x)) + p0y)) < ((1 : K) / 5000000) then
                        []
                      else
                        if (line_tOfPoint_sworn_v q0x q0y q1x q1y (((((((p1y - p0y) / (p1x - p0x)) * p0x) - p0y) - (((q1y - q0y) / (q1x - q0x)) * q0x)) + q0y) / (((p1y - p0y) / (p1x - p0x)) - ((q1y - q0y) / (q1x - q0x)))) ((((p1y - p0y) / (p1x - p0x)) * ((((((((p1y - p0y) / (p1x - p0x)) * p0x) - p0y) - (((q1y - q0y) / (q1x - q0x)) * q0x)) + q0y) / (((p1y - p0y) / (p1x - p0x)) - ((q1y - q0y) / (q1x - q0x)))) - p0x)) + p0y)) > ((5000001 : K) / 5000000) then
                          []
                        else
                          let v0 := ((p1y - p0y) / (p1x - p0x))
                          let v1 := ((q1y - q0y) / (q1x - q0x))
                          let v2 := (((((v0 * p0x) - p0y) - (v1 * q0x)) + q0y) / (v0 - v1))
                          let v3 := ((v0 * (v2 - p0x)) + p0y)
                          [(line_tOfPoint_sworn_v p0x p0y p1x p1y v2 v3), (line_tOfPoint_sworn_v q0x q0y q1x q1y v2 v3)]
              else
                if (line_tOfPoint_sworn_v p0x p0y p1x p1y (((((((p1y - p0y) / (p1x - p0x)) * p0x) - p0y) - (((q1y - q0y) / (q1x - q0x)) * q0x)) + q0y) / (((p1y - p0y) / (p1x - p0x)) - ((q1y - q0y) / (q1x - q0x)))) ((((p1y - p0y) / (p1x - p0x)) * ((((((((p1y - p0y) / (p1x - p0x)) * p0x) - p0y) - (((q1y - q0y) / (q1x - q0x)) * q0x)) + q0y) / (((p1y - p0y) / (p1x - p0x)) - ((q1y - q0y) / (q1x - q0x)))) - p0x)) + p0y)) < ((1 : K) / 5000000) then
                  []
                else
                  if (line_tOfPoint_sworn_v p0x p0y p1x p1y (((((((p1y - p0y) / (p1x - p0x)) * p0x) - p0y) - (((q1y - q0y) / (q1x - q0x)) * q0x)) + q0y) / (((p1y - p0y) / (p1x - p0x)) - ((q1y - q0y) / (q1x - q0x)))) ((((p1y - p0y) / (p1x - p0x)) * ((((((((p1y - p0y) / (p1x - p0x)) * p0x) - p0y) - (((q1y - q0y) / (q1x - q0x)) * q0x)) + q0y) / (((p1y - p0y) / (p1x - p0x)) - ((q1y - q0y) / (q1x - q0x)))) - p0x)) + p0y)) > ((5000001 : K) / 5000000) then
                    []
                  else
                    if (line_tOfPoint_sworn_v q0x q0y q1x q1y (((((((p1y - p0y) / (p1x - p0x)) * p0x) - p0y) - (((q1y - q0y) / (q1x - q0x)) * q0x)) + q0y) / (((p1y - p0y) / (p1x - p0x)) - ((q1y - q0y) / (q1x - q0x)))) ((((p1y - p0y) / (p1x - p0x)) * ((((((((p1y - p0y) / (p1x - p0x)) * p0x) - p0y) - (((q1y - q0y) / (q1x - q0x)) * q0x)) + q0y) / (((p1y - p0y) / (p1x - p0x)) - ((q1y - q0y) / (q1x - q0x)))) - p0x)) + p0y)) < ((1 : K) / 5000000) then
                      []
                    else
                      if (line_tOfPoint_sworn_v q0x q0y q1x q1y (((((((p1y - p0y) / (p1x - p0x)) * p0x) - p0y) - (((q1y - q0y) / (q1x - q0x)) * q0x)) + q0y) / (((p1y - p0y) / (p1x - p0x)) - ((q1y - q0y) / (q1x - q0x)))) ((((p1y - p0y) / (p1x - p0x)) * ((((((((p1y - p0y) / (p1x - p0x)) * p0x) - p0y) - (((q1y - q0y) / (q1x - q0x)) * q0x)) + q0y) / (((p1y - p0y) / (p1x - p0x)) - ((q1y - q0y) / (q1x - q0x)))) - p0x)) + p0y)) > ((5000001 : K) / 5000000) then
                        []
                      else
                        let v0 := ((p1y - p0y) / (p1x - p0x))
                        let v1 := ((q1y - q0y) / (q1x - q0x))
                        let v2 := (((((v0 * p0x) - p0y) - (v1 * q0x)) + q0y) / (v0 - v1))
                        let v3 := ((v0 * (v2 - p0x)) + p0y)
                        [(line_tOfPoint_sworn_v p0x p0y p1x p1y v2 v3), (line_tOfPoint_sworn_v q0x q0y q1x q1y v2 v3)]


/-- Line(p0,p1).intersections(ray) for the horizontal ray from (lx, py) to (px, py) that windingNumberOfPoint builds: [t1, t2] or [] -/

@[gen_def] def ray_line (p0x p0y p1x p1y lx px py : K) : List K :=
  if isclose lx px ((1 : K) / 1000000000) (0 : K) then
    if isclose p0x p1x ((1 : K) / 1000000000) (0 : K) then
      []
    else
      if isclose p0y p1y ((1 : K) / 1000000000) (0 : K) then
        []
      else
        []
  else
    if isclose p0y p1y ((1 : K) / 1000000000) (0 : K) then
      []
    else
      if isclose p0x p1x ((1 : K) / 1000000000) (0 : K) then
        if isclose p1x p0x ((1 : K) / 1000000000) (0 : K) then
          if (line_tOfPoint_sworn_v p0x p0y p1x p1y p0x ((((py - py) / (px - lx)) * (p0x - lx)) + py)) < ((1 : K) / 5000000) then
            []
          else
            if (line_tOfPoint_sworn_v p0x p0y p1x p1y p0x ((((py - py) / (px - lx)) * (p0x - lx)) + py)) > ((5000001 : K) / 5000000) then
              []
            else
              if (line_tOfPoint_sworn_v lx py px py p0x ((((py - py) / (px - lx)) * (p0x - lx)) + py)) < ((1 : K) / 5000000) then
                []
              else
                if (line_tOfPoint_sworn_v lx py px py p0x ((((py - py) / (px - lx)) * (p0x - lx)) + py)) > ((5000001 : K) / 5000000) then
                  []
                else
                  let v0 := ((((py - py) / (px - lx)) * (p0x - lx)) + py)
                  [(line_tOfPoint_sworn_v p0x p0y p1x p1y p0x v0), (line_tOfPoint_sworn_v lx py px py p0x v0)]
        else
          if |(((p1y - p0y) / (p1x - p0x)) - ((py - py) / (px - lx)))| < ((1 : K) / 5000000) then
            []
          else
            if (((((((((p1y - p0y) / (p1x - p0x)) * p0x) - p0y) - (((py - py) / (px - lx)) * lx)) + py) / (((p1y - p0y) / (p1x - p0x)) - ((py - py) / (px - lx)))) - p0x) * (p1x - p0x)) ≤ (0 : K) then
              if ((((((p1y - p0y) / (p1x - p0x)) * ((((((((p1y - p0y) / (p1x - p0x)) * p0x) - p0y) - (((py - py) / (px - lx)) * lx)) + py) / (((p1y - p0y) / (p1x - p0x)) - ((py - py) / (px - lx)))) - p0x)) + p0y) - p0y) * (p1y - p0y)) ≤ (0 : K) then
                []
              else
                if (((((((((p1y - p0y) / (p1x - p0x)) * p0x) - p0y) - (((py - py) / (px - lx)) * lx)) + py) / (((p1y - p0y) / (p1x - p0x)) - ((py - py) / (px - lx)))) - px) * (lx - px)) ≤ (0 : K) then
                  if ((((((p1y - p0y) / (p1x - p0x)) * ((((((((p1y - p0y) / (p1x - p0x)) * p0x) - p0y) - (((py - py) / (px - lx)) * lx)) + py) / (((p1y - p0y) / (p1x - p0x)) - ((py - py) / (px - lx)))) - p0x)) + p0y) - py) * (py - py)) ≤ (0 : K) then
                    []
                  else
                    if (line_tOfPoint_sworn_v p0x p0y p1x p1y (((((((p1y - p0y) / (p1x - p0x)) * p0x) - p0y) - (((py - py) / (px - lx)) * lx)) + py) / (((p1y - p0y) / (p1x - p0x)) - ((py - py) / (px - lx)))) ((((p1y - p0y) / (p1x - p0x)) * ((((((((p1y - p0y) / (p1x - p0x)) * p0x) - p0y) - (((py - py) / (px - lx)) * lx)) + py) / (((p1y - p0y) / (p1x - p0x)) - ((py - py) / (px - lx)))) - p0x)) + p0y)) < ((1 : K) / 5000000) then
                      []
                    else
                      if (line_tOfPoint_sworn_v p0x p0y p1x p1y (((((((p1y - p0y) / (p1x - p0x)) * p0x) - p0y) - (((py - py) / (px - lx)) * lx)) + py) / (((p1y - p0y) / (p1x - p0x)) - ((py - py) / (px - lx)))) ((((p1y - p0y) / (p1x - p0x)) * ((((((((p1y - p0y) / (p1x - p0x)) * p0x) - p0y) - (((py - py) / (px - lx)) * lx)) + py) / (((p1y - p0y) / (p1x - p0x)) - ((py - py) / (px - lx)))) - p0x)) + p0y)) > ((5000001 : K) / 5000000) then
                        []
                      else
                        if (line_tOfPoint_sworn_v lx py px py (((((((p1y - p0y) / (p1x - p0x)) * p0x) - p0y) - (((py - py) / (px - lx)) * lx)) + py) / (((p1y - p0y) / (p1x - p0x)) - ((py - py) / (px - lx)))) ((((p1y - p0y) / (p1x - p0x)) * ((((((((p1y - p0y) / (p1x - p0x)) * p0x) - p0y) - (((py - py) / (px - lx)) * lx)) + py) / (((p1y - p0y) / (p1x - p0x)) - ((py - py) / (px - lx)))) - p0x)) + p0y)) < ((1 : K) / 5000000) then
                          []
                        else
                          if (line_tOfPoint_sworn_v lx py px py (((((((p1y - p0y) / (p1x - p0x)) * p0x) - p0y) - (((py - py) / (px - lx)) * lx)) + py) / (((p1y - p0y) / (p1x - p0x)) - ((py - py) / (px - lx)))) ((((p1y - p0y) / (p1x - p0x)) * ((((((((p1y - p0y) / (p1x - p0x)) * p0x) - p0y) - (((py - py) / (px - lx)) * lx)) + py) / (((p1y - p0y) / (p1x - p0x)) - ((py - py) / (px - lx)))) - p0x)) + p0y)) > ((5000001 : K) / 5000000) then
                            []
                          else
                            let v0 := ((p1y - p0y) / (p1x - p0x))
                            let v1 := ((py - py) / (px - lx))
                            let v2 := (((((v0 * p0x) - p0y) - (v1 * lx)) + py) / (v0 - v1))
                            let v3 := ((v0 * (v2 - p0x)) + p0y)
                            [(line_tOfPoint_sworn_v p0x p0y p1x p1y v2 v3), (line_tOfPoint_sworn_v lx py px py v2 v3)]
                else
                  if (line_tOfPoint_sworn_v p0x p0y p1x p1y (((((((p1y - p0y) / (p1x - p0x)) * p0x) - p0y) - (((py - py) / (px - lx)) * lx)) + py) / (((p1y - p0y) / (p1x - p0x)) - ((py - py) / (px - lx)))) ((((p1y - p0y) / (p1x - p0x)) * ((((((((p1y - p0y) / (p1x - p0x)) * p0x) - p0y) - (((py - py) / (px - lx)) * lx)) + py) / (((p1y - p0y) / (p1x - p0x)) - ((py - py) / (px - lx)))) - p0x)) + p0y)) < ((1 : K) / 5000000) then
                    []
                  else
                    if (line_tOfPoint_sworn_v p0x p0y p1x p1y (((((((p1y - p0y) / (p1x - p0x)) * p0x) - p0y) - (((py - py) / (px - lx)) * lx)) + py) / (((p1y - p0y) / (p1x - p0x)) - ((py - py) / (px - lx)))) ((((p1y - p0y) / (p1x - p0x)) * ((((((((p1y - p0y) / (p1x - p0x)) * p0x) - p0y) - (((py - py) / (px - lx)) * lx)) + py) / (((p1y - p0y) / (p1x - p0x)) - ((py - py) / (px - lx)))) - p0x)) + p0y)) > ((5000001 : K) / 5000000) then
                      []
                    else
                      if (line_tOfPoint_sworn_v lx py px py (((((((p1y - p0y) / (p1x - p0x)) * p0x) - p0y) - (((py - py) / (px - lx)) * lx)) + py) / (((p1y - p0y) / (p1x - p0x)) - ((py - py) / (px - lx)))) ((((p1y - p0y) / (p1x - p0x)) * ((((((((p1y - p0y) / (p1x - p0x)) * p0x) - p0y) - (((py - py) / (px - lx)) * lx)) + py) / (((p1y - p0y) / (p1x - p0x)) - ((py - py) / (px - lx)))) - p0x)) + p0y)) < ((1 : K) / 5000000) then
                        []
                      else
                        if (line_tOfPoint_sworn_v lx py px py (((((((p1y - p0y) / (p1x - p0x)) * p0x) - p0y) - (((py - py) / (px - lx)) * lx)) + py) / (((p1y - p0y) / (p1x - p0x)) - ((py - py) / (px - lx)))) ((((p1y - p0y) / (p1x - p0x)) * ((((((((p1y - p0y) / (p1x - p0x)) * p0x) - p0y) - (((py - py) / (px - lx)) * lx)) + py) / (((p1y - p0y) / (p1x - p0x)) - ((py - py) / (px - lx)))) - p0x)) + p0y)) > ((5000001 : K) / 5000000) then
                          []
                        else
                          let v0 := ((p1y - p0y) / (p1x - p0x))
                          let v1 := ((py - py) / (px - lx))
                          let v2 := (((((v0 * p0x) - p0y) - (v1 * lx)) + py) / (v0 - v1))
                          let v3 := ((v0 * (v2 - p0x)) + p0y)
                          [(line_tOfPoint_sworn_v p0x p0y p1x p1y v2 v3), (line_tOfPoint_sworn_v lx py px py v2 v3)]
            else
              if (((((((((p1y - p0y) / (p1x - p0x)) * p0x) - p0y) - (((py - py) / (px - lx)) * lx)) + py) / (((p1y - p0y) / (p1x - p0x)) - ((py - py) / (px - lx)))) - px) * (lx - px)) ≤ (0 : K) then
                if ((((((p1y - p0y) / (p1x - p0x)) * ((((((((p1y - p0y) / (p1x - p0x)) * p0x) - p0y) - (((py - py) / (px - lx)) * lx)) + py) / (((p1y - p0y) / (p1x - p0x)) - ((py - py) / (px - lx)))) - p0x)) + p0y) - py) * (py - py)) ≤ (0 : K) then
                  []
                else
                  if (line_tOfPoint_sworn_v p0x p0y p1x p1y (((((((p1y - p0y) / (p1x - p0x)) * p0x) - p0y) - (((py - py) / (px - lx)) * lx)) + py) / (((p1y - p0y) / (p1x - p0x)) - ((py - py) / (px - lx)))) ((((p1y - p0y) / (p1x - p0x)) * ((((((((p1y - p0y) / (p1x - p0x)) * p0x) - p0y) - (((py - py) / (px - lx)) * lx)) + py) / (((p1y - p0y) / (p1x - p0x)) - ((py - py) / (px - lx)))) - p0x)) + p0y)) < ((1 : K) / 5000000) then
                    []
                  else
                    if (line_tOfPoint_sworn_v p0x p0y p1x p1y (((((((p1y - p0y) / (p1x - p0x)) * p0x) - p0y) - (((py - py) / (px - lx)) * lx)) + py) / (((p1y - p0y) / (p1x - p0x)) - ((py - py) / (px - lx)))) ((((p1y - p0y) / (p1x - p0x)) * ((((((((p1y - p0y) / (p1x - p0x)) * p0x) - p0y) - (((py - py) / (px - lx)) * lx)) + py) / (((p1y - p0y) / (p1x - p0x)) - ((py - py) / (px - lx)))) - p0x)) + p0y)) > ((5000001 : K) / 5000000) then
                      []
                    else
                      if (line_tOfPoint_sworn_v lx py px py (((((((p1y - p0y) / (p1x - p0x)) * p0x) - p0y) - (((py - py) / (px - lx)) * lx)) + py) / (((p1y - p0y) / (p1x - p0x)) - ((py - py) / (px - lx)))) ((((p1y - p0y) / (p1x - p0x)) * ((((((((p1y - p0y) / (p1x - p0x)) * p0x) - p0y) - (((py - py) / (px - lx)) * lx)) + py) / (((p1y - p0y) / (p1x - p0x)) - ((py - py) / (px - lx)))) - p0x)) + p0y)) < ((1 : K) / 5000000) then
                        []
                      else
                        if (line_tOfPoint_sworn_v lx py px py (((((((p1y - p0y) / (p1x - p0x)) * p0x) - p0y) - (((py - py) / (px - lx)) * lx)) + py) / (((p1y - p0y) / (p1x - p0x)) - ((py - py) / (px - lx)))) ((((p1y - p0y) / (p1x - p0x)) * ((((((((p1y - p0y) / (p1x - p0x)) * p0x) - p0y) - (((py - py) / (px - lx)) * lx)) + py) / (((p1y - p0y) / (p1x - p0x)) - ((py - py) / (px - lx)))) - p0x)) + p0y)) > ((5000001 : K) / 5000000) then
                          []
                        else
                          let v0 := ((p1y - p0y) / (p1x - p0x))
                          let v1 := ((py - py) / (px - lx))
                          let v2 := (((((v0 * p0x) - p0y) - (v1 * lx)) + py) / (v0 - v1))
                          let v3 := ((v0 * (v2 - p0x)) + p0y)
                          [(line_tOfPoint_sworn_v p0x p0y p1x p1y v2 v3), (line_tOfPoint_sworn_v lx py px py v2 v3)]
              else
                if (line_tOfPoint_sworn_v p0x p0y p1x p1y (((((((p1y - p0y) / (p1x - p0x)) * p0x) - p0y) - (((py - py) / (px - lx)) * lx)) + py) / (((p1y - p0y) / (p1x - p0x)) - ((py - py) / (px - lx)))) ((((p1y - p0y) / (p1x - p0x)) * ((((((((p1y - p0y) / (p1x - p0x)) * p0x) - p0y) - (((py - py) / (px - lx)) * lx)) + py) / (((p1y - p0y) / (p1x - p0x)) - ((py - py) / (px - lx)))) - p0x)) + p0y)) < ((1 : K) / 5000000) then
                  []
                else
                  if (line_tOfPoint_sworn_v p0x p0y p1x p1y (((((((p1y - p0y) / (p1x - p0x)) * p0x) - p0y) - (((py - py) / (px - lx)) * lx)) + py) / (((p1y - p0y) / (p1x - p0x)) - ((py - py) / (px - lx)))) ((((p1y - p0y) / (p1x - p0x)) * ((((((((p1y - p0y) / (p1x - p0x)) * p0x) - p0y) - (((py - py) / (px - lx)) * lx)) + py) / (((p1y - p0y) / (p1x - p0x)) - ((py - py) / (px - lx)))) - p0x)) + p0y)) > ((5000001 : K) / 5000000) then
                    []
                  else
                    if (line_tOfPoint_sworn_v lx py px py (((((((p1y - p0y) / (p1x - p0x)) * p0x) - p0y) - (((py - py) / (px - lx)) * lx)) + py) / (((p1y - p0y) / (p1x - p0x)) - ((py - py) / (px - lx)))) ((((p1y - p0y) / (p1x - p0x)) * ((((((((p1y - p0y) / (p1x - p0x)) * p0x) - p0y) - (((py - py) / (px - lx)) * lx)) + py) / (((p1y - p0y) / (p1x - p0x)) - ((py - py) / (px - lx)))) - p0x)) + p0y)) < ((1 : K) / 5000000) then
                      []
                    else
                      if (line_tOfPoint_sworn_v lx py px py (((((((p1y - p0y) / (p1x - p0x)) * p0x) - p0y) - (((py - py) / (px - lx)) * lx)) + py) / (((p1y - p0y) / (p1x - p0x)) - ((py - py) / (px - lx)))) ((((p1y - p0y) / (p1x - p0x)) * ((((((((p1y - p0y) / (p1x - p0x)) * p0x) - p0y) - (((py - py) / (px - lx)) * lx)) + py) / (((p1y - p0y) / (p1x - p0x)) - ((py - py) / (px - lx)))) - p0x)) + p0y)) > ((5000001 : K) / 5000000) then
                        []
                      else
                        let v0 := ((p1y - p0y) / (p1x - p0x))
                        let v1 := ((py - py) / (px - lx))
                        let v2 := (((((v0 * p0x) - p0y) - (v1 * lx)) + py) / (v0 - v1))
                        let v3 := ((v0 * (v2 - p0x)) + p0y)
                        [(line_tOfPoint_sworn_v p0x p0y p1x p1y v2 v3), (line_tOfPoint_sworn_v lx py px py v2 v3)]
      else
        if isclose p1x p0x ((1 : K) / 1000000000) (0 : K) then
          if (line_tOfPoint_sworn_v p0x p0y p1x p1y p0x ((((py - py) / (px - lx)) * (p0x - lx)) + py)) < ((1 : K) / 5000000) then
            []
          else
            if (line_tOfPoint_sworn_v p0x p0y p1x p1y p0x ((((py - py) / (px - lx)) * (p0x - lx)) + py)) > ((5000001 : K) / 5000000) then
              []
            else
              if (line_tOfPoint_sworn_v lx py px py p0x ((((py - py) / (px - lx)) * (p0x - lx)) + py)) < ((1 : K) / 5000000) then
                []
              else
                if (line_tOfPoint_sworn_v lx py px py p0x ((((py - py) / (px - lx)) * (p0x - lx)) + py)) > ((5000001 : K) / 5000000) then
                  []
                else
                  let v0 := ((((py - py) / (px - lx)) * (p0x - lx)) + py)
                  [(line_tOfPoint_sworn_v p0x p0y p1x p1y p0x v0), (line_tOfPoint_sworn_v lx py px py p0x v0)]
        else
          if |(((p1y - p0y) / (p1x - p0x)) - ((py - py) / (px - lx)))| < ((1 : K) / 5000000) then
            []
          else
            if (((((((((p1y - p0y) / (p1x - p0x)) * p0x) - p0y) - (((py - py) / (px - lx)) * lx)) + py) / (((p1y - p0y) / (p1x - p0x)) - ((py - py) / (px - lx)))) - p0x) * (p1x - p0x)) ≤ (0 : K) then
              if ((((((p1y - p0y) / (p1x - p0x)) * ((((((((p1y - p0y) / (p1x - p0x)) * p0x) - p0y) - (((py - py) / (px - lx)) * lx)) + py) / (((p1y - p0y) / (p1x - p0x)) - ((py - py) / (px - lx)))) - p0x)) + p0y) - p0y) * (p1y - p0y)) ≤ (0 : K) then
                []
              else
                if (((((((((p1y - p0y) / (p1x - p0x)) * p0x) - p0y) - (((py - py) / (px - lx)) * lx)) + py) / (((p1y - p0y) / (p1x - p0x)) - ((py - py) / (px - lx)))) - px) * (lx - px)) ≤ (0 : K) then
                  if ((((((p1y - p0y) / (p1x - p0x)) * ((((((((p1y - p0y) / (p1x - p0x)) * p0x) - p0y) - (((py - py) / (px - lx)) * lx)) + py) / (((p1y - p0y) / (p1x - p0x)) - ((py - py) / (px - lx)))) - p0x)) + p0y) - py) * (py - py)) ≤ (0 : K) then
                    []
                  else
                    if (line_tOfPoint_sworn_v p0x p0y p1x p1y (((((((p1y - p0y) / (p1x - p0x)) * p0x) - p0y) - (((py - py) / (px - lx)) * lx)) + py) / (((p1y - p0y) / (p1x - p0x)) - ((py - py) / (px - lx)))) ((((p1y - p0y) / (p1x - p0x)) * ((((((((p1y - p0y) / (p1x - p0x)) * p0x) - p0y) - (((py - py) / (px - lx)) * lx)) + py) / (((p1y - p0y) / (p1x - p0x)) - ((py - py) / (px - lx)))) - p0x)) + p0y)) < ((1 : K) / 5000000) then
                      []
                    else
                      if (line_tOfPoint_sworn_v p0x p0y p1x p1y (((((((p1y - p0y) / (p1x - p0x)) * p0x) - p0y) - (((py - py) / (px - lx)) * lx)) + py) / (((p1y - p0y) / (p1x - p0x)) - ((py - py) / (px - lx)))) ((((p1y - p0y) / (p1x - p0x)) * ((((((((p1y - p0y) / (p1x - p0x)) * p0x) - p0y) - (((py - py) / (px - lx)) * lx)) + py) / (((p1y - p0y) / (p1x - p0x)) - ((py - py) / (px - lx)))) - p0x)) + p0y)) > ((5000001 : K) / 5000000) then
                        []
                      else
                        if (line_tOfPoint_sworn_v lx py px py (((((((p1y - p0y) / (p1x - p0x)) * p0x) - p0y) - (((py - py) / (px - lx)) * lx)) + py) / (((p1y - p0y) / (p1x - p0x)) - ((py - py) / (px - lx)))) ((((p1y - p0y) / (p1x - p0x)) * ((((((((p1y - p0y) / (p1x - p0x)) * p0x) - p0y) - (((py - py) / (px - lx)) * lx)) + py) / (((p1y - p0y) / (p1x - p0x)) - ((py - py) / (px - lx)))) - p0x)) + p0y)) < ((1 : K) / 5000000) then
                          []
                        else
                          if (line_tOfPoint_sworn_v lx py px py (((((((p1y - p0y) / (p1x - p0x)) * p0x) - p0y) - (((py - py) / (px - lx)) * lx)) + py) / (((p1y - p0y) / (p1x - p0x)) - ((py - py) / (px - lx)))) ((((p1y - p0y) / (p1x - p0x)) * ((((((((p1y - p0y) / (p1x - p0x)) * p0x) - p0y) - (((py - py) / (px - lx)) * lx)) + py) / (((p1y - p0y) / (p1x - p0x)) - ((py - py) / (px - lx)))) - p0x)) + p0y)) > ((5000001 : K) / 5000000) then
                            []
                          else
                            let v0 := ((p1y - p0y) / (p1x - p0x))
                            let v1 := ((py - py) / (px - lx))
                            let v2 := (((((v0 * p0x) - p0y) - (v1 * lx)) + py) / (v0 - v1))
                            let v3 := ((v0 * (v2 - p0x)) + p0y)
                            [(line_tOfPoint_sworn_v p0x p0y p1x p1y v2 v3), (line_tOfPoint_sworn_v lx py px py v2 v3)]
                else
                  if (line_tOfPoint_sworn_v p0x p0y p1x p1y (((((((p1y - p0y) / (p1x - p0x)) * p0x) - p0y) - (((py - py) / (px - lx)) * lx)) + py) / (((p1y - p0y) / (p1x - p0x)) - ((py - py) / (px - lx)))) ((((p1y - p0y) / (p1x - p0x)) * ((((((((p1y - p0y) / (p1x - p0x)) * p0x) - p0y) - (((py - py) / (px - lx)) * lx)) + py) / (((p1y - p0y) / (p1x - p0x)) - ((py - py) / (px - lx)))) - p0x)) + p0y)) < ((1 : K) / 5000000) then
                    []
                  else
                    if (line_tOfPoint_sworn_v p0x p0y p1x p1y (((((((p1y - p0y) / (p1x - p0x)) * p0x) - p0y) - (((py - py) / (px - lx)) * lx)) + py) / (((p1y - p0y) / (p1x - p0x)) - ((py - py) / (px - lx)))) ((((p1y - p0y) / (p1x - p0x)) * ((((((((p1y - p0y) / (p1x - p0x)) * p0x) - p0y) - (((py - py) / (px - lx)) * lx)) + py) / (((p1y - p0y) / (p1x - p0x)) - ((py - py) / (px - lx)))) - p0x)) + p0y)) > ((5000001 : K) / 5000000) then
                      []
                    else
                      if (line_tOfPoint_sworn_v lx py px py (((((((p1y - p0y) / (p1x - p0x)) * p0x) - p0y) - (((py - py) / (px - lx)) * lx)) + py) / (((p1y - p0y) / (p1x - p0x)) - ((py - py) / (px - lx)))) ((((p1y - p0y) / (p1x - p0x)) * ((((((((p1y - p0y) / (p1x - p0x)) * p0x) - p0y) - (((py - py) / (px - lx)) * lx)) + py) / (((p1y - p0y) / (p1x - p0x)) - ((py - py) / (px - lx)))) - p0x)) + p0y)) < ((1 : K) / 5000000) then
                        []
                      else
                        if (line_tOfPoint_sworn_v lx py px py (((((((p1y - p0y) / (p1x - p0x)) * p0x) - p0y) - (((py - py) / (px - lx)) * lx)) + py) / (((p1y - p0y) / (p1x - p0x)) - ((py - py) / (px - lx)))) ((((p1y - p0y) / (p1x - p0x)) * ((((((((p1y - p0y) / (p1x - p0x)) * p0x) - p0y) - (((py - py) / (px - lx)) * lx)) + py) / (((p1y - p0y) / (p1x - p0x)) - ((py - py) / (px - lx)))) - p0x)) + p0y)) > ((5000001 : K) / 5000000) then
                          []
                        else
                          let v0 := ((p1y - p0y) / (p1x - p0x))
                          let v1 := ((py - py) / (px - lx))
                          let v2 := (((((v0 * p0x) - p0y) - (v1 * lx)) + py) / (v0 - v1))
                          let v3 := ((v0 * (v2 - p0x)) + p0y)
                          [(line_tOfPoint_sworn_v p0x p0y p1x p1y v2 v3), (line_tOfPoint_sworn_v lx py px py v2 v3)]
            else
              if (((((((((p1y - p0y) / (p1x - p0x)) * p0x) - p0y) - (((py - py) / (px - lx)) * lx)) + py) / (((p1y - p0y) / (p1x - p0x)) - ((py - py) / (px - lx)))) - px) * (lx - px)) ≤ (0 : K) then
                if ((((((p1y - p0y) / (p1x - p0x)) * ((((((((p1y - p0y) / (p1x - p0x)) * p0x) - p0y) - (((py - py) / (px - lx)) * lx)) + py) / (((p1y - p0y) / (p1x - p0x)) - ((py - py) / (px - lx)))) - p0x)) + p0y) - py) * (py - py)) ≤ (0 : K) then
                  []
                else
                  if (line_tOfPoint_sworn_v p0x p0y p1x p1y (((((((p1y - p0y) / (p1x - p0x)) * p0x) - p0y) - (((py - py) / (px - lx)) * lx)) + py) / (((p1y - p0y) / (p1x - p0x)) - ((py - py) / (px - lx)))) ((((p1y - p0y) / (p1x - p0x)) * ((((((((p1y - p0y) / (p1x - p0x)) * p0x) - p0y) - (((py - py) / (px - lx)) * lx)) + py) / (((p1y - p0y) / (p1x - p0x)) - ((py - py) / (px - lx)))) - p0x)) + p0y)) < ((1 : K) / 5000000) then
                    []
                  else
                    if (line_tOfPoint_sworn_v p0x p0y p1x p1y (((((((p1y - p0y) / (p1x - p0x)) * p0x) - p0y) - (((py - py) / (px - lx)) * lx)) + py) / (((p1y - p0y) / (p1x - p0x)) - ((py - py) / (px - lx)))) ((((p1y - p0y) / (p1x - p0x)) * ((((((((p1y - p0y) / (p1x - p0x)) * p0x) - p0y) - (((py - py) / (px - lx)) * lx)) + py) / (((p1y - p0y) / (p1x - p0x)) - ((py - py) / (px - lx)))) - p0x)) + p0y)) > ((5000001 : K) / 5000000) then
                      []
                    else
                      if (line_tOfPoint_sworn_v lx py px py (((((((p1y - p0y) / (p1x - p0x)) * p0x) - p0y) - (((py - py) / (px - lx)) * lx)) + py) / (((p1y - p0y) / (p1x - p0x)) - ((py - py) / (px - lx)))) ((((p1y - p0y) / (p1x - p0x)) * ((((((((p1y - p0y) / (p1x - p0x)) * p0x) - p0y) - (((py - py) / (px - lx)) * lx)) + py) / (((p1y - p0y) / (p1x - p0x)) - ((py - py) / (px - lx)))) - p0x)) + p0y)) < ((1 : K) / 5000000) then
                        []
                      else
                        if (line_tOfPoint_sworn_v lx py px py (((((((p1y - p0y) / (p1x - p0x)) * p0x) - p0y) - (((py - py) / (px - lx)) * lx)) + py) / (((p1y - p0y) / (p1x - p0x)) - ((py - py) / (px - lx)))) ((((p1y - p0y) / (p1x - p0x)) * ((((((((p1y - p0y) / (p1x - p0x)) * p0x) - p0y) - (((py - py) / (px - lx)) * lx)) + py) / (((p1y - p0y) / (p1x - p0x)) - ((py - py) / (px - lx)))) - p0x)) + p0y)) > ((5000001 : K) / 5000000) then
                          []
                        else
                          let v0 := ((p1y - p0y) / (p1x - p0x))
                          let v1 := ((py - py) / (px - lx))
                          let v2 := (((((v0 * p0x) - p0y) - (v1 * lx)) + py) / (v0 - v1))
                          let v3 := ((v0 * (v2 - p0x)) + p0y)
                          [(line_tOfPoint_sworn_v p0x p0y p1x p1y v2 v3), (line_tOfPoint_sworn_v lx py px py v2 v3)]
              else
                if (line_tOfPoint_sworn_v p0x p0y p1x p1y (((((((p1y - p0y) / (p1x - p0x)) * p0x) - p0y) - (((py - py) / (px - lx)) * lx)) + py) / (((p1y - p0y) / (p1x - p0x)) - ((py - py) / (px - lx)))) ((((p1y - p0y) / (p1x - p0x)) * ((((((((p1y - p0y) / (p1x - p0x)) * p0x) - p0y) - (((py - py) / (px - lx)) * lx)) + py) / (((p1y - p0y) / (p1x - p0x)) - ((py - py) / (px - lx)))) - p0x)) + p0y)) < ((1 : K) / 5000000) then
                  []
                else
                  if (line_tOfPoint_sworn_v p0x p0y p1x p1y (((((((p1y - p0y) / (p1x - p0x)) * p0x) - p0y) - (((py - py) / (px - lx)) * lx)) + py) / (((p1y - p0y) / (p1x - p0x)) - ((py - py) / (px - lx)))) ((((p1y - p0y) / (p1x - p0x)) * ((((((((p1y - p0y) / (p1x - p0x)) * p0x) - p0y) - (((py - py) / (px - lx)) * lx)) + py) / (((p1y - p0y) / (p1x - p0x)) - ((py - py) / (px - lx)))) - p0x)) + p0y)) > ((5000001 : K) / 5000000) then
                    []
                  else
                    if (line_tOfPoint_sworn_v lx py px py (((((((p1y - p0y) / (p1x - p0x)) * p0x) - p0y) - (((py - py) / (px - lx)) * lx)) + py) / (((p1y - p0y) / (p1x - p0x)) - ((py - py) / (px - lx)))) ((((p1y - p0y) / (p1x - p0x)) * ((((((((p1y - p0y) / (p1x - p0x)) * p0x) - p0y) - (((py - py) / (px - lx)) * lx)) + py) / (((p1y - p0y) / (p1x - p0x)) - ((py - py) / (px - lx)))) - p0x)) + p0y)) < ((1 : K) / 5000000) then
                      []
                    else
                      if (line_tOfPoint_sworn_v lx py px py (((((((p1y - p0y) / (p1x - p0x)) * p0x) - p0y) - (((py - py) / (px - lx)) * lx)) + py) / (((p1y - p0y) / (p1x - p0x)) - ((py - py) / (px - lx)))) ((((p1y - p0y) / (p1x - p0x)) * ((((((((p1y - p0y) / (p1x - p0x)) * p0x) - p0y) - (((py - py) / (px - lx)) * lx)) + py) / (((p1y - p0y) / (p1x - p0x)) - ((py - py) / (px - lx)))) - p0x)) + p0y)) > ((5000001 : K) / 5000000) then
                        []
                      else
                        let v0 := ((p1y - p0y) / (p1x - p0x))
                        let v1 := ((py - py) / (px - lx))
                        let v2 := (((((v0 * p0x) - p0y) - (v1 * lx)) + py) / (v0 - v1))
                        let v3 := ((v0 * (v2 - p0x)) + p0y)
                        [(line_tOfPoint_sworn_v p0x p0y p1x p1y v2 v3), (line_tOfPoint_sworn_v lx py px py v2 v3)]


/-- CubicBezier.hasLoop: [] for False, else the two parameters (t1, t2) of the canonical-form test -/

@[gen_def] def cubic_hasLoop (sqrt : K → K) (p0x p0y p1x p1y p2x p2y p3x p3y : K) : List K :=
  if (sqrt ((((((((3 : K) * ((((p2x * (p1y - p0y)) + (p2y * (p0x - p1x))) + (p1x * p0y)) - (p1y * p0x))) - ((((p1x * (p0y - p3y)) + (p1y * (p3x - p0x))) + (p0x * p3y)) - (p0y * p3x))) - ((((p1x * (p0y - p3y)) + (p1y * (p3x - p0x))) + (p0x * p3y)) - (p0y * p3x))) + ((((p0x * (p3y - p2y)) + (p0y * (p2x - p3x))) + (p3x * p2y)) - (p3y * p2x))) * (((((3 : K) * ((((p2x * (p1y - p0y)) + (p2y * (p0x - p1x))) + (p1x * p0y)) - (p1y * p0x))) - ((((p1x * (p0y - p3y)) + (p1y * (p3x - p0x))) + (p0x * p3y)) - (p0y * p3x))) - ((((p1x * (p0y - p3y)) + (p1y * (p3x - p0x))) + (p0x * p3y)) - (p0y * p3x))) + ((((p0x * (p3y - p2y)) + (p0y * (p2x - p3x))) + (p3x * p2y)) - (p3y * p2x)))) + ((((3 : K) * ((((p2x * (p1y - p0y)) + (p2y * (p0x - p1x))) + (p1x * p0y)) - (p1y * p0x))) - ((((p1x * (p0y - p3y)) + (p1y * (p3x - p0x))) + (p0x * p3y)) - (p0y * p3x))) * (((3 : K) * ((((p2x * (p1y - p0y)) + (p2y * (p0x - p1x))) + (p1x * p0y)) - (p1y * p0x))) - ((((p1x * (p0y - p3y)) + (p1y * (p3x - p0x))) + (p0x * p3y)) - (p0y * p3x))))) + (((3 : K) * ((((p2x * (p1y - p0y)) + (p2y * (p0x - p1x))) + (p1x * p0y)) - (p1y * p0x))) * ((3 : K) * ((((p2x * (p1y - p0y)) + (p2y * (p0x - p1x))) + (p1x * p0y)) - (p1y * p0x)))))) ≠ (0 : K) then
    if ((((3 : K) * ((((3 : K) * ((((p2x * (p1y - p0y)) + (p2y * (p0x - p1x))) + (p1x * p0y)) - (p1y * p0x))) - ((((p1x * (p0y - p3y)) + (p1y * (p3x - p0x))) + (p0x * p3y)) - (p0y * p3x))) * ((1 : K) / (sqrt ((((((((3 : K) * ((((p2x * (p1y - p0y)) + (p2y * (p0x - p1x))) + (p1x * p0y)) - (p1y * p0x))) - ((((p1x * (p0y - p3y)) + (p1y * (p3x - p0x))) + (p0x * p3y)) - (p0y * p3x))) - ((((p1x * (p0y - p3y)) + (p1y * (p3x - p0x))) + (p0x * p3y)) - (p0y * p3x))) + ((((p0x * (p3y - p2y)) + (p0y * (p2x - p3x))) + (p3x * p2y)) - (p3y * p2x))) * (((((3 : K) * ((((p2x * (p1y - p0y)) + (p2y * (p0x - p1x))) + (p1x * p0y)) - (p1y * p0x))) - ((((p1x * (p0y - p3y)) + (p1y * (p3x - p0x))) + (p0x * p3y)) - (p0y * p3x))) - ((((p1x * (p0y - p3y)) + (p1y * (p3x - p0x))) + (p0x * p3y)) - (p0y * p3x))) + ((((p0x * (p3y - p2y)) + (p0y * (p2x - p3x))) + (p3x * p2y)) - (p3y * p2x)))) + ((((3 : K) * ((((p2x * (p1y - p0y)) + (p2y * (p0x - p1x))) + (p1x * p0y)) - (p1y * p0x))) - ((((p1x * (p0y - p3y)) + (p1y * (p3x - p0x))) + (p0x * p3y)) - (p0y * p3x))) * (((3 : K) * ((((p2x * (p1y - p0y)) + (p2y * (p0x - p1x))) + (p1x * p0y)) - (p1y * p0x))) - ((((p1x * (p0y - p3y)) + (p1y * (p3x - p0x))) + (p0x * p3y)) - (p0y * p3x))))) + (((3 : K) * ((((p2x * (p1y - p0y)) + (p2y * (p0x - p1x))) + (p1x * p0y)) - (p1y * p0x))) * ((3 : K) * ((((p2x * (p1y - p0y)) + (p2y * (p0x - p1x))) + (p1x * p0y)) - (p1y * p0x))))))))) * ((((3 : K) * ((((p2x * (p1y - p0y)) + (p2y * (p0x - p1x))) + (p1x * p0y)) - (p1y * p0x))) - ((((p1x * (p0y - p3y)) + (p1y * (p3x - p0x))) + (p0x * p3y)) - (p0y * p3x))) * ((1 : K) / (sqrt ((((((((3 : K) * ((((p2x * (p1y - p0y)) + (p2y * (p0x - p1x))) + (p1x * p0y)) - (p1y * p0x))) - ((((p1x * (p0y - p3y)) + (p1y * (p3x - p0x))) + (p0x * p3y)) - (p0y * p3x))) - ((((p1x * (p0y - p3y)) + (p1y * (p3x - p0x))) + (p0x * p3y)) - (p0y * p3x))) + ((((p0x * (p3y - p2y)) + (p0y * (p2x - p3x))) + (p3x * p2y)) - (p3y * p2x))) * (((((3 : K) * ((((p2x * (p1y - p0y)) + (p2y * (p0x - p1x))) + (p1x * p0y)) - (p1y * p0x))) - ((((p1x * (p0y - p3y)) + (p1y * (p3x - p0x))) + (p0x * p3y)) - (p0y * p3x))) - ((((p1x * (p0y - p3y)) + (p1y * (p3x - p0x))) + (p0x * p3y)) - (p0y * p3x))) + ((((p0x * (p3y - p2y)) + (p0y * (p2x - p3x))) + (p3x * p2y)) - (p3y * p2x)))) + ((((3 : K) * ((((p2x * (p1y - p0y)) + (p2y * (p0x - p1x))) + (p1x * p0y)) - (p1y * p0x))) - ((((p1x * (p0y - p3y)) + (p1y * (p3x - p0x))) + (p0x * p3y)) - (p0y * p3x))) * (((3 : K) * ((((p2x * (p1y - p0y)) + (p2y * (p0x - p1x))) + (p1x * p0y)) - (p1y * p0x))) - ((((p1x * (p0y - p3y)) + (p1y * (p3x - p0x))) + (p0x * p3y)) - (p0y * p3x))))) + (((3 : K) * ((((p2x * (p1y - p0y)) + (p2y * (p0x - p1x))) + (p1x * p0y)) - (p1y * p0x))) * ((3 : K) * ((((p2x * (p1y - p0y)) + (p2y * (p0x - p1x))) + (p1x * p0y)) - (p1y * p0x))))))))) - (((4 : K) * ((((((3 : K) * ((((p2x * (p1y - p0y)) + (p2y * (p0x - p1x))) + (p1x * p0y)) - (p1y * p0x))) - ((((p1x * (p0y - p3y)) + (p1y * (p3x - p0x))) + (p0x * p3y)) - (p0y * p3x))) - ((((p1x * (p0y - p3y)) + (p1y * (p3x - p0x))) + (p0x * p3y)) - (p0y * p3x))) + ((((p0x * (p3y - p2y)) + (p0y * (p2x - p3x))) + (p3x * p2y)) - (p3y * p2x))) * ((1 : K) / (sqrt ((((((((3 : K) * ((((p2x * (p1y - p0y)) + (p2y * (p0x - p1x))) + (p1x * p0y)) - (p1y * p0x))) - ((((p1x * (p0y - p3y)) + (p1y * (p3x - p0x))) + (p0x * p3y)) - (p0y * p3x))) - ((((p1x * (p0y - p3y)) + (p1y * (p3x - p0x))) + (p0x * p3y)) - (p0y * p3x))) + ((((p0x * (p3y - p2y)) + (p0y * (p2x - p3x))) + (p3x * p2y)) - (p3y * p2x))) * (((((3 : K) * ((((p2x * (p1y - p0y)) + (p2y * (p0x - p1x))) + (p1x * p0y)) - (p1y * p0x))) - ((((p1x * (p0y - p3y)) + (p1y * (p3x - p0x))) + (p0x * p3y)) - (p0y * p3x))) - ((((p1x * (p0y - p3y)) + (p1y * (p3x - p0x))) + (p0x * p3y)) - (p0y * p3x))) + ((((p0x * (p3y - p2y)) + (p0y * (p2x - p3x))) + (p3x * p2y)) - (p3y * p2x)))) + ((((3 : K) * ((((p2x * (p1y - p0y)) + (p2y * (p0x - p1x))) + (p1x * p0y)) - (p1y * p0x))) - ((((p1x * (p0y - p3y)) + (p1y * (p3x - p0x))) + (p0x * p3y)) - (p0y * p3x))) * (((3 : K) * ((((p2x * (p1y - p0y)) + (p2y * (p0x - p1x))) + (p1x * p0y)) - (p1y * p0x))) - ((((p1x * (p0y - p3y)) + (p1y * (p3x - p0x))) + (p0x * p3y)) - (p0y * p3x))))) + (((3 : K) * ((((p2x * (p1y - p0y)) + (p2y * (p0x - p1x))) + (p1x * p0y)) - (p1y * p0x))) * ((3 : K) * ((((p2x * (p1y - p0y)) + (p2y * (p0x - p1x))) + (p1x * p0y)) - (p1y * p0x))))))))) * (((3 : K) * ((((p2x * (p1y - p0y)) + (p2y * (p0x - p1x))) + (p1x * p0y)) - (p1y * p0x))) * ((1 : K) / (sqrt ((((((((3 : K) * ((((p2x * (p1y - p0y)) + (p2y * (p0x - p1x))) + (p1x * p0y)) - (p1y * p0x))) - ((((p1x * (p0y - p3y)) + (p1y * (p3x - p0x))) + (p0x * p3y)) - (p0y * p3x))) - ((((p1x * (p0y - p3y)) + (p1y * (p3x - p0x))) + (p0x * p3y)) - (p0y * p3x))) + ((((p0x * (p3y - p2y)) + (p0y * (p2x - p3x))) + (p3x * p2y)) - (p3y * p2x))) * (((((3 : K) * ((((p2x * (p1y - p0y)) + (p2y * (p0x - p1x))) + (p1x * p0y)) - (p1y * p0x))) - ((((p1x * (p0y - p3y)) + (p1y * (p3x - p0x))) + (p0x * p3y)) - (p0y * p3x))) - ((((p1x * (p0y - p3y)) + (p1y * (p3x - p0x))) + (p0x * p3y)) - (p0y * p3x))) + ((((p0x * (p3y - p2y)) + (p0y * (p2x - p3x))) + (p3x * p2y)) - (p3y * p2x)))) + ((((3 : K) * ((((p2x * (p1y - p0y)) + (p2y * (p0x - p1x))) + (p1x * p0y)) - (p1y * p0x))) - ((((p1x * (p0y - p3y)) + (p1y * (p3x - p0x))) + (p0x * p3y)) - (p0y * p3x))) * (((3 : K) * ((((p2x * (p1y - p0y)) + (p2y * (p0x - p1x))) + (p1x * p0y)) - (p1y * p0x))) - ((((p1x * (p0y - p3y)) + (p1y * (p3x - p0x))) + (p0x * p3y)) - (p0y * p3x))))) + (((3 : K) * ((((p2x * (p1y - p0y)) + (p2y * (p0x - p1x))) + (p1x * p0y)) - (p1y * p0x))) * ((3 : K) * ((((p2x * (p1y - p0y)) + (p2y * (p0x - p1x))) + (p1x * p0y)) - (p1y * p0x)))))))))) ≥ (0 : K) then
      []
    else
      let v0 := ((3 : K) * ((((p2x * (p1y - p0y)) + (p2y * (p0x - p1x))) + (p1x * p0y)) - (p1y * p0x)))
      let v1 := ((((p1x * (p0y - p3y)) + (p1y * (p3x - p0x))) + (p0x * p3y)) - (p0y * p3x))
      let v2 := (((v0 - v1) - v1) + ((((p0x * (p3y - p2y)) + (p0y * (p2x - p3x))) + (p3x * p2y)) - (p3y * p2x)))
      let v3 := ((1 : K) / (sqrt (((v2 * v2) + ((v0 - v1) * (v0 - v1))) + (v0 * v0))))
      let v4 := ((v0 - v1) * v3)
      let v5 := (sqrt (-((((3 : K) * v4) * v4) - (((4 : K) * (v2 * v3)) * (v0 * v3)))))
      let v6 := ((2 : K) * (v2 * v3))
      [((v4 + v5) / v6), ((v4 - v5) / v6)]
  else
    if ((((3 : K) * ((((3 : K) * ((((p2x * (p1y - p0y)) + (p2y * (p0x - p1x))) + (p1x * p0y)) - (p1y * p0x))) - ((((p1x * (p0y - p3y)) + (p1y * (p3x - p0x))) + (p0x * p3y)) - (p0y * p3x))) * (0 : K))) * ((((3 : K) * ((((p2x * (p1y - p0y)) + (p2y * (p0x - p1x))) + (p1x * p0y)) - (p1y * p0x))) - ((((p1x * (p0y - p3y)) + (p1y * (p3x - p0x))) + (p0x * p3y)) - (p0y * p3x))) * (0 : K))) - (((4 : K) * ((((((3 : K) * ((((p2x * (p1y - p0y)) + (p2y * (p0x - p1x))) + (p1x * p0y)) - (p1y * p0x))) - ((((p1x * (p0y - p3y)) + (p1y * (p3x - p0x))) + (p0x * p3y)) - (p0y * p3x))) - ((((p1x * (p0y - p3y)) + (p1y * (p3x - p0x))) + (p0x * p3y)) - (p0y * p3x))) + ((((p0x * (p3y - p2y)) + (p0y * (p2x - p3x))) + (p3x * p2y)) - (p3y * p2x))) * (0 : K))) * (((3 : K) * ((((p2x * (p1y - p0y)) + (p2y * (p0x - p1x))) + (p1x * p0y)) - (p1y * p0x))) * (0 : K)))) ≥ (0 : K) then
      []
    else
      let v0 := ((3 : K) * ((((p2x * (p1y - p0y)) + (p2y * (p0x - p1x))) + (p1x * p0y)) - (p1y * p0x)))
      let v1 := ((((p1x * (p0y - p3y)) + (p1y * (p3x - p0x))) + (p0x * p3y)) - (p0y * p3x))
      let v2 := ((v0 - v1) * (0 : K))
      let v3 := ((((v0 - v1) - v1) + ((((p0x * (p3y - p2y)) + (p0y * (p2x - p3x))) + (p3x * p2y)) - (p3y * p2x))) * (0 : K))
      let v4 := (sqrt (-((((3 : K) * v2) * v2) - (((4 : K) * v3) * (v0 * (0 : K))))))
      let v5 := ((2 : K) * v3)
      [((v2 + v4) / v5), ((v2 - v4) / v5)]


end Gen

/-- evaluation at K = ℚ for the correspondence driver -/
def Gen.dispatchInter (tbl : FnTable) (name : String) (a : List ℚ) : Option (List ℚ) :=
  match name with
  | "line_line" => if a.length = 8 then some (Gen.line_line (a.getD 0 0) (a.getD 1 0) (a.getD 2 0) (a.getD 3 0) (a.getD 4 0) (a.getD 5 0) (a.getD 6 0) (a.getD 7 0)) else none
  | "ray_line" => if a.length = 7 then some (Gen.ray_line (a.getD 0 0) (a.getD 1 0) (a.getD 2 0) (a.getD 3 0) (a.getD 4 0) (a.getD 5 0) (a.getD 6 0)) else none
  | "cubic_hasLoop" => if a.length = 8 then some (Gen.cubic_hasLoop (tbl.sqrt) (a.getD 0 0) (a.getD 1 0) (a.getD 2 0) (a.getD 3 0) (a.getD 4 0) (a.getD 5 0) (a.getD 6 0) (a.getD 7 0)) else none
  | _ => none
