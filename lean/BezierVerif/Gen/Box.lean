/-
  GENERATED FILE -- do not edit.  Regenerated on every check run by /verif/harness from the
  Python source under /repo/src/beziers (symbolic tracing of the real code); see DESIGN.md 2.2.
-/
import BezierVerif.Basic

set_option maxRecDepth 100000
set_option linter.unusedVariables false

namespace Gen
variable {K : Type} [Field K] [LinearOrder K] [IsStrictOrderedRing K]


/-- BoundingBox.includes -/

@[gen_def] def bbox_includes (l1 b1 r1 t1 px py : K) : Bool :=
  if l1 ≤ px then
    if r1 ≥ px then
      if b1 ≤ py then
        if t1 ≥ py then
          true
        else
          false
      else
        false
    else
      false
  else
    false


/-- BoundingBox.overlaps -/

@[gen_def] def bbox_overlaps (l1 b1 r1 t1 l2 b2 r2 t2 : K) : Bool :=
  if l2 > r1 then
    false
  else
    if r2 < l1 then
      false
    else
      if b2 > t1 then
        false
      else
        if t2 < b1 then
          false
        else
          true


/-- BoundingBox.area -/

@[gen_def] def bbox_area_v (l1 b1 r1 t1 : K) : K :=
  ((r1 - l1) * (t1 - b1))

@[gen_def] def bbox_area (l1 b1 r1 t1 : K) : List K :=
  [bbox_area_v l1 b1 r1 t1]


/-- BoundingBox.extend(Point) on a non-empty box -/

@[gen_def] def bbox_extend_point (l1 b1 r1 t1 px py : K) : List K :=
  if px < l1 then
    if py < b1 then
      if px > r1 then
        if py > t1 then
          [px, py, px, py]
        else
          [px, py, px, t1]
      else
        if py > t1 then
          [px, py, r1, py]
        else
          [px, py, r1, t1]
    else
      if px > r1 then
        if py > t1 then
          [px, b1, px, py]
        else
          [px, b1, px, t1]
      else
        if py > t1 then
          [px, b1, r1, py]
        else
          [px, b1, r1, t1]
  else
    if py < b1 then
      if px > r1 then
        if py > t1 then
          [l1, py, px, py]
        else
          [l1, py, px, t1]
      else
        if py > t1 then
          [l1, py, r1, py]
        else
          [l1, py, r1, t1]
    else
      if px > r1 then
        if py > t1 then
          [l1, b1, px, py]
        else
          [l1, b1, px, t1]
      else
        if py > t1 then
          [l1, b1, r1, py]
        else
          [l1, b1, r1, t1]


/-- BoundingBox.extend(Point) on an empty box -/

@[gen_def] def bbox_extend_first_0 (px py : K) : K :=
  px

@[gen_def] def bbox_extend_first_1 (px py : K) : K :=
  py

@[gen_def] def bbox_extend_first_2 (px py : K) : K :=
  px

@[gen_def] def bbox_extend_first_3 (px py : K) : K :=
  py

@[gen_def] def bbox_extend_first (px py : K) : List K :=
  [bbox_extend_first_0 px py, bbox_extend_first_1 px py, bbox_extend_first_2 px py, bbox_extend_first_3 px py]


end Gen

/-- evaluation at K = ℚ for the correspondence driver -/
def Gen.dispatchBox (tbl : FnTable) (name : String) (args : List ℚ) : Option (List ℚ) :=
  match name, args with
  | "bbox_includes", [a0, a1, a2, a3, a4, a5] => some ([if Gen.bbox_includes a0 a1 a2 a3 a4 a5 then (1 : ℚ) else 0])
  | "bbox_overlaps", [a0, a1, a2, a3, a4, a5, a6, a7] => some ([if Gen.bbox_overlaps a0 a1 a2 a3 a4 a5 a6 a7 then (1 : ℚ) else 0])
  | "bbox_area", [a0, a1, a2, a3] => some (Gen.bbox_area a0 a1 a2 a3)
  | "bbox_extend_point", [a0, a1, a2, a3, a4, a5] => some (Gen.bbox_extend_point a0 a1 a2 a3 a4 a5)
  | "bbox_extend_first", [a0, a1] => some (Gen.bbox_extend_first a0 a1)
  | _, _ => none
