/-
  GENERATED FILE -- do not edit.  Regenerated on every check run by /verif/harness from the
  Python source under /repo/src/beziers (symbolic tracing of the real code); see DESIGN.md 2.2.
-/
import BezierVerif.Basic

set_option maxRecDepth 100000
set_option linter.unusedVariables false

namespace Gen
variable {K : Type} [Field K] [LinearOrder K] [IsStrictOrderedRing K]


/-- BoundingBox.includes -/

@[gen_def] def bbox_includes (l1 b1 r1 t1 px py : K) : Bool :=
  if l1 ≤ px then
    if r1 ≥ px then
      if b1 ≤ py then
        if t1 ≥ py then
          true
        else
          false
      else
        false
    else
      false
  else
    false


/-- BoundingBox.overlaps -/

@[gen_def] def bbox_overlaps (l1 b1 r1 t1 l2 b2 r2 t2 : K) : Bool :=
  if l2 > r1 then
    false
  else
    if r2 < l1 then
      false
    else
      if b2 > t1 then
        false
      else
        if t2 < b1 then
          false
        else
          true


/-- BoundingBox.area -/

@[gen_def] def bbox_area_v (l1 b1 r1 t1 : K) : K :=
  ((r1 - l1) * (t1 - b1))

@[gen_def] def bbox_area (l1 b1 r1 t1 : K) : List K :=
  [bbox_area_v l1 b1 r1 t1]


/-- BoundingBox.extend(Point) on a non-empty box -/

@[gen_def] def bbox_extend_point (l1 b1 r1 t1 px py : K) : List K :=
  if px < l1 then
    if py < b1 then
      if px > r1 then
        if py > t1 then
          [px, py, px, py]
        else
          [px, py, px, t1]
      else
        if py > t1 then
          [px, py, r1, py]
        else
          [px, py, r1, t1]
    else
      if px > r1 then
        if py > t1 then
          [px, b1, px, py]
        else
          [px, b1, px, t1]
      else
        if py > t1 then
          [px, b1, r1, py]
        else
          [px, b1, r1, t1]
  else
    if py < b1 then
      if px > r1 then
        if py > t1 then
          [l1, py, px, py]
        else
          [l1, py, px, t1]
      else
        if py > t1 then
          [l1, py, r1, py]
        else
          [l1, py, r1, t1]
    else
      if px > r1 then
        if py > t1 then
          [l1, b1, px, py]
        else
          [l1, b1, px, t1]
      else
        if py > t1 then
          [l1, b1, r1, py]
        else
          [l1, b1, r1, t1]


/-- BoundingBox.extend(Point) on an empty box -/

@[gen_def] def bbox_extend_first_0 (px py : K) : K :=
  px

@[gen_def] def bbox_extend_first_1 (px py : K) : K :=
  py

@[gen_def] def bbox_extend_first_2 (px py : K) : K :=
  px

@[gen_def] def bbox_extend_first_3 (px py : K) : K :=
  py

@[gen_def] def bbox_extend_first (px py : K) : List K :=
  [bbox_extend_first_0 px py, bbox_extend_first_1 px py, bbox_extend_first_2 px py, bbox_extend_first_3 px py]


end Gen

/-- evaluation at K = ℚ for the correspondence driver -/
def Gen.dispatchBox (tbl : FnTable) (name : String) (a : List ℚ) : Option (List ℚ) :=
  match name with
  | "bbox_includes" => if a.length = 6 then some ([if Gen.bbox_includes (a.getD 0 0) (a.getD 1 0) (a.getD 2 0) (a.getD 3 0) (a.getD 4 0) (a.getD 5 0) then (1 : ℚ) else 0]) else none
  | "bbox_overlaps" => if a.length = 8 then some ([if Gen.bbox_overlaps (a.getD 0 0) (a.getD 1 0) (a.getD 2 0) (a.getD 3 0) (a.getD 4 0) (a.getD 5 0) (a.getD 6 0) (a.getD 7 0) then (1 : ℚ) else 0]) else none
  | "bbox_area" => if a.length = 4 then some (Gen.bbox_area (a.getD 0 0) (a.getD 1 0) (a.getD 2 0) (a.getD 3 0)) else none
  | "bbox_extend_point" => if a.length = 6 then some (Gen.bbox_extend_point (a.getD 0 0) (a.getD 1 0) (a.getD 2 0) (a.getD 3 0) (a.getD 4 0) (a.getD 5 0)) else none
  | "bbox_extend_first" => if a.length = 2 then some (Gen.bbox_extend_first (a.getD 0 0) (a.getD 1 0)) else none
  | _ => none
