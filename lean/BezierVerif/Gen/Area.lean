/-
  GENERATED FILE -- do not edit.  Regenerated on every check run by /verif/harness from the
  Python source under /repo/src/beziers (symbolic tracing of the real code); see DESIGN.md 2.2.
-/
import BezierVerif.Basic

set_option maxRecDepth 100000
set_option linter.unusedVariables false

namespace Gen
variable {K : Type} [Field K] [LinearOrder K] [IsStrictOrderedRing K]


/-- Line.area -/

@[gen_def] def line_area_v (p0x p0y p1x p1y : K) : K :=
  ((((1 : K) / 2) * (p1x - p0x)) * (p0y + p1y))

@[gen_def] def line_area (p0x p0y p1x p1y : K) : List K :=
  [line_area_v p0x p0y p1x p1y]


/-- QuadraticBezier.area -/

@[gen_def] def quad_area_v (p0x p0y p1x p1y p2x p2y : K) : K :=
  ((((((2 : K) * ((((p1x * p0y) - (p0x * p1y)) - (p1x * p2y)) + (p2x * p1y))) + ((3 : K) * ((p2x * p2y) - (p0x * p0y)))) + (p2x * p0y)) - (p0x * p2y)) / (6 : K))

@[gen_def] def quad_area (p0x p0y p1x p1y p2x p2y : K) : List K :=
  [quad_area_v p0x p0y p1x p1y p2x p2y]


/-- CubicBezier.area -/

@[gen_def] def cubic_area_v (p0x p0y p1x p1y p2x p2y p3x p3y : K) : K :=
  (((((((10 : K) * ((p3x * p3y) - (p0x * p0y))) + ((6 : K) * ((((p1x * p0y) - (p0x * p1y)) + (p3x * p2y)) - (p2x * p3y)))) + ((3 : K) * ((((((p2x * p0y) - (p0x * p2y)) + (p2x * p1y)) - (p1x * p2y)) + (p3x * p1y)) - (p1x * p3y)))) + (p3x * p0y)) - (p0x * p3y)) / (20 : K))

@[gen_def] def cubic_area (p0x p0y p1x p1y p2x p2y p3x p3y : K) : List K :=
  [cubic_area_v p0x p0y p1x p1y p2x p2y p3x p3y]


/-- QuadraticBezier.toCubicBezier -/

@[gen_def] def quad_toCubicBezier_c0x (p0x p0y p1x p1y p2x p2y : K) : K :=
  p0x

@[gen_def] def quad_toCubicBezier_c0y (p0x p0y p1x p1y p2x p2y : K) : K :=
  p0y

@[gen_def] def quad_toCubicBezier_c1x (p0x p0y p1x p1y p2x p2y : K) : K :=
  ((p0x * ((1 : K) / 3)) + (p1x * ((2 : K) / 3)))

@[gen_def] def quad_toCubicBezier_c1y (p0x p0y p1x p1y p2x p2y : K) : K :=
  ((p0y * ((1 : K) / 3)) + (p1y * ((2 : K) / 3)))

@[gen_def] def quad_toCubicBezier_c2x (p0x p0y p1x p1y p2x p2y : K) : K :=
  ((p1x * ((2 : K) / 3)) + (p2x * ((1 : K) / 3)))

@[gen_def] def quad_toCubicBezier_c2y (p0x p0y p1x p1y p2x p2y : K) : K :=
  ((p1y * ((2 : K) / 3)) + (p2y * ((1 : K) / 3)))

@[gen_def] def quad_toCubicBezier_c3x (p0x p0y p1x p1y p2x p2y : K) : K :=
  p2x

@[gen_def] def quad_toCubicBezier_c3y (p0x p0y p1x p1y p2x p2y : K) : K :=
  p2y

@[gen_def] def quad_toCubicBezier (p0x p0y p1x p1y p2x p2y : K) : List K :=
  [quad_toCubicBezier_c0x p0x p0y p1x p1y p2x p2y, quad_toCubicBezier_c0y p0x p0y p1x p1y p2x p2y, quad_toCubicBezier_c1x p0x p0y p1x p1y p2x p2y, quad_toCubicBezier_c1y p0x p0y p1x p1y p2x p2y, quad_toCubicBezier_c2x p0x p0y p1x p1y p2x p2y, quad_toCubicBezier_c2y p0x p0y p1x p1y p2x p2y, quad_toCubicBezier_c3x p0x p0y p1x p1y p2x p2y, quad_toCubicBezier_c3y p0x p0y p1x p1y p2x p2y]


end Gen

/-- evaluation at K = ℚ for the correspondence driver -/
def Gen.dispatchArea (tbl : FnTable) (name : String) (a : List ℚ) : Option (List ℚ) :=
  match name with
  | "line_area" => if a.length = 4 then some (Gen.line_area (a.getD 0 0) (a.getD 1 0) (a.getD 2 0) (a.getD 3 0)) else none
  | "quad_area" => if a.length = 6 then some (Gen.quad_area (a.getD 0 0) (a.getD 1 0) (a.getD 2 0) (a.getD 3 0) (a.getD 4 0) (a.getD 5 0)) else none
  | "cubic_area" => if a.length = 8 then some (Gen.cubic_area (a.getD 0 0) (a.getD 1 0) (a.getD 2 0) (a.getD 3 0) (a.getD 4 0) (a.getD 5 0) (a.getD 6 0) (a.getD 7 0)) else none
  | "quad_toCubicBezier" => if a.length = 6 then some (Gen.quad_toCubicBezier (a.getD 0 0) (a.getD 1 0) (a.getD 2 0) (a.getD 3 0) (a.getD 4 0) (a.getD 5 0)) else none
  | _ => none
