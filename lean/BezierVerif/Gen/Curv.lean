/-
  GENERATED FILE -- do not edit.  Regenerated on every check run by /verif/harness from the
  Python source under /repo/src/beziers (symbolic tracing of the real code); see DESIGN.md 2.2.
-/
import BezierVerif.Basic

set_option maxRecDepth 100000
set_option linter.unusedVariables false

namespace Gen
variable {K : Type} [Field K] [LinearOrder K] [IsStrictOrderedRing K]


/-- Segment.tangentAtTime on a CubicBezier -/

@[gen_def] def cubic_tangentAtTime (sqrt : K → K) (p0x p0y p1x p1y p2x p2y p3x p3y t : K) : List K :=
  if (sqrt ((((((((1 : K) - t) * ((1 : K) - t)) * ((p1x - p0x) * (3 : K))) + ((((2 : K) * ((1 : K) - t)) * t) * ((p2x - p1x) * (3 : K)))) + ((t * t) * ((p3x - p2x) * (3 : K)))) * ((((((1 : K) - t) * ((1 : K) - t)) * ((p1x - p0x) * (3 : K))) + ((((2 : K) * ((1 : K) - t)) * t) * ((p2x - p1x) * (3 : K)))) + ((t * t) * ((p3x - p2x) * (3 : K))))) + (((((((1 : K) - t) * ((1 : K) - t)) * ((p1y - p0y) * (3 : K))) + ((((2 : K) * ((1 : K) - t)) * t) * ((p2y - p1y) * (3 : K)))) + ((t * t) * ((p3y - p2y) * (3 : K)))) * ((((((1 : K) - t) * ((1 : K) - t)) * ((p1y - p0y) * (3 : K))) + ((((2 : K) * ((1 : K) - t)) * t) * ((p2y - p1y) * (3 : K)))) + ((t * t) * ((p3y - p2y) * (3 : K))))))) = (0 : K) then
    let v0 := ((1 : K) - t)
    let v1 := (((2 : K) * v0) * t)
    [(((((v0 * v0) * ((p1x - p0x) * (3 : K))) + (v1 * ((p2x - p1x) * (3 : K)))) + ((t * t) * ((p3x - p2x) * (3 : K)))) / (1 : K)), (((((v0 * v0) * ((p1y - p0y) * (3 : K))) + (v1 * ((p2y - p1y) * (3 : K)))) + ((t * t) * ((p3y - p2y) * (3 : K)))) / (1 : K))]
  else
    let v0 := ((1 : K) - t)
    let v1 := (((2 : K) * v0) * t)
    let v2 := ((((v0 * v0) * ((p1x - p0x) * (3 : K))) + (v1 * ((p2x - p1x) * (3 : K)))) + ((t * t) * ((p3x - p2x) * (3 : K))))
    let v3 := ((((v0 * v0) * ((p1y - p0y) * (3 : K))) + (v1 * ((p2y - p1y) * (3 : K)))) + ((t * t) * ((p3y - p2y) * (3 : K))))
    let v4 := (sqrt ((v2 * v2) + (v3 * v3)))
    [(v2 / v4), (v3 / v4)]


/-- Segment.tangentAtTime on a QuadraticBezier -/

@[gen_def] def quad_tangentAtTime (sqrt : K → K) (p0x p0y p1x p1y p2x p2y t : K) : List K :=
  if (sqrt ((((((p1x - p0x) * (2 : K)) * ((1 : K) - t)) + (((p2x - p1x) * (2 : K)) * t)) * ((((p1x - p0x) * (2 : K)) * ((1 : K) - t)) + (((p2x - p1x) * (2 : K)) * t))) + (((((p1y - p0y) * (2 : K)) * ((1 : K) - t)) + (((p2y - p1y) * (2 : K)) * t)) * ((((p1y - p0y) * (2 : K)) * ((1 : K) - t)) + (((p2y - p1y) * (2 : K)) * t))))) = (0 : K) then
    let v0 := ((1 : K) - t)
    [(((((p1x - p0x) * (2 : K)) * v0) + (((p2x - p1x) * (2 : K)) * t)) / (1 : K)), (((((p1y - p0y) * (2 : K)) * v0) + (((p2y - p1y) * (2 : K)) * t)) / (1 : K))]
  else
    let v0 := ((1 : K) - t)
    let v1 := ((((p1x - p0x) * (2 : K)) * v0) + (((p2x - p1x) * (2 : K)) * t))
    let v2 := ((((p1y - p0y) * (2 : K)) * v0) + (((p2y - p1y) * (2 : K)) * t))
    let v3 := (sqrt ((v1 * v1) + (v2 * v2)))
    [(v1 / v3), (v2 / v3)]


/-- Segment.normalAtTime on a CubicBezier -/

@[gen_def] def cubic_normalAtTime (sqrt : K → K) (p0x p0y p1x p1y p2x p2y p3x p3y t : K) : List K :=
  if (sqrt ((((((((1 : K) - t) * ((1 : K) - t)) * ((p1x - p0x) * (3 : K))) + ((((2 : K) * ((1 : K) - t)) * t) * ((p2x - p1x) * (3 : K)))) + ((t * t) * ((p3x - p2x) * (3 : K)))) * ((((((1 : K) - t) * ((1 : K) - t)) * ((p1x - p0x) * (3 : K))) + ((((2 : K) * ((1 : K) - t)) * t) * ((p2x - p1x) * (3 : K)))) + ((t * t) * ((p3x - p2x) * (3 : K))))) + (((((((1 : K) - t) * ((1 : K) - t)) * ((p1y - p0y) * (3 : K))) + ((((2 : K) * ((1 : K) - t)) * t) * ((p2y - p1y) * (3 : K)))) + ((t * t) * ((p3y - p2y) * (3 : K)))) * ((((((1 : K) - t) * ((1 : K) - t)) * ((p1y - p0y) * (3 : K))) + ((((2 : K) * ((1 : K) - t)) * t) * ((p2y - p1y) * (3 : K)))) + ((t * t) * ((p3y - p2y) * (3 : K))))))) = (0 : K) then
    let v0 := ((1 : K) - t)
    let v1 := (((2 : K) * v0) * t)
    [(-(((((v0 * v0) * ((p1y - p0y) * (3 : K))) + (v1 * ((p2y - p1y) * (3 : K)))) + ((t * t) * ((p3y - p2y) * (3 : K)))) / (1 : K))), (((((v0 * v0) * ((p1x - p0x) * (3 : K))) + (v1 * ((p2x - p1x) * (3 : K)))) + ((t * t) * ((p3x - p2x) * (3 : K)))) / (1 : K))]
  else
    let v0 := ((1 : K) - t)
    let v1 := (((2 : K) * v0) * t)
    let v2 := ((((v0 * v0) * ((p1y - p0y) * (3 : K))) + (v1 * ((p2y - p1y) * (3 : K)))) + ((t * t) * ((p3y - p2y) * (3 : K))))
    let v3 := ((((v0 * v0) * ((p1x - p0x) * (3 : K))) + (v1 * ((p2x - p1x) * (3 : K)))) + ((t * t) * ((p3x - p2x) * (3 : K))))
    let v4 := (sqrt ((v3 * v3) + (v2 * v2)))
    [(-(v2 / v4)), (v3 / v4)]


/-- Segment.normalAtTime on a QuadraticBezier -/

@[gen_def] def quad_normalAtTime (sqrt : K → K) (p0x p0y p1x p1y p2x p2y t : K) : List K :=
  if (sqrt ((((((p1x - p0x) * (2 : K)) * ((1 : K) - t)) + (((p2x - p1x) * (2 : K)) * t)) * ((((p1x - p0x) * (2 : K)) * ((1 : K) - t)) + (((p2x - p1x) * (2 : K)) * t))) + (((((p1y - p0y) * (2 : K)) * ((1 : K) - t)) + (((p2y - p1y) * (2 : K)) * t)) * ((((p1y - p0y) * (2 : K)) * ((1 : K) - t)) + (((p2y - p1y) * (2 : K)) * t))))) = (0 : K) then
    let v0 := ((1 : K) - t)
    [(-(((((p1y - p0y) * (2 : K)) * v0) + (((p2y - p1y) * (2 : K)) * t)) / (1 : K))), (((((p1x - p0x) * (2 : K)) * v0) + (((p2x - p1x) * (2 : K)) * t)) / (1 : K))]
  else
    let v0 := ((1 : K) - t)
    let v1 := ((((p1y - p0y) * (2 : K)) * v0) + (((p2y - p1y) * (2 : K)) * t))
    let v2 := ((((p1x - p0x) * (2 : K)) * v0) + (((p2x - p1x) * (2 : K)) * t))
    let v3 := (sqrt ((v2 * v2) + (v1 * v1)))
    [(-(v1 / v3)), (v2 / v3)]


/-- CubicBezier.curvatureAtTime -/

@[gen_def] def cubic_curvatureAtTime_v (rpow : K → K → K) (p0x p0y p1x p1y p2x p2y p3x p3y t : K) : K :=
  let v0 := ((1 : K) - t)
  let v1 := ((p1x - p0x) * (3 : K))
  let v2 := (((2 : K) * v0) * t)
  let v3 := ((p2x - p1x) * (3 : K))
  let v4 := ((p3x - p2x) * (3 : K))
  let v5 := ((((v0 * v0) * v1) + (v2 * v3)) + ((t * t) * v4))
  let v6 := ((p2y - p1y) * (3 : K))
  let v7 := ((p1y - p0y) * (3 : K))
  let v8 := ((p3y - p2y) * (3 : K))
  let v9 := ((((v0 * v0) * v7) + (v2 * v6)) + ((t * t) * v8))
  (((v5 * ((((v6 - v7) * (2 : K)) * v0) + (((v8 - v6) * (2 : K)) * t))) - (v9 * ((((v3 - v1) * (2 : K)) * v0) + (((v4 - v3) * (2 : K)) * t)))) / (rpow ((v5 ^ (2 : ℕ)) + (v9 ^ (2 : ℕ))) ((3 : K) / 2)))

@[gen_def] def cubic_curvatureAtTime (rpow : K → K → K) (p0x p0y p1x p1y p2x p2y p3x p3y t : K) : List K :=
  [cubic_curvatureAtTime_v rpow p0x p0y p1x p1y p2x p2y p3x p3y t]


/-- QuadraticBezier.curvatureAtTime -/

@[gen_def] def quad_curvatureAtTime_v (rpow : K → K → K) (p0x p0y p1x p1y p2x p2y t : K) : K :=
  let v0 := ((p1x - p0x) * (2 : K))
  let v1 := ((1 : K) - t)
  let v2 := ((p2x - p1x) * (2 : K))
  let v3 := ((v0 * v1) + (v2 * t))
  let v4 := ((p2y - p1y) * (2 : K))
  let v5 := ((p1y - p0y) * (2 : K))
  let v6 := ((v5 * v1) + (v4 * t))
  (((v3 * (v4 - v5)) - (v6 * (v2 - v0))) / (rpow ((v3 ^ (2 : ℕ)) + (v6 ^ (2 : ℕ))) ((3 : K) / 2)))

@[gen_def] def quad_curvatureAtTime (rpow : K → K → K) (p0x p0y p1x p1y p2x p2y t : K) : List K :=
  [quad_curvatureAtTime_v rpow p0x p0y p1x p1y p2x p2y t]


/-- Line.tangentAtTime -/

@[gen_def] def line_tangentAtTime (sqrt : K → K) (cos : K → K) (sin : K → K) (atan2 : K → K → K) (p0x p0y p1x p1y t : K) : List K :=
  if (sqrt (((cos (atan2 (p1y - p0y) (p1x - p0x))) * (cos (atan2 (p1y - p0y) (p1x - p0x)))) + ((sin (atan2 (p1y - p0y) (p1x - p0x))) * (sin (atan2 (p1y - p0y) (p1x - p0x)))))) = (0 : K) then
    let v0 := (atan2 (p1y - p0y) (p1x - p0x))
    [((cos v0) / (1 : K)), ((sin v0) / (1 : K))]
  else
    let v0 := (atan2 (p1y - p0y) (p1x - p0x))
    let v1 := (sqrt (((cos v0) * (cos v0)) + ((sin v0) * (sin v0))))
    [((cos v0) / v1), ((sin v0) / v1)]


/-- Line.normalAtTime -/

@[gen_def] def line_normalAtTime (pi : K) (sqrt : K → K) (cos : K → K) (sin : K → K) (atan2 : K → K → K) (p0x p0y p1x p1y t : K) : List K :=
  if (sqrt (((cos (atan2 (p1y - p0y) (p1x - p0x))) * (cos (atan2 (p1y - p0y) (p1x - p0x)))) + ((sin (atan2 (p1y - p0y) (p1x - p0x))) * (sin (atan2 (p1y - p0y) (p1x - p0x)))))) = (0 : K) then
    if (sqrt (((cos ((atan2 ((0 : K) - ((sin (atan2 (p1y - p0y) (p1x - p0x))) / (1 : K))) ((0 : K) - ((cos (atan2 (p1y - p0y) (p1x - p0x))) / (1 : K)))) + (pi / (2 : K)))) * (cos ((atan2 ((0 : K) - ((sin (atan2 (p1y - p0y) (p1x - p0x))) / (1 : K))) ((0 : K) - ((cos (atan2 (p1y - p0y) (p1x - p0x))) / (1 : K)))) + (pi / (2 : K))))) + ((sin ((atan2 ((0 : K) - ((sin (atan2 (p1y - p0y) (p1x - p0x))) / (1 : K))) ((0 : K) - ((cos (atan2 (p1y - p0y) (p1x - p0x))) / (1 : K)))) + (pi / (2 : K)))) * (sin ((atan2 ((0 : K) - ((sin (atan2 (p1y - p0y) (p1x - p0x))) / (1 : K))) ((0 : K) - ((cos (atan2 (p1y - p0y) (p1x - p0x))) / (1 : K)))) + (pi / (2 : K))))))) = (0 : K) then
      let v0 := (atan2 (p1y - p0y) (p1x - p0x))
      let v1 := ((0 : K) - ((sin v0) / (1 : K)))
      let v2 := ((0 : K) - ((cos v0) / (1 : K)))
      let v3 := ((atan2 v1 v2) + (pi / (2 : K)))
      let v4 := (sqrt ((v2 * v2) + (v1 * v1)))
      [((0 : K) - (((cos v3) / (1 : K)) * v4)), ((0 : K) - (((sin v3) / (1 : K)) * v4))]
    else
      let v0 := (atan2 (p1y - p0y) (p1x - p0x))
      let v1 := ((0 : K) - ((sin v0) / (1 : K)))
      let v2 := ((0 : K) - ((cos v0) / (1 : K)))
      let v3 := ((atan2 v1 v2) + (pi / (2 : K)))
      let v4 := (sqrt (((cos v3) * (cos v3)) + ((sin v3) * (sin v3))))
      let v5 := (sqrt ((v2 * v2) + (v1 * v1)))
      [((0 : K) - (((cos v3) / v4) * v5)), ((0 : K) - (((sin v3) / v4) * v5))]
  else
    if (sqrt (((cos ((atan2 ((0 : K) - ((sin (atan2 (p1y - p0y) (p1x - p0x))) / (sqrt (((cos (atan2 (p1y - p0y) (p1x - p0x))) * (cos (atan2 (p1y - p0y) (p1x - p0x)))) + ((sin (atan2 (p1y - p0y) (p1x - p0x))) * (sin (atan2 (p1y - p0y) (p1x - p0x)))))))) ((0 : K) - ((cos (atan2 (p1y - p0y) (p1x - p0x))) / (sqrt (((cos (atan2 (p1y - p0y) (p1x - p0x))) * (cos (atan2 (p1y - p0y) (p1x - p0x)))) + ((sin (atan2 (p1y - p0y) (p1x - p0x))) * (sin (atan2 (p1y - p0y) (p1x - p0x))))))))) + (pi / (2 : K)))) * (cos ((atan2 ((0 : K) - ((sin (atan2 (p1y - p0y) (p1x - p0x))) / (sqrt (((cos (atan2 (p1y - p0y) (p1x - p0x))) * (cos (atan2 (p1y - p0y) (p1x - p0x)))) + ((sin (atan2 (p1y - p0y) (p1x - p0x))) * (sin (atan2 (p1y - p0y) (p1x - p0x)))))))) ((0 : K) - ((cos (atan2 (p1y - p0y) (p1x - p0x))) / (sqrt (((cos (atan2 (p1y - p0y) (p1x - p0x))) * (cos (atan2 (p1y - p0y) (p1x - p0x)))) + ((sin (atan2 (p1y - p0y) (p1x - p0x))) * (sin (atan2 (p1y - p0y) (p1x - p0x))))))))) + (pi / (2 : K))))) + ((sin ((atan2 ((0 : K) - ((sin (atan2 (p1y - p0y) (p1x - p0x))) / (sqrt (((cos (atan2 (p1y - p0y) (p1x - p0x))) * (cos (atan2 (p1y - p0y) (p1x - p0x)))) + ((sin (atan2 (p1y - p0y) (p1x - p0x))) * (sin (atan2 (p1y - p0y) (p1x - p0x)))))))) ((0 : K) - ((cos (atan2 (p1y - p0y) (p1x - p0x))) / (sqrt (((cos (atan2 (p1y - p0y) (p1x - p0x))) * (cos (atan2 (p1y - p0y) (p1x - p0x)))) + ((sin (atan2 (p1y - p0y) (p1x - p0x))) * (sin (atan2 (p1y - p0y) (p1x - p0x))))))))) + (pi / (2 : K)))) * (sin ((atan2 ((0 : K) - ((sin (atan2 (p1y - p0y) (p1x - p0x))) / (sqrt (((cos (atan2 (p1y - p0y) (p1x - p0x))) * (cos (atan2 (p1y - p0y) (p1x - p0x)))) + ((sin (atan2 (p1y - p0y) (p1x - p0x))) * (sin (atan2 (p1y - p0y) (p1x - p0x)))))))) ((0 : K) - ((cos (atan2 (p1y - p0y) (p1x - p0x))) / (sqrt (((cos (atan2 (p1y - p0y) (p1x - p0x))) * (cos (atan2 (p1y - p0y) (p1x - p0x)))) + ((sin (atan2 (p1y - p0y) (p1x - p0x))) * (sin (atan2 (p1y - p0y) (p1x - p0x))))))))) + (pi / (2 : K))))))) = (0 : K) then
      let v0 := (atan2 (p1y - p0y) (p1x - p0x))
      let v1 := (sqrt (((cos v0) * (cos v0)) + ((sin v0) * (sin v0))))
      let v2 := ((0 : K) - ((sin v0) / v1))
      let v3 := ((0 : K) - ((cos v0) / v1))
      let v4 := ((atan2 v2 v3) + (pi / (2 : K)))
      let v5 := (sqrt ((v3 * v3) + (v2 * v2)))
      [((0 : K) - (((cos v4) / (1 : K)) * v5)), ((0 : K) - (((sin v4) / (1 : K)) * v5))]
    else
      let v0 := (atan2 (p1y - p0y) (p1x - p0x))
      let v1 := (sqrt (((cos v0) * (cos v0)) + ((sin v0) * (sin v0))))
      let v2 := ((0 : K) - ((sin v0) / v1))
      let v3 := ((0 : K) - ((cos v0) / v1))
      let v4 := ((atan2 v2 v3) + (pi / (2 : K)))
      let v5 := (sqrt (((cos v4) * (cos v4)) + ((sin v4) * (sin v4))))
      let v6 := (sqrt ((v3 * v3) + (v2 * v2)))
      [((0 : K) - (((cos v4) / v5) * v6)), ((0 : K) - (((sin v4) / v5) * v6))]


/-- Line.curvatureAtTime -/

@[gen_def] def line_curvatureAtTime_v (p0x p0y p1x p1y t : K) : K :=
  ((2220446049250313 : K) / 10000000000000000000000000000000)

@[gen_def] def line_curvatureAtTime (p0x p0y p1x p1y t : K) : List K :=
  [line_curvatureAtTime_v p0x p0y p1x p1y t]


/-- Segment.startAngle on a CubicBezier -/

@[gen_def] def cubic_startAngle_v (atan2 : K → K → K) (p0x p0y p1x p1y p2x p2y p3x p3y : K) : K :=
  (atan2 (p1y - p0y) (p1x - p0x))

@[gen_def] def cubic_startAngle (atan2 : K → K → K) (p0x p0y p1x p1y p2x p2y p3x p3y : K) : List K :=
  [cubic_startAngle_v atan2 p0x p0y p1x p1y p2x p2y p3x p3y]


/-- Segment.endAngle on a CubicBezier -/

@[gen_def] def cubic_endAngle_v (atan2 : K → K → K) (p0x p0y p1x p1y p2x p2y p3x p3y : K) : K :=
  (atan2 (p3y - p2y) (p3x - p2x))

@[gen_def] def cubic_endAngle (atan2 : K → K → K) (p0x p0y p1x p1y p2x p2y p3x p3y : K) : List K :=
  [cubic_endAngle_v atan2 p0x p0y p1x p1y p2x p2y p3x p3y]


/-- Segment.startAngle on a QuadraticBezier -/

@[gen_def] def quad_startAngle_v (atan2 : K → K → K) (p0x p0y p1x p1y p2x p2y : K) : K :=
  (atan2 (p1y - p0y) (p1x - p0x))

@[gen_def] def quad_startAngle (atan2 : K → K → K) (p0x p0y p1x p1y p2x p2y : K) : List K :=
  [quad_startAngle_v atan2 p0x p0y p1x p1y p2x p2y]


/-- Segment.endAngle on a QuadraticBezier -/

@[gen_def] def quad_endAngle_v (atan2 : K → K → K) (p0x p0y p1x p1y p2x p2y : K) : K :=
  (atan2 (p2y - p1y) (p2x - p1x))

@[gen_def] def quad_endAngle (atan2 : K → K → K) (p0x p0y p1x p1y p2x p2y : K) : List K :=
  [quad_endAngle_v atan2 p0x p0y p1x p1y p2x p2y]


/-- Segment.startAngle on a Line -/

@[gen_def] def line_startAngle_v (atan2 : K → K → K) (p0x p0y p1x p1y : K) : K :=
  (atan2 (p1y - p0y) (p1x - p0x))

@[gen_def] def line_startAngle (atan2 : K → K → K) (p0x p0y p1x p1y : K) : List K :=
  [line_startAngle_v atan2 p0x p0y p1x p1y]


/-- Segment.endAngle on a Line -/

@[gen_def] def line_endAngle_v (atan2 : K → K → K) (p0x p0y p1x p1y : K) : K :=
  (atan2 (p1y - p0y) (p1x - p0x))

@[gen_def] def line_endAngle (atan2 : K → K → K) (p0x p0y p1x p1y : K) : List K :=
  [line_endAngle_v atan2 p0x p0y p1x p1y]


end Gen

/-- evaluation at K = ℚ for the correspondence driver -/
def Gen.dispatchCurv (tbl : FnTable) (name : String) (a : List ℚ) : Option (List ℚ) :=
  match name with
  | "cubic_tangentAtTime" => if a.length = 9 then some (Gen.cubic_tangentAtTime (tbl.sqrt) (a.getD 0 0) (a.getD 1 0) (a.getD 2 0) (a.getD 3 0) (a.getD 4 0) (a.getD 5 0) (a.getD 6 0) (a.getD 7 0) (a.getD 8 0)) else none
  | "quad_tangentAtTime" => if a.length = 7 then some (Gen.quad_tangentAtTime (tbl.sqrt) (a.getD 0 0) (a.getD 1 0) (a.getD 2 0) (a.getD 3 0) (a.getD 4 0) (a.getD 5 0) (a.getD 6 0)) else none
  | "cubic_normalAtTime" => if a.length = 9 then some (Gen.cubic_normalAtTime (tbl.sqrt) (a.getD 0 0) (a.getD 1 0) (a.getD 2 0) (a.getD 3 0) (a.getD 4 0) (a.getD 5 0) (a.getD 6 0) (a.getD 7 0) (a.getD 8 0)) else none
  | "quad_normalAtTime" => if a.length = 7 then some (Gen.quad_normalAtTime (tbl.sqrt) (a.getD 0 0) (a.getD 1 0) (a.getD 2 0) (a.getD 3 0) (a.getD 4 0) (a.getD 5 0) (a.getD 6 0)) else none
  | "cubic_curvatureAtTime" => if a.length = 9 then some (Gen.cubic_curvatureAtTime (tbl.rpow) (a.getD 0 0) (a.getD 1 0) (a.getD 2 0) (a.getD 3 0) (a.getD 4 0) (a.getD 5 0) (a.getD 6 0) (a.getD 7 0) (a.getD 8 0)) else none
  | "quad_curvatureAtTime" => if a.length = 7 then some (Gen.quad_curvatureAtTime (tbl.rpow) (a.getD 0 0) (a.getD 1 0) (a.getD 2 0) (a.getD 3 0) (a.getD 4 0) (a.getD 5 0) (a.getD 6 0)) else none
  | "line_tangentAtTime" => if a.length = 5 then some (Gen.line_tangentAtTime (tbl.sqrt) (tbl.cos) (tbl.sin) (tbl.atan2) (a.getD 0 0) (a.getD 1 0) (a.getD 2 0) (a.getD 3 0) (a.getD 4 0)) else none
  | "line_normalAtTime" => if a.length = 5 then some (Gen.line_normalAtTime (tbl.pi) (tbl.sqrt) (tbl.cos) (tbl.sin) (tbl.atan2) (a.getD 0 0) (a.getD 1 0) (a.getD 2 0) (a.getD 3 0) (a.getD 4 0)) else none
  | "line_curvatureAtTime" => if a.length = 5 then some (Gen.line_curvatureAtTime (a.getD 0 0) (a.getD 1 0) (a.getD 2 0) (a.getD 3 0) (a.getD 4 0)) else none
  | "cubic_startAngle" => if a.length = 8 then some (Gen.cubic_startAngle (tbl.atan2) (a.getD 0 0) (a.getD 1 0) (a.getD 2 0) (a.getD 3 0) (a.getD 4 0) (a.getD 5 0) (a.getD 6 0) (a.getD 7 0)) else none
  | "cubic_endAngle" => if a.length = 8 then some (Gen.cubic_endAngle (tbl.atan2) (a.getD 0 0) (a.getD 1 0) (a.getD 2 0) (a.getD 3 0) (a.getD 4 0) (a.getD 5 0) (a.getD 6 0) (a.getD 7 0)) else none
  | "quad_startAngle" => if a.length = 6 then some (Gen.quad_startAngle (tbl.atan2) (a.getD 0 0) (a.getD 1 0) (a.getD 2 0) (a.getD 3 0) (a.getD 4 0) (a.getD 5 0)) else none
  | "quad_endAngle" => if a.length = 6 then some (Gen.quad_endAngle (tbl.atan2) (a.getD 0 0) (a.getD 1 0) (a.getD 2 0) (a.getD 3 0) (a.getD 4 0) (a.getD 5 0)) else none
  | "line_startAngle" => if a.length = 4 then some (Gen.line_startAngle (tbl.atan2) (a.getD 0 0) (a.getD 1 0) (a.getD 2 0) (a.getD 3 0)) else none
  | "line_endAngle" => if a.length = 4 then some (Gen.line_endAngle (tbl.atan2) (a.getD 0 0) (a.getD 1 0) (a.getD 2 0) (a.getD 3 0)) else none
  | _ => none
