/-
  GENERATED FILE -- do not edit.  Regenerated on every check run by /verif/harness from the
  Python source under /repo/src/beziers (symbolic tracing of the real code); see DESIGN.md 2.2.
-/
import BezierVerif.Basic

set_option maxRecDepth 100000
set_option linter.unusedVariables false

namespace Gen
variable {K : Type} [Field K] [LinearOrder K] [IsStrictOrderedRing K]


/-- Point.lerp -/

@[gen_def] def point_lerp_x (px py qx qy t : K) : K :=
  ((px * ((1 : K) - t)) + (qx * t))

@[gen_def] def point_lerp_y (px py qx qy t : K) : K :=
  ((py * ((1 : K) - t)) + (qy * t))

@[gen_def] def point_lerp (px py qx qy t : K) : List K :=
  [point_lerp_x px py qx qy t, point_lerp_y px py qx qy t]


/-- Line.pointAtTime -/

@[gen_def] def line_pointAtTime_x (p0x p0y p1x p1y t : K) : K :=
  ((p0x * ((1 : K) - t)) + (p1x * t))

@[gen_def] def line_pointAtTime_y (p0x p0y p1x p1y t : K) : K :=
  ((p0y * ((1 : K) - t)) + (p1y * t))

@[gen_def] def line_pointAtTime (p0x p0y p1x p1y t : K) : List K :=
  [line_pointAtTime_x p0x p0y p1x p1y t, line_pointAtTime_y p0x p0y p1x p1y t]


/-- QuadraticBezier.pointAtTime -/

@[gen_def] def quad_pointAtTime_x (p0x p0y p1x p1y p2x p2y t : K) : K :=
  let v0 := ((1 : K) - t)
  ((((v0 * v0) * p0x) + ((((2 : K) * v0) * t) * p1x)) + ((t * t) * p2x))

@[gen_def] def quad_pointAtTime_y (p0x p0y p1x p1y p2x p2y t : K) : K :=
  let v0 := ((1 : K) - t)
  ((((v0 * v0) * p0y) + ((((2 : K) * v0) * t) * p1y)) + ((t * t) * p2y))

@[gen_def] def quad_pointAtTime (p0x p0y p1x p1y p2x p2y t : K) : List K :=
  [quad_pointAtTime_x p0x p0y p1x p1y p2x p2y t, quad_pointAtTime_y p0x p0y p1x p1y p2x p2y t]


/-- CubicBezier.pointAtTime -/

@[gen_def] def cubic_pointAtTime_x (p0x p0y p1x p1y p2x p2y p3x p3y t : K) : K :=
  let v0 := ((1 : K) - t)
  let v1 := ((3 : K) * v0)
  ((((((v0 * v0) * v0) * p0x) + (((v1 * v0) * t) * p1x)) + (((v1 * t) * t) * p2x)) + (((t * t) * t) * p3x))

@[gen_def] def cubic_pointAtTime_y (p0x p0y p1x p1y p2x p2y p3x p3y t : K) : K :=
  let v0 := ((1 : K) - t)
  let v1 := ((3 : K) * v0)
  ((((((v0 * v0) * v0) * p0y) + (((v1 * v0) * t) * p1y)) + (((v1 * t) * t) * p2y)) + (((t * t) * t) * p3y))

@[gen_def] def cubic_pointAtTime (p0x p0y p1x p1y p2x p2y p3x p3y t : K) : List K :=
  [cubic_pointAtTime_x p0x p0y p1x p1y p2x p2y p3x p3y t, cubic_pointAtTime_y p0x p0y p1x p1y p2x p2y p3x p3y t]


/-- Line.splitAtTime -/

@[gen_def] def line_splitAtTime_l0x (p0x p0y p1x p1y t : K) : K :=
  p0x

@[gen_def] def line_splitAtTime_l0y (p0x p0y p1x p1y t : K) : K :=
  p0y

@[gen_def] def line_splitAtTime_l1x (p0x p0y p1x p1y t : K) : K :=
  ((p0x * ((1 : K) - t)) + (p1x * t))

@[gen_def] def line_splitAtTime_l1y (p0x p0y p1x p1y t : K) : K :=
  ((p0y * ((1 : K) - t)) + (p1y * t))

@[gen_def] def line_splitAtTime_r0x (p0x p0y p1x p1y t : K) : K :=
  ((p0x * ((1 : K) - t)) + (p1x * t))

@[gen_def] def line_splitAtTime_r0y (p0x p0y p1x p1y t : K) : K :=
  ((p0y * ((1 : K) - t)) + (p1y * t))

@[gen_def] def line_splitAtTime_r1x (p0x p0y p1x p1y t : K) : K :=
  p1x

@[gen_def] def line_splitAtTime_r1y (p0x p0y p1x p1y t : K) : K :=
  p1y

@[gen_def] def line_splitAtTime (p0x p0y p1x p1y t : K) : List K :=
  [line_splitAtTime_l0x p0x p0y p1x p1y t, line_splitAtTime_l0y p0x p0y p1x p1y t, line_splitAtTime_l1x p0x p0y p1x p1y t, line_splitAtTime_l1y p0x p0y p1x p1y t, line_splitAtTime_r0x p0x p0y p1x p1y t, line_splitAtTime_r0y p0x p0y p1x p1y t, line_splitAtTime_r1x p0x p0y p1x p1y t, line_splitAtTime_r1y p0x p0y p1x p1y t]


/-- QuadraticBezier.splitAtTime -/

@[gen_def] def quad_splitAtTime_l0x (p0x p0y p1x p1y p2x p2y t : K) : K :=
  p0x

@[gen_def] def quad_splitAtTime_l0y (p0x p0y p1x p1y p2x p2y t : K) : K :=
  p0y

@[gen_def] def quad_splitAtTime_l1x (p0x p0y p1x p1y p2x p2y t : K) : K :=
  ((p0x * ((1 : K) - t)) + (p1x * t))

@[gen_def] def quad_splitAtTime_l1y (p0x p0y p1x p1y p2x p2y t : K) : K :=
  ((p0y * ((1 : K) - t)) + (p1y * t))

@[gen_def] def quad_splitAtTime_l2x (p0x p0y p1x p1y p2x p2y t : K) : K :=
  let v0 := ((1 : K) - t)
  ((((p0x * v0) + (p1x * t)) * v0) + (((p1x * v0) + (p2x * t)) * t))

@[gen_def] def quad_splitAtTime_l2y (p0x p0y p1x p1y p2x p2y t : K) : K :=
  let v0 := ((1 : K) - t)
  ((((p0y * v0) + (p1y * t)) * v0) + (((p1y * v0) + (p2y * t)) * t))

@[gen_def] def quad_splitAtTime_r0x (p0x p0y p1x p1y p2x p2y t : K) : K :=
  let v0 := ((1 : K) - t)
  ((((p0x * v0) + (p1x * t)) * v0) + (((p1x * v0) + (p2x * t)) * t))

@[gen_def] def quad_splitAtTime_r0y (p0x p0y p1x p1y p2x p2y t : K) : K :=
  let v0 := ((1 : K) - t)
  ((((p0y * v0) + (p1y * t)) * v0) + (((p1y * v0) + (p2y * t)) * t))

@[gen_def] def quad_splitAtTime_r1x (p0x p0y p1x p1y p2x p2y t : K) : K :=
  ((p1x * ((1 : K) - t)) + (p2x * t))

@[gen_def] def quad_splitAtTime_r1y (p0x p0y p1x p1y p2x p2y t : K) : K :=
  ((p1y * ((1 : K) - t)) + (p2y * t))

@[gen_def] def quad_splitAtTime_r2x (p0x p0y p1x p1y p2x p2y t : K) : K :=
  p2x

@[gen_def] def quad_splitAtTime_r2y (p0x p0y p1x p1y p2x p2y t : K) : K :=
  p2y

@[gen_def] def quad_splitAtTime (p0x p0y p1x p1y p2x p2y t : K) : List K :=
  [quad_splitAtTime_l0x p0x p0y p1x p1y p2x p2y t, quad_splitAtTime_l0y p0x p0y p1x p1y p2x p2y t, quad_splitAtTime_l1x p0x p0y p1x p1y p2x p2y t, quad_splitAtTime_l1y p0x p0y p1x p1y p2x p2y t, quad_splitAtTime_l2x p0x p0y p1x p1y p2x p2y t, quad_splitAtTime_l2y p0x p0y p1x p1y p2x p2y t, quad_splitAtTime_r0x p0x p0y p1x p1y p2x p2y t, quad_splitAtTime_r0y p0x p0y p1x p1y p2x p2y t, quad_splitAtTime_r1x p0x p0y p1x p1y p2x p2y t, quad_splitAtTime_r1y p0x p0y p1x p1y p2x p2y t, quad_splitAtTime_r2x p0x p0y p1x p1y p2x p2y t, quad_splitAtTime_r2y p0x p0y p1x p1y p2x p2y t]


/-- CubicBezier.splitAtTime -/

@[gen_def] def cubic_splitAtTime_l0x (p0x p0y p1x p1y p2x p2y p3x p3y t : K) : K :=
  p0x

@[gen_def] def cubic_splitAtTime_l0y (p0x p0y p1x p1y p2x p2y p3x p3y t : K) : K :=
  p0y

@[gen_def] def cubic_splitAtTime_l1x (p0x p0y p1x p1y p2x p2y p3x p3y t : K) : K :=
  ((p0x * ((1 : K) - t)) + (p1x * t))

@[gen_def] def cubic_splitAtTime_l1y (p0x p0y p1x p1y p2x p2y p3x p3y t : K) : K :=
  ((p0y * ((1 : K) - t)) + (p1y * t))

@[gen_def] def cubic_splitAtTime_l2x (p0x p0y p1x p1y p2x p2y p3x p3y t : K) : K :=
  let v0 := ((1 : K) - t)
  ((((p0x * v0) + (p1x * t)) * v0) + (((p1x * v0) + (p2x * t)) * t))

@[gen_def] def cubic_splitAtTime_l2y (p0x p0y p1x p1y p2x p2y p3x p3y t : K) : K :=
  let v0 := ((1 : K) - t)
  ((((p0y * v0) + (p1y * t)) * v0) + (((p1y * v0) + (p2y * t)) * t))

@[gen_def] def cubic_splitAtTime_l3x (p0x p0y p1x p1y p2x p2y p3x p3y t : K) : K :=
  let v0 := ((1 : K) - t)
  let v1 := ((p1x * v0) + (p2x * t))
  ((((((p0x * v0) + (p1x * t)) * v0) + (v1 * t)) * v0) + (((v1 * v0) + (((p2x * v0) + (p3x * t)) * t)) * t))

@[gen_def] def cubic_splitAtTime_l3y (p0x p0y p1x p1y p2x p2y p3x p3y t : K) : K :=
  let v0 := ((1 : K) - t)
  let v1 := ((p1y * v0) + (p2y * t))
  ((((((p0y * v0) + (p1y * t)) * v0) + (v1 * t)) * v0) + (((v1 * v0) + (((p2y * v0) + (p3y * t)) * t)) * t))

@[gen_def] def cubic_splitAtTime_r0x (p0x p0y p1x p1y p2x p2y p3x p3y t : K) : K :=
  let v0 := ((1 : K) - t)
  let v1 := ((p1x * v0) + (p2x * t))
  ((((((p0x * v0) + (p1x * t)) * v0) + (v1 * t)) * v0) + (((v1 * v0) + (((p2x * v0) + (p3x * t)) * t)) * t))

@[gen_def] def cubic_splitAtTime_r0y (p0x p0y p1x p1y p2x p2y p3x p3y t : K) : K :=
  let v0 := ((1 : K) - t)
  let v1 := ((p1y * v0) + (p2y * t))
  ((((((p0y * v0) + (p1y * t)) * v0) + (v1 * t)) * v0) + (((v1 * v0) + (((p2y * v0) + (p3y * t)) * t)) * t))

@[gen_def] def cubic_splitAtTime_r1x (p0x p0y p1x p1y p2x p2y p3x p3y t : K) : K :=
  let v0 := ((1 : K) - t)
  ((((p1x * v0) + (p2x * t)) * v0) + (((p2x * v0) + (p3x * t)) * t))

@[gen_def] def cubic_splitAtTime_r1y (p0x p0y p1x p1y p2x p2y p3x p3y t : K) : K :=
  let v0 := ((1 : K) - t)
  ((((p1y * v0) + (p2y * t)) * v0) + (((p2y * v0) + (p3y * t)) * t))

@[gen_def] def cubic_splitAtTime_r2x (p0x p0y p1x p1y p2x p2y p3x p3y t : K) : K :=
  ((p2x * ((1 : K) - t)) + (p3x * t))

@[gen_def] def cubic_splitAtTime_r2y (p0x p0y p1x p1y p2x p2y p3x p3y t : K) : K :=
  ((p2y * ((1 : K) - t)) + (p3y * t))

@[gen_def] def cubic_splitAtTime_r3x (p0x p0y p1x p1y p2x p2y p3x p3y t : K) : K :=
  p3x

@[gen_def] def cubic_splitAtTime_r3y (p0x p0y p1x p1y p2x p2y p3x p3y t : K) : K :=
  p3y

@[gen_def] def cubic_splitAtTime (p0x p0y p1x p1y p2x p2y p3x p3y t : K) : List K :=
  [cubic_splitAtTime_l0x p0x p0y p1x p1y p2x p2y p3x p3y t, cubic_splitAtTime_l0y p0x p0y p1x p1y p2x p2y p3x p3y t, cubic_splitAtTime_l1x p0x p0y p1x p1y p2x p2y p3x p3y t, cubic_splitAtTime_l1y p0x p0y p1x p1y p2x p2y p3x p3y t, cubic_splitAtTime_l2x p0x p0y p1x p1y p2x p2y p3x p3y t, cubic_splitAtTime_l2y p0x p0y p1x p1y p2x p2y p3x p3y t, cubic_splitAtTime_l3x p0x p0y p1x p1y p2x p2y p3x p3y t, cubic_splitAtTime_l3y p0x p0y p1x p1y p2x p2y p3x p3y t, cubic_splitAtTime_r0x p0x p0y p1x p1y p2x p2y p3x p3y t, cubic_splitAtTime_r0y p0x p0y p1x p1y p2x p2y p3x p3y t, cubic_splitAtTime_r1x p0x p0y p1x p1y p2x p2y p3x p3y t, cubic_splitAtTime_r1y p0x p0y p1x p1y p2x p2y p3x p3y t, cubic_splitAtTime_r2x p0x p0y p1x p1y p2x p2y p3x p3y t, cubic_splitAtTime_r2y p0x p0y p1x p1y p2x p2y p3x p3y t, cubic_splitAtTime_r3x p0x p0y p1x p1y p2x p2y p3x p3y t, cubic_splitAtTime_r3y p0x p0y p1x p1y p2x p2y p3x p3y t]


/-- QuadraticBezier.derivative (a Line) -/

@[gen_def] def quad_derivative_d0x (p0x p0y p1x p1y p2x p2y : K) : K :=
  ((p1x - p0x) * (2 : K))

@[gen_def] def quad_derivative_d0y (p0x p0y p1x p1y p2x p2y : K) : K :=
  ((p1y - p0y) * (2 : K))

@[gen_def] def quad_derivative_d1x (p0x p0y p1x p1y p2x p2y : K) : K :=
  ((p2x - p1x) * (2 : K))

@[gen_def] def quad_derivative_d1y (p0x p0y p1x p1y p2x p2y : K) : K :=
  ((p2y - p1y) * (2 : K))

@[gen_def] def quad_derivative (p0x p0y p1x p1y p2x p2y : K) : List K :=
  [quad_derivative_d0x p0x p0y p1x p1y p2x p2y, quad_derivative_d0y p0x p0y p1x p1y p2x p2y, quad_derivative_d1x p0x p0y p1x p1y p2x p2y, quad_derivative_d1y p0x p0y p1x p1y p2x p2y]


/-- CubicBezier.derivative (a QuadraticBezier) -/

@[gen_def] def cubic_derivative_d0x (p0x p0y p1x p1y p2x p2y p3x p3y : K) : K :=
  ((p1x - p0x) * (3 : K))

@[gen_def] def cubic_derivative_d0y (p0x p0y p1x p1y p2x p2y p3x p3y : K) : K :=
  ((p1y - p0y) * (3 : K))

@[gen_def] def cubic_derivative_d1x (p0x p0y p1x p1y p2x p2y p3x p3y : K) : K :=
  ((p2x - p1x) * (3 : K))

@[gen_def] def cubic_derivative_d1y (p0x p0y p1x p1y p2x p2y p3x p3y : K) : K :=
  ((p2y - p1y) * (3 : K))

@[gen_def] def cubic_derivative_d2x (p0x p0y p1x p1y p2x p2y p3x p3y : K) : K :=
  ((p3x - p2x) * (3 : K))

@[gen_def] def cubic_derivative_d2y (p0x p0y p1x p1y p2x p2y p3x p3y : K) : K :=
  ((p3y - p2y) * (3 : K))

@[gen_def] def cubic_derivative (p0x p0y p1x p1y p2x p2y p3x p3y : K) : List K :=
  [cubic_derivative_d0x p0x p0y p1x p1y p2x p2y p3x p3y, cubic_derivative_d0y p0x p0y p1x p1y p2x p2y p3x p3y, cubic_derivative_d1x p0x p0y p1x p1y p2x p2y p3x p3y, cubic_derivative_d1y p0x p0y p1x p1y p2x p2y p3x p3y, cubic_derivative_d2x p0x p0y p1x p1y p2x p2y p3x p3y, cubic_derivative_d2y p0x p0y p1x p1y p2x p2y p3x p3y]


def shape_line_splitAtTime : String := "(Line,Line)"
def shape_quad_splitAtTime : String := "(QuadraticBezier,QuadraticBezier)"
def shape_cubic_splitAtTime : String := "(CubicBezier,CubicBezier)"
def shape_quad_derivative : String := "Line"
def shape_cubic_derivative : String := "QuadraticBezier"
def shape_quad_toCubicBezier : String := "CubicBezier"

end Gen

/-- evaluation at K = ℚ for the correspondence driver -/
def Gen.dispatchEval (tbl : FnTable) (name : String) (a : List ℚ) : Option (List ℚ) :=
  match name with
  | "point_lerp" => if a.length = 5 then some (Gen.point_lerp (a.getD 0 0) (a.getD 1 0) (a.getD 2 0) (a.getD 3 0) (a.getD 4 0)) else none
  | "line_pointAtTime" => if a.length = 5 then some (Gen.line_pointAtTime (a.getD 0 0) (a.getD 1 0) (a.getD 2 0) (a.getD 3 0) (a.getD 4 0)) else none
  | "quad_pointAtTime" => if a.length = 7 then some (Gen.quad_pointAtTime (a.getD 0 0) (a.getD 1 0) (a.getD 2 0) (a.getD 3 0) (a.getD 4 0) (a.getD 5 0) (a.getD 6 0)) else none
  | "cubic_pointAtTime" => if a.length = 9 then some (Gen.cubic_pointAtTime (a.getD 0 0) (a.getD 1 0) (a.getD 2 0) (a.getD 3 0) (a.getD 4 0) (a.getD 5 0) (a.getD 6 0) (a.getD 7 0) (a.getD 8 0)) else none
  | "line_splitAtTime" => if a.length = 5 then some (Gen.line_splitAtTime (a.getD 0 0) (a.getD 1 0) (a.getD 2 0) (a.getD 3 0) (a.getD 4 0)) else none
  | "quad_splitAtTime" => if a.length = 7 then some (Gen.quad_splitAtTime (a.getD 0 0) (a.getD 1 0) (a.getD 2 0) (a.getD 3 0) (a.getD 4 0) (a.getD 5 0) (a.getD 6 0)) else none
  | "cubic_splitAtTime" => if a.length = 9 then some (Gen.cubic_splitAtTime (a.getD 0 0) (a.getD 1 0) (a.getD 2 0) (a.getD 3 0) (a.getD 4 0) (a.getD 5 0) (a.getD 6 0) (a.getD 7 0) (a.getD 8 0)) else none
  | "quad_derivative" => if a.length = 6 then some (Gen.quad_derivative (a.getD 0 0) (a.getD 1 0) (a.getD 2 0) (a.getD 3 0) (a.getD 4 0) (a.getD 5 0)) else none
  | "cubic_derivative" => if a.length = 8 then some (Gen.cubic_derivative (a.getD 0 0) (a.getD 1 0) (a.getD 2 0) (a.getD 3 0) (a.getD 4 0) (a.getD 5 0) (a.getD 6 0) (a.getD 7 0)) else none
  | _ => none
