/-
  GENERATED FILE -- do not edit.  Regenerated on every check run by /verif/harness from the
  Python source under /repo/src/beziers (symbolic tracing of the real code); see DESIGN.md 2.2.
-/
import BezierVerif.Basic

set_option maxRecDepth 100000
set_option linter.unusedVariables false

namespace Gen
variable {K : Type} [Field K] [LinearOrder K] [IsStrictOrderedRing K]


/-- Line.tOfPoint(point) (its_on_the_line_i_swear=False) -/

@[gen_def] def line_tOfPoint (sqrt : K → K) (p0x p0y p1x p1y qx qy : K) : List K :=
  if isclose p1x p0x ((1 : K) / 1000000000) (0 : K) then
    if isclose p1y p0y ((1 : K) / 1000000000) (0 : K) then
      [(-1 : K)]
    else
      if (sqrt (((((p0x * ((1 : K) - ((qy - p0y) / (p1y - p0y)))) + (p1x * ((qy - p0y) / (p1y - p0y)))) - qx) * (((p0x * ((1 : K) - ((qy - p0y) / (p1y - p0y)))) + (p1x * ((qy - p0y) / (p1y - p0y)))) - qx)) + ((((p0y * ((1 : K) - ((qy - p0y) / (p1y - p0y)))) + (p1y * ((qy - p0y) / (p1y - p0y)))) - qy) * (((p0y * ((1 : K) - ((qy - p0y) / (p1y - p0y)))) + (p1y * ((qy - p0y) / (p1y - p0y)))) - qy)))) < ((1 : K) / 5000000) then
        [((qy - p0y) / (p1y - p0y))]
      else
        [(-1 : K)]
  else
    if (sqrt (((((p0x * ((1 : K) - ((qx - p0x) / (p1x - p0x)))) + (p1x * ((qx - p0x) / (p1x - p0x)))) - qx) * (((p0x * ((1 : K) - ((qx - p0x) / (p1x - p0x)))) + (p1x * ((qx - p0x) / (p1x - p0x)))) - qx)) + ((((p0y * ((1 : K) - ((qx - p0x) / (p1x - p0x)))) + (p1y * ((qx - p0x) / (p1x - p0x)))) - qy) * (((p0y * ((1 : K) - ((qx - p0x) / (p1x - p0x)))) + (p1y * ((qx - p0x) / (p1x - p0x)))) - qy)))) < ((1 : K) / 5000000) then
      [((qx - p0x) / (p1x - p0x))]
    else
      [(-1 : K)]

/-- the single value returned -/
@[gen_def] def line_tOfPoint_v (sqrt : K → K) (p0x p0y p1x p1y qx qy : K) : K :=
  (line_tOfPoint sqrt p0x p0y p1x p1y qx qy).headD 0


/-- Line.tOfPoint(point, its_on_the_line_i_swear=True) -/

@[gen_def] def line_tOfPoint_sworn (p0x p0y p1x p1y qx qy : K) : List K :=
  if isclose p1x p0x ((1 : K) / 1000000000) (0 : K) then
    if isclose p1y p0y ((1 : K) / 1000000000) (0 : K) then
      [(-1 : K)]
    else
      [((qy - p0y) / (p1y - p0y))]
  else
    [((qx - p0x) / (p1x - p0x))]

/-- the single value returned -/
@[gen_def] def line_tOfPoint_sworn_v (p0x p0y p1x p1y qx qy : K) : K :=
  (line_tOfPoint_sworn p0x p0y p1x p1y qx qy).headD 0


end Gen

/-- evaluation at K = ℚ for the correspondence driver -/
def Gen.dispatchLookup (tbl : FnTable) (name : String) (a : List ℚ) : Option (List ℚ) :=
  match name with
  | "line_tOfPoint" => if a.length = 6 then some (Gen.line_tOfPoint (tbl.sqrt) (a.getD 0 0) (a.getD 1 0) (a.getD 2 0) (a.getD 3 0) (a.getD 4 0) (a.getD 5 0)) else none
  | "line_tOfPoint_sworn" => if a.length = 6 then some (Gen.line_tOfPoint_sworn (a.getD 0 0) (a.getD 1 0) (a.getD 2 0) (a.getD 3 0) (a.getD 4 0) (a.getD 5 0)) else none
  | _ => none
