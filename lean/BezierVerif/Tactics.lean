import BezierVerif.Basic
import Mathlib.Tactic.Ring
import Mathlib.Tactic.FieldSimp
import Mathlib.Tactic.Linarith

/-- unfold every generated definition, split list equalities component-wise, close each by `ring` -/
macro "gen_ring" : tactic =>
  `(tactic| (simp only [gen_def, List.cons.injEq, and_true]
             try (repeat' constructor)
             all_goals (try ring)))

/-- same, but normalising divisions first -/
macro "gen_field" : tactic =>
  `(tactic| (simp only [gen_def, List.cons.injEq, and_true]
             try (repeat' constructor)
             all_goals (try (field_simp))
             all_goals (try ring)))
