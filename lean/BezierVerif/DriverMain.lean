import BezierVerif.Driver
import BezierVerif.ModelDriver
import BezierVerif.HeapDriver

namespace Driver

def step (line : String) : String :=
  match words line.trimAscii.toString with
  | "gen" :: rest => handleGen rest
  | "model" :: "heap.history" :: rest => HeapDriver.runHistory rest
  | "model" :: name :: rest => ModelDriver.handle name rest
  | "ping" :: _ => "pong"
  | _ => "bad-op"

partial def loop (h : IO.FS.Stream) : IO Unit := do
  let line ← h.getLine
  if line.isEmpty then return ()
  IO.println (step line)
  loop h

end Driver
