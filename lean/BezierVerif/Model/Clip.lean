/-
  Hand model (H) of the reconstruction loop of BooleanOperationsMixin.clip: for every polygon returned
  by pyclipper, walk its consecutive vertex pairs *including the closing pair* (the repaired
  `pairwise(list(p) + [p[0]])`; the pinned `pairwise(p)` is `edges`), look each pair up in the
  reconstruction table, suppress an immediate repeat of the same original segment, fall back to a
  straight edge scaled back by the precision.  pyclipper itself and the table are parameters:
  theorems hold for every clipper answer and every table.
  `S` = segment values, `V` = clipper vertices.  Core Lean only.
-/

namespace Clip
variable {V S : Type}

/-- `pairwise(points)`: consecutive pairs -/
def edges : List V → List (V × V)
  | a :: b :: rest => (a, b) :: edges (b :: rest)
  | _ => []

/-- the repaired walk: `pairwise(list(p) + [p[0]])` -/
def wrapEdges : List V → List (V × V)
  | [] => []
  | a :: rest => edges (a :: rest ++ [a])

/-- reconstruction of one contour.  `lut` = reconstructionLUT as a function, `line s e` = the straight
    fallback edge `Line(start / precision, end / precision)`; `flat` = polygon mode. -/
def reconWalk [DecidableEq S] (lut : V × V → Option S) (line : V → V → S) (flat : Bool) :
    List S → List (V × V) → List S
  | acc, [] => acc
  | acc, (s, e) :: rest =>
    match (if flat then none else lut (s, e)) with
    | some orig =>
      if acc = [] ∨ acc.getLast? ≠ some orig then reconWalk lut line flat (acc ++ [orig]) rest
      else reconWalk lut line flat acc rest
    | none => reconWalk lut line flat (acc ++ [line s e]) rest

/-- curve-preserving mode only: the contour is cyclic, so when the run of edges that ends it belongs to the same
    original segment as the run that starts it, that segment is not repeated
    (`if not flat and len(newpath) > 1 and newpath[-1] == newpath[0]: newpath.pop()`) -/
def cyclicTrim [DecidableEq S] (flat : Bool) (l : List S) : List S :=
  if flat = false ∧ 1 < l.length ∧ l.getLast? = l.head? then l.dropLast else l

def recon [DecidableEq S] (lut : V × V → Option S) (line : V → V → S) (flat : Bool) (poly : List V) : List S :=
  cyclicTrim flat (reconWalk lut line flat [] (wrapEdges poly))

/-- the first repair alone (closing edge walked, no cyclic trim): repeats the first segment at the end -/
def reconUntrimmed [DecidableEq S] (lut : V × V → Option S) (line : V → V → S) (flat : Bool) (poly : List V) : List S :=
  reconWalk lut line flat [] (wrapEdges poly)

/-- the pinned code: no wrap-around -/
def reconPinned [DecidableEq S] (lut : V × V → Option S) (line : V → V → S) (flat : Bool) (poly : List V) : List S :=
  reconWalk lut line flat [] (edges poly)

end Clip
