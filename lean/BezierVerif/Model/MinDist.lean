/-
  Hand model (H) of utils/curvedistance.py `MinimumCurveDistanceFinder.minDist`: corner values,
  the running best value, pruning, the two "property" checks, the subdivision point and the
  four-way recursion.  `S` (the squared-distance surface) and `D` (its Bernstein coefficients) are
  parameters: in the driver they are the *generated* definitions of Gen/Dist.lean.
  Fuel stands for Python's recursion; `none` = fuel exhausted.
-/
import Mathlib.Algebra.Order.Field.Basic
import Mathlib.Algebra.Order.Group.Abs

namespace MinDist
variable {K : Type} [Field K] [LinearOrder K]

structure Params (K : Type) where
  n : Nat
  m : Nat
  S : K → K → K
  D : Nat → Nat → K
  eps : K

/-- `[value, u, v]` -/
abbrev Triple (K : Type) := K × K × K

/-- Python `min(list, key=lambda x: x[0])`: the first element with the least key. -/
def minBy : List (Triple K) → Option (Triple K)
  | [] => none
  | x :: xs =>
    match minBy xs with
    | none => some x
    | some y => if y.1 < x.1 then some y else some x

/-- all pairs (r, k), r < a, k < b, row major: the double loops of the code -/
def grid (a b : Nat) : List (Nat × Nat) := (List.range a).flatMap fun r => (List.range b).map fun k => (r, k)

/-- `if drk < alpha: isOutside = False` -/
def isOutside (P : Params K) (alpha : K) : Bool :=
  (grid (2 * P.n) (2 * P.m)).all fun rk => ¬ (P.D rk.1 rk.2 < alpha)

/-- `if not minDRK or drk < minDRK: minDRK = drk; minIJ = (r, k)`  (`not 0.0` is True) -/
def minIJ (P : Params K) : Nat × Nat :=
  ((grid (2 * P.n) (2 * P.m)).foldl (fun (st : Option K × (Nat × Nat)) rk =>
      let drk := P.D rk.1 rk.2
      match st.1 with
      | none => (some drk, rk)
      | some d => if d = 0 ∨ drk < d then (some drk, rk) else st) (none, (0, 0))).2

/-- the four boundary flags of "Property 2" (note `D(i, 2*n)` in the last one, as in the source) -/
def flags (P : Params K) : Bool × Bool × Bool × Bool :=
  (grid (2 * P.n) (2 * P.m)).foldl (fun (f : Bool × Bool × Bool × Bool) ij =>
      let dij := P.D ij.1 ij.2
      (f.1 && ¬ (dij < P.D 0 ij.2), f.2.1 && ¬ (dij < P.D (2 * P.n) ij.2),
       f.2.2.1 && ¬ (dij < P.D ij.1 0), f.2.2.2 && ¬ (dij < P.D ij.1 (2 * P.n))))
    (true, true, true, true)

/-- `self.bestAlpha and alpha > self.bestAlpha` -/
def beaten (best : Option K) (alpha : K) : Bool :=
  match best with
  | none => false
  | some b => b ≠ 0 ∧ alpha > b

/-- what one call does before (possibly) recursing -/
inductive Act (K : Type)
  | ret (t : Triple K)
  | split (nu nv : K)

/-- the non-recursive part of one `minDist` call: returns the action and the updated `bestAlpha` -/
def act (P : Params K) (best : Option K) (u v : K × K) : Option (Act K × Option K) :=
  let umin := u.1; let umax := u.2; let vmin := v.1; let vmax := v.2
  let umid := (umin + umax) / 2
  let vmid := (vmin + vmax) / 2
  let sv : List (Triple K) := [(P.S umin vmin, umin, vmin), (P.S umin vmax, umin, vmax),
                               (P.S umax vmin, umax, vmin), (P.S umax vmax, umax, vmax)]
  match minBy sv with
  | none => none
  | some a =>
    let alpha := a.1
    if beaten best alpha then some (.ret (alpha, umid, vmid), best)
    else
      let best := some alpha
      if |umax - umin| ≤ P.eps ∨ |vmax - vmin| ≤ P.eps then some (.ret (alpha, umid, vmid), best)
      else if isOutside P alpha then some (.ret (alpha, umid, vmid), best)
      else
        let f := flags P
        if f.1 && f.2.2.1 then some (.ret (P.S umin vmin, umin, vmin), best)
        else if f.1 && f.2.2.2 then some (.ret (P.S umin vmax, umin, vmax), best)
        else if f.2.1 && f.2.2.1 then some (.ret (P.S umax vmin, umax, vmin), best)
        else if f.2.1 && f.2.2.2 then some (.ret (P.S umax vmax, umax, vmax), best)
        else
          let ij := minIJ P
          some (.split (umin + (umax - umin) * ((ij.1 : K) / ((2 * P.n : Nat) : K)))
                       (vmin + (vmax - vmin) * ((ij.2 : K) / ((2 * P.m : Nat) : K))), best)

def minDist (P : Params K) : Nat → Option K → K × K → K × K → Option (Triple K × Option K)
  | 0, _, _, _ => none
  | fuel + 1, best, (umin, umax), (vmin, vmax) =>
    match act P best (umin, umax) (vmin, vmax) with
    | none => none
    | some (.ret t, b) => some (t, b)
    | some (.split nu nv, b) =>
      match minDist P fuel b (umin, nu) (vmin, nv) with
      | none => none
      | some (r1, b1) =>
        match minDist P fuel b1 (umin, nu) (nv, vmax) with
        | none => none
        | some (r2, b2) =>
          match minDist P fuel b2 (nu, umax) (vmin, nv) with
          | none => none
          | some (r3, b3) =>
            match minDist P fuel b3 (nu, umax) (nv, vmax) with
            | none => none
            | some (r4, b4) =>
              match minBy [r1, r2, r3, r4] with
              | none => none
              | some r => some (r, b4)

end MinDist
