/-
  Hand model (H) for C05 of utils/intersectionsmixin.py `intersections` (dispatch by order, the
  `limited` range filter), `_curve_line_intersections(_t)` and of the glue in
  `CubicBezier._findRoots` / `_polishRoots` (cubicbezier.py).  Everything numerical is a call of a
  *generated* definition: `line_line`, `line_tOfPoint_sworn`, `quadraticRoots(_unlimited)`,
  `quad_rootcoeffs_y`, `cubic_rootcoeffs_y`, `cubic_findRoots_dispatch`.  The Cardano closed forms enter
  as an oracle list (`cardano`): the theorems quantify over every such list.
-/
import BezierVerif.Gen.Inter
import BezierVerif.Gen.Eval
import BezierVerif.Model.Seg

namespace Inter
variable {K : Type} [Field K] [LinearOrder K] [IsStrictOrderedRing K]
open Gen

/-- `withinRange`: not below `my_epsilon`, not above `1.0 + my_epsilon` -/
def within (t : K) : Bool := !decide (t < (1 : K) / 5000000) && !decide (t > (5000001 : K) / 5000000)

/-- Python's `sorted` on numbers -/
def sortK (l : List K) : List K := l.mergeSort (fun a b => decide (a ≤ b))

/-- one Newton step of `_polishRoots` on d t³ + a t² + b t + c; `break` when the derivative vanishes
    (the value then stays put, so iterating the step is the same as breaking out) -/
def polishStep (a b c d t : K) : K :=
  let ft := ((d * t + a) * t + b) * t + c
  let dft := (3 * d * t + 2 * a) * t + b
  if dft = 0 then t else t - ft / dft

/-- `for _ in range(4)` -/
def polish (a b c d t : K) : K :=
  polishStep a b c d (polishStep a b c d (polishStep a b c d (polishStep a b c d t)))

/-- `_polishRoots(roots, a, b, c, d)` -/
def polishRoots (roots : List K) (a b c d : K) : List K :=
  sortK ((roots.map (polish a b c d)).filter fun x => decide (0 ≤ x) && decide (x ≤ 1))

/-- `QuadraticBezier._findRoots("y")` on the aligned curve -/
def quadRoots (sqrt : K → K) (a b c : Pt K) : List K :=
  quadraticRoots sqrt (quad_rootcoeffs_y_a a.x a.y b.x b.y c.x c.y) (quad_rootcoeffs_y_b a.x a.y b.x b.y c.x c.y)
    (quad_rootcoeffs_y_c a.x a.y b.x b.y c.x c.y)

/-- `CubicBezier._findRoots("y")` on the aligned curve; `cardano` = what the closed forms produced -/
def cubicRoots (sqrt : K → K) (p0 p1 p2 p3 : Pt K) (cardano : List K) : List K :=
  let a := cubic_rootcoeffs_y_a p0.x p0.y p1.x p1.y p2.x p2.y p3.x p3.y
  let b := cubic_rootcoeffs_y_b p0.x p0.y p1.x p1.y p2.x p2.y p3.x p3.y
  let c := cubic_rootcoeffs_y_c p0.x p0.y p1.x p1.y p2.x p2.y p3.x p3.y
  let d := cubic_rootcoeffs_y_d p0.x p0.y p1.x p1.y p2.x p2.y p3.x p3.y
  let code := cubic_findRoots_dispatch_v p0.x p0.y p1.x p1.y p2.x p2.y p3.x p3.y
  if code = 0 then sortK (quadraticRoots sqrt a b c)
  else if code = 1 then polishRoots (quadraticRoots_unlimited sqrt a b c) a b c d
  else polishRoots cardano a b c d

/-- `_curve_line_intersections_t`: sorted roots of the aligned curve's y-polynomial -/
def curveLineT (sqrt : K → K) (aligned : Seg K) (cardano : List K) : List K :=
  match aligned with
  | Seg.quad a b c => sortK (quadRoots sqrt a b c)
  | Seg.cubic a b c d => sortK (cubicRoots sqrt a b c d cardano)
  | Seg.line _ _ => []

/-- `line.tOfPoint(p, its_on_the_line_i_swear=True)` -/
def tOfPointSworn (l : Seg K) (p : Pt K) : K :=
  match l with
  | Seg.line a b => line_tOfPoint_sworn_v a.x a.y b.x b.y p.x p.y
  | _ => -1

/-- `_curve_line_intersections` followed by the `limited` filter: pairs (t1, t2) -/
def curveLine (ts : List K) (curve line : Seg K) : List (K × K) :=
  (ts.map fun t => (t, tOfPointSworn line (curve.eval t))).filter fun p => within p.1 && within p.2

/-- `_line_line_intersections` followed by the `limited` filter -/
def lineLine (a b c d : Pt K) : List (K × K) :=
  match line_line a.x a.y b.x b.y c.x c.y d.x d.y with
  | [t1, t2] => if within t1 && within t2 then [(t1, t2)] else []
  | _ => []

/-- `intersections(self, other)` for pairs with at least one line: the (t1, t2) pairs, `seg1` being the
    operand of higher order (`aligned` = that operand after `line.alignmentTransformation()`). -/
def intersections (sqrt : K → K) (self other aligned : Seg K) (cardano : List K) : List (K × K) :=
  let s := if other.order > self.order then other else self
  let o := if other.order > self.order then self else other
  match s, o with
  | Seg.line a b, Seg.line c d => lineLine a b c d
  | s, Seg.line c d => curveLine (curveLineT sqrt aligned cardano) s (Seg.line c d)
  | _, _ => []          -- curve/curve: C06

end Inter
