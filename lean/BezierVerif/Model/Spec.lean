/-
  Reference specifications, independent of the code: Bernstein polynomials and a few
  geometric notions the property theorems are stated against.
-/
import Mathlib.Algebra.BigOperators.Group.Finset.Basic
import Mathlib.Data.Nat.Choose.Basic
import Mathlib.Algebra.Order.Field.Basic

namespace Spec
variable {K : Type} [Field K]

/-- Control coefficient list as a function ℕ → K (0 beyond the end). -/
def coeff (P : List K) (i : ℕ) : K := P.getD i 0

/-- The Bernstein polynomial of degree `n` with coefficients `P`:
    `Σ_{i ≤ n} C(n,i) (1-t)^(n-i) t^i P_i`. -/
def bern (n : ℕ) (P : List K) (t : K) : K :=
  ∑ i ∈ Finset.range (n + 1), (n.choose i : K) * (1 - t) ^ (n - i) * t ^ i * coeff P i

/-- squared Euclidean distance -/
def sqdist (ax ay bx by' : K) : K := (ax - bx) ^ 2 + (ay - by') ^ 2

end Spec
