/-
  Hand model (H) of `BezierPath.signed_area / area / direction` on a flattened path: the path is a
  list of straight edges; `signed_area` is the shoelace sum over them divided by 2.
  Tied to path/__init__.py (587-609) by the correspondence run (polygonal paths, exact rationals).
-/
import Mathlib.Algebra.Order.Field.Basic
import Mathlib.Algebra.Order.Group.Abs
import Mathlib.Algebra.BigOperators.Group.List.Basic

namespace Polygon
variable {K : Type} [Field K] [LinearOrder K]

structure Edge (K : Type) where
  sx : K
  sy : K
  ex : K
  ey : K
deriving Repr

/-- `for s in flat.asSegments(): area = area + s.start.x*s.end.y - s.start.y*s.end.x` -/
def shoelace2 (es : List (Edge K)) : K := (es.map fun e => e.sx * e.ey - e.sy * e.ex).sum
/-- `area / 2.0` -/
def signedArea (es : List (Edge K)) : K := shoelace2 es / 2
def area (es : List (Edge K)) : K := |signedArea es|
/-- `math.copysign(1, signed_area)` (the sign of zero is not modelled: 1) -/
def direction (es : List (Edge K)) : K := if signedArea es < 0 then -1 else 1

/-- the edges form a connected chain starting at `a` -/
def ChainFrom (a : K × K) : List (Edge K) → Prop
  | [] => True
  | e :: es => (e.sx, e.sy) = a ∧ ChainFrom (e.ex, e.ey) es

def endOf (a : K × K) : List (Edge K) → K × K
  | [] => a
  | e :: es => endOf (e.ex, e.ey) es

def Edge.scale (k : K) (e : Edge K) : Edge K := ⟨e.sx * k, e.sy * k, e.ex * k, e.ey * k⟩
def Edge.translate (vx vy : K) (e : Edge K) : Edge K := ⟨e.sx + vx, e.sy + vy, e.ex + vx, e.ey + vy⟩
def Edge.rev (e : Edge K) : Edge K := ⟨e.ex, e.ey, e.sx, e.sy⟩

/-- `signed_area` as the repaired code computes it (F32): the shoelace sum measured from the first point of the flattened path -/
def signedAreaFrom (es : List (Edge K)) : K :=
  match es with
  | [] => 0
  | e :: _ => signedArea (es.map (Edge.translate (-e.sx) (-e.sy)))
def areaFrom (es : List (Edge K)) : K := |signedAreaFrom es|
def directionFrom (es : List (Edge K)) : K := if signedAreaFrom es < 0 then -1 else 1

/-- geometricshapes.Rectangle: tl → tr → br → bl → tl -/
def rectangle (w h ox oy : K) : List (Edge K) :=
  let l := ox - w / 2; let r := ox + w / 2; let t := oy + h / 2; let b := oy - h / 2
  [⟨l, t, r, t⟩, ⟨r, t, r, b⟩, ⟨r, b, l, b⟩, ⟨l, b, l, t⟩]

end Polygon
