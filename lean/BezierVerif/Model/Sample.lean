/-
  Hand models (H) for C16 / C17:
  * `BezierPath.pointAtTime` / `lengthAtTime` (segment index = floor(t·n), the t == 1 special cases),
  * `SampleMixin.sample`, `regularSampleTValue` with the float stepping `t += step` and the target
    accumulation `desiredLength += length/samples` as *demonic parameters*: any list of parameters /
    targets the float loops may produce,
  * flattening of a curve over a list of sample points.
  `len s t` stands for `Segment.lengthAtTime` (quadrature of the left piece), a parameter.
-/
import BezierVerif.Model.Seg
import Mathlib.Algebra.Order.Floor.Ring
import Mathlib.Algebra.Order.Floor.Semiring
import Mathlib.Data.Rat.Floor

namespace Sample
variable {K : Type} [Field K] [LinearOrder K] [IsStrictOrderedRing K] [FloorRing K]

/-- BezierPath.pointAtTime: `none` = IndexError -/
def pathPointAt (segs : List (Seg K)) (t : K) : Option (Pt K) :=
  if t = 1 then segs.getLast?.map fun s => s.eval 1
  else
    let u := t * (segs.length : K)
    segs[⌊u⌋₊]?.map fun s => s.eval (u - (⌊u⌋₊ : K))

/-- which segment and which local parameter `lengthAtTime` / `pointAtTime` use -/
def pathIndex (n : Nat) (t : K) : Nat × K :=
  let u := t * (n : K)
  (⌊u⌋₊, u - (⌊u⌋₊ : K))

/-- BezierPath.lengthAtTime (with the `t == 1.0` case of the repaired code): `none` = IndexError -/
def pathLengthAt (len : Seg K → K → K) (segs : List (Seg K)) (t : K) : Option K :=
  if t = 1 then some ((segs.map fun s => len s 1).sum)
  else
    let u := t * (segs.length : K)
    match segs[⌊u⌋₊]? with
    | none => none
    | some s => some (((segs.take ⌊u⌋₊).map fun s => len s 1).sum + len s (u - (⌊u⌋₊ : K)))

/-- the same without the special case (the pinned code): t = 1 indexes past the end -/
def pathLengthAtPinned (len : Seg K → K → K) (segs : List (Seg K)) (t : K) : Option K :=
  let u := t * (segs.length : K)
  match segs[⌊u⌋₊]? with
  | none => none
  | some s => some (((segs.take ⌊u⌋₊).map fun s => len s 1).sum + len s (u - (⌊u⌋₊ : K)))

/-- the inner `while len(lut) > 0 and lut[0][1] < desiredLength: lut.pop(0)` -/
def popWhile (d : K) : List (K × K) → List (K × K)
  | [] => []
  | e :: rest => if e.2 < d then popWhile d rest else e :: rest

/-- the outer `while desiredLength < length` loop over an arbitrary target sequence -/
def walk : List (K × K) → List K → List K
  | _, [] => []
  | lut, d :: ds =>
    match popWhile d lut with
    | [] => []                       -- `if len(lut) == 0: break`
    | e :: rest => e.1 :: walk (e :: rest) ds

/-- `if rSamples[-1] != 1.0: rSamples.append(1.0)`; `none` = IndexError on an empty list -/
def finish (r : List K) : Option (List K) :=
  match r.getLast? with
  | none => none
  | some l => if l = 1 then some r else some (r ++ [1])

/-- regularSampleTValue given the lookup table and the target sequence the float loops produced -/
def regular (lut : List (K × K)) (targets : List K) : Option (List K) := finish (walk lut targets)

/-- `sample`: the points at the stepping parameters, then the end point -/
def sample (evalAt : K → Pt K) (ts : List K) : List (Pt K) := ts.map evalAt ++ [evalAt 1]

/-- flatten of a curve over sample points: consecutive points joined by lines -/
def joinLines : List (Pt K) → List (Seg K)
  | a :: b :: rest => Seg.line a b :: joinLines (b :: rest)
  | _ => []

end Sample
