/-
  Hand models (H) for C02 / C03:
  * `findExtremes` of the three kinds (cubic: concat of the two `quadraticRoots` calls, sort, filter
    [0.01, 0.99]; quadratic: the generated `_findDRoots`; line: none),
  * `Segment.bounds` (fold of the generated `BoundingBox.extend` over the points at the extremes, 0 and 1),
  * `BezierPath.bounds`, `splitAtPoints` (per-segment sorted cut list, the `t < 1e-8` skip, `mapx`
    re-mapping), `addExtremes`.
  The arithmetic leaves are the generated definitions; the list glue is transcribed by hand and tied
  to the code by the correspondence run.
-/
import BezierVerif.Model.Seg
import BezierVerif.Gen.Roots
import BezierVerif.Gen.Box

namespace Extremes
variable {K : Type} [Field K] [LinearOrder K] [IsStrictOrderedRing K]
open Gen

def insertSorted (x : K) : List K → List K
  | [] => [x]
  | y :: ys => if x < y then x :: y :: ys else y :: insertSorted x ys

/-- `r.sort()` on numbers (stable insertion order for ties is irrelevant for values) -/
def sort : List K → List K
  | [] => []
  | x :: xs => insertSorted x (sort xs)

/-- `[root for root in r if root >= 0.01 and root <= 0.99]` -/
def inBand (r : K) : Bool := (1 : K) / 100 ≤ r ∧ r ≤ (99 : K) / 100

/-- CubicBezier.findExtremes: `_findDRoots` (x roots then y roots), sort, filter -/
def cubicExtremes (sqrt : K → K) (a b c d : Pt K) : List K :=
  match cubic_dcoeffs a.x a.y b.x b.y c.x c.y d.x d.y with
  | [ax, bx, cx, ay, by', cy] =>
    (sort (quadraticRoots sqrt ax bx cx ++ quadraticRoots sqrt ay by' cy)).filter inBand
  | _ => []

def extremes (sqrt : K → K) : Seg K → List K
  | .line _ _ => []
  | .quad a b c => quad_findDRoots a.x a.y b.x b.y c.x c.y
  | .cubic a b c d => cubicExtremes sqrt a b c d

structure Box (K : Type) where
  l : K
  b : K
  r : K
  t : K
deriving DecidableEq, Repr

/-- `BoundingBox.extend(Point)`: the generated definitions, on an empty / non-empty box -/
def extend (bb : Option (Box K)) (p : Pt K) : Option (Box K) :=
  match bb with
  | none =>
    match bbox_extend_first p.x p.y with
    | [l, b, r, t] => some ⟨l, b, r, t⟩
    | _ => none
  | some bb =>
    match bbox_extend_point bb.l bb.b bb.r bb.t p.x p.y with
    | [l, b, r, t] => some ⟨l, b, r, t⟩
    | _ => none

/-- `Segment.bounds`: `ex = findExtremes(); ex.append(0); ex.append(1); for t in ex: extend(pointAtTime(t))` -/
def boundsParams (sqrt : K → K) (s : Seg K) : List K := extremes sqrt s ++ [0, 1]
def bounds (sqrt : K → K) (s : Seg K) : Option (Box K) :=
  (boundsParams sqrt s).foldl (fun bb t => extend bb (s.eval t)) none

/-- `BoundingBox.extend(BoundingBox)`: extend by bl, then by tr -/
def extendBox (bb : Option (Box K)) (o : Option (Box K)) : Option (Box K) :=
  match o with
  | none => bb
  | some o => extend (extend bb ⟨o.l, o.b⟩) ⟨o.r, o.t⟩

/-- `BezierPath.bounds` -/
def pathBounds (sqrt : K → K) (segs : List (Seg K)) : Option (Box K) :=
  segs.foldl (fun bb s => extendBox bb (bounds sqrt s)) none

/-- `mapx(v, ds) = (v - ds) / (1 - ds)` -/
def mapx (v ds : K) : K := (v - ds) / (1 - ds)

/-- the walk over one segment's (sorted) cut list in `splitAtPoints` -/
def cutSeg (seg : Seg K) : List K → List (Seg K)
  | [] => [seg]
  | t :: ts =>
    if t < (1 : K) / 100000000 then cutSeg seg ts
    else (seg.split t).1 :: cutSeg (seg.split t).2 (ts.map fun v => mapx v t)
termination_by ts => ts.length
decreasing_by all_goals simp

/-- `splitAtPoints` with the cut parameters already clustered per segment (the generator keeps the
    segments of one path pairwise different, so the dict keyed by segment value is a map per segment) -/
def splitAtPoints (segs : List (Seg K)) (cuts : List (List K)) : List (Seg K) :=
  (List.zipWith (fun s ts => cutSeg s (sort ts)) segs cuts).flatten

/-- `addExtremes` -/
def addExtremes (sqrt : K → K) (segs : List (Seg K)) : List (Seg K) :=
  splitAtPoints segs (segs.map (extremes sqrt))

/-- the dict of `splitAtPoints` read at `s`: every cut parameter given for a segment EQUAL to `s` (the dict is keyed by the segment's
    value), in the order given -/
def cutsFor [DecidableEq K] (segs : List (Seg K)) (cuts : List (List K)) (s : Seg K) : List K :=
  ((segs.zip cuts).filter fun e => e.1 = s).flatMap (·.2)

/-- `splitAtPoints` for any path, repeated segments included: every occurrence of a segment is cut at the sorted parameters of its
    dict entry (the repaired code works on a copy of the entry per occurrence: F28) -/
def splitAtPointsDict [DecidableEq K] (segs : List (Seg K)) (cuts : List (List K)) : List (Seg K) :=
  (segs.map fun s => cutSeg s (sort (cutsFor segs cuts s))).flatten

/-- the pinned walk: an entry is consumed by the first occurrence of its segment, later occurrences find it empty -/
def splitAtPointsPinned [DecidableEq K] : List (Seg K) → List (Seg K × List K) → List (Seg K)
  | [], _ => []
  | s :: rest, dict =>
    match dict.find? (fun e => e.1 = s) with
    | none => s :: splitAtPointsPinned rest dict
    | some e => cutSeg s (sort e.2) ++ splitAtPointsPinned rest (dict.map fun e' => if e'.1 = s then (e'.1, []) else e')

def addExtremesDict [DecidableEq K] (sqrt : K → K) (segs : List (Seg K)) : List (Seg K) :=
  splitAtPointsDict segs (segs.map (extremes sqrt))

end Extremes
