/-
  Hand model (H) for C11 of path/__init__.py `windingNumberOfPoint` / `pointIsInside`:
  the two rays, the per-segment crossing lists (`s.intersections(ray)`: the generated `ray_line` for a
  line segment, the C05 model `Inter.intersections` for a curve), the two dicts keyed by the crossing
  point (last writer wins), the sign sums over the dict values, `max(|L|, |R|)` and the parity test.
  `which` says whose tangent is taken for a hit: the hit's own segment (the repaired code, `i.seg1`) or
  the last segment of the path (the pinned code's stale loop variable `s`).
-/
import BezierVerif.Model.Inter
import BezierVerif.Gen.Eval

namespace Winding
variable {K : Type} [Field K] [LinearOrder K] [IsStrictOrderedRing K]
open Gen

/-- one `Intersection` as the winding code uses it: the point (dict key), the segment index, `t1` -/
structure Hit (K : Type) where
  pt : Pt K
  seg : Nat
  t1 : K

/-- `d[i.point] = i` on an insertion-ordered dict keyed by the exact coordinates -/
def insertHit [DecidableEq K] (d : List (Hit K)) (h : Hit K) : List (Hit K) :=
  if d.any (fun e => decide (e.pt = h.pt)) then d.map (fun e => if e.pt = h.pt then h else e) else d ++ [h]

/-- y-component of the derivative at t: what `tangentAtTime(t).y` is a positive multiple of -/
def dY : Seg K → K → K
  | Seg.line a b, _ => b.y - a.y
  | Seg.quad a b c, t =>
    line_pointAtTime_y (quad_derivative_d0x a.x a.y b.x b.y c.x c.y) (quad_derivative_d0y a.x a.y b.x b.y c.x c.y)
      (quad_derivative_d1x a.x a.y b.x b.y c.x c.y) (quad_derivative_d1y a.x a.y b.x b.y c.x c.y) t
  | Seg.cubic a b c d, t =>
    quad_pointAtTime_y (cubic_derivative_d0x a.x a.y b.x b.y c.x c.y d.x d.y) (cubic_derivative_d0y a.x a.y b.x b.y c.x c.y d.x d.y)
      (cubic_derivative_d1x a.x a.y b.x b.y c.x c.y d.x d.y) (cubic_derivative_d1y a.x a.y b.x b.y c.x c.y d.x d.y)
      (cubic_derivative_d2x a.x a.y b.x b.y c.x c.y d.x d.y) (cubic_derivative_d2y a.x a.y b.x b.y c.x c.y d.x d.y) t

/-- `_directionOfTravel(i).y`: the chord between the points 1e-3 before and after the crossing (clamped to [0, 1]) -/
def travelY (s : Seg K) (t : K) : K :=
  (s.eval (min (t + (1 : K) / 1000) 1)).y - (s.eval (max (t - (1 : K) / 1000) 0)).y

/-- `int(math.copysign(1, tangent.y))`, the tangent replaced by the direction of travel where its y component is exactly 0 -/
def tanSign (s : Seg K) (t : K) : Int :=
  if (if dY s t = 0 then travelY s t else dY s t) < 0 then -1 else 1

/-- `s.intersections(ray)` as (t1, t2) pairs; `aligned`/`cardano` are only used for curves -/
def segHits (sqrt : K → K) (s : Seg K) (lx px py : K) (aligned : Seg K) (cardano : List K) : List (K × K) :=
  match s with
  | Seg.line a b =>
    match ray_line a.x a.y b.x b.y lx px py with
    | [t1, t2] => [(t1, t2)]
    | _ => []
  | s => Inter.intersections sqrt s (Seg.line ⟨lx, py⟩ ⟨px, py⟩) aligned cardano

/-- the hits of segment number `i` -/
def hitsOf (i : Nat) (s : Seg K) (pairs : List (K × K)) : List (Hit K) :=
  pairs.map fun p => ⟨s.eval p.1, i, p.1⟩

/-- first loop: all segments in order, every hit inserted into the dict -/
def collect [DecidableEq K] : Nat → List (Seg K × List (K × K)) → List (Hit K) → List (Hit K)
  | _, [], d => d
  | i, (s, pairs) :: rest, d => collect (i + 1) rest ((hitsOf i s pairs).foldl insertHit d)

/-- second loops: the sign sum over the dict's values -/
def windSum (segs : List (Seg K)) (which : Hit K → Nat) (d : List (Hit K)) : Int :=
  (d.map fun h => tanSign (segs.getD (which h) (Seg.line ⟨0, 0⟩ ⟨0, 0⟩)) h.t1).sum

def own : Hit K → Nat := fun h => h.seg
def lastSeg (n : Nat) : Hit K → Nat := fun _ => n - 1

/-- `windingNumberOfPoint` given the crossing pairs of every segment with the left and right rays -/
def windingNumber [DecidableEq K] (which : Hit K → Nat) (segs : List (Seg K)) (left right : List (List (K × K))) : Nat :=
  let L := windSum segs which (collect 0 (segs.zip left) [])
  let R := windSum segs which (collect 0 (segs.zip right) [])
  max L.natAbs R.natAbs

/-- `pointIsInside` -/
def inside [DecidableEq K] (which : Hit K → Nat) (segs : List (Seg K)) (left right : List (List (K × K))) : Bool :=
  windingNumber which segs left right % 2 = 1

end Winding
