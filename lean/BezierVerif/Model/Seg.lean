/-
  Segments as data, for the hand models of path-level code.  Evaluation, splitting, reversal,
  translation and scaling dispatch to the *generated* definitions (Gen/Eval.lean, Gen/Affine.lean),
  so theorems about paths rest on what the source currently says.
-/
import BezierVerif.Gen.Eval
import BezierVerif.Gen.Affine

structure Pt (K : Type) where
  x : K
  y : K
deriving DecidableEq, Repr

inductive Seg (K : Type)
  | line (a b : Pt K)
  | quad (a b c : Pt K)
  | cubic (a b c d : Pt K)
deriving DecidableEq, Repr

namespace Seg
variable {K : Type} [Field K] [LinearOrder K] [IsStrictOrderedRing K]
open Gen

def start : Seg K → Pt K
  | line a _ => a | quad a _ _ => a | cubic a _ _ _ => a
def «end» : Seg K → Pt K
  | line _ b => b | quad _ _ c => c | cubic _ _ _ d => d
def points : Seg K → List (Pt K)
  | line a b => [a, b] | quad a b c => [a, b, c] | cubic a b c d => [a, b, c, d]
def order (s : Seg K) : Nat := s.points.length

/-- `pointAtTime` -/
def eval : Seg K → K → Pt K
  | line a b, t => ⟨line_pointAtTime_x a.x a.y b.x b.y t, line_pointAtTime_y a.x a.y b.x b.y t⟩
  | quad a b c, t => ⟨quad_pointAtTime_x a.x a.y b.x b.y c.x c.y t, quad_pointAtTime_y a.x a.y b.x b.y c.x c.y t⟩
  | cubic a b c d, t => ⟨cubic_pointAtTime_x a.x a.y b.x b.y c.x c.y d.x d.y t, cubic_pointAtTime_y a.x a.y b.x b.y c.x c.y d.x d.y t⟩

/-- `splitAtTime` -/
def split : Seg K → K → Seg K × Seg K
  | line a b, t =>
    (line ⟨line_splitAtTime_l0x a.x a.y b.x b.y t, line_splitAtTime_l0y a.x a.y b.x b.y t⟩
          ⟨line_splitAtTime_l1x a.x a.y b.x b.y t, line_splitAtTime_l1y a.x a.y b.x b.y t⟩,
     line ⟨line_splitAtTime_r0x a.x a.y b.x b.y t, line_splitAtTime_r0y a.x a.y b.x b.y t⟩
          ⟨line_splitAtTime_r1x a.x a.y b.x b.y t, line_splitAtTime_r1y a.x a.y b.x b.y t⟩)
  | quad a b c, t =>
    (quad ⟨quad_splitAtTime_l0x a.x a.y b.x b.y c.x c.y t, quad_splitAtTime_l0y a.x a.y b.x b.y c.x c.y t⟩
          ⟨quad_splitAtTime_l1x a.x a.y b.x b.y c.x c.y t, quad_splitAtTime_l1y a.x a.y b.x b.y c.x c.y t⟩
          ⟨quad_splitAtTime_l2x a.x a.y b.x b.y c.x c.y t, quad_splitAtTime_l2y a.x a.y b.x b.y c.x c.y t⟩,
     quad ⟨quad_splitAtTime_r0x a.x a.y b.x b.y c.x c.y t, quad_splitAtTime_r0y a.x a.y b.x b.y c.x c.y t⟩
          ⟨quad_splitAtTime_r1x a.x a.y b.x b.y c.x c.y t, quad_splitAtTime_r1y a.x a.y b.x b.y c.x c.y t⟩
          ⟨quad_splitAtTime_r2x a.x a.y b.x b.y c.x c.y t, quad_splitAtTime_r2y a.x a.y b.x b.y c.x c.y t⟩)
  | cubic a b c d, t =>
    (cubic ⟨cubic_splitAtTime_l0x a.x a.y b.x b.y c.x c.y d.x d.y t, cubic_splitAtTime_l0y a.x a.y b.x b.y c.x c.y d.x d.y t⟩
           ⟨cubic_splitAtTime_l1x a.x a.y b.x b.y c.x c.y d.x d.y t, cubic_splitAtTime_l1y a.x a.y b.x b.y c.x c.y d.x d.y t⟩
           ⟨cubic_splitAtTime_l2x a.x a.y b.x b.y c.x c.y d.x d.y t, cubic_splitAtTime_l2y a.x a.y b.x b.y c.x c.y d.x d.y t⟩
           ⟨cubic_splitAtTime_l3x a.x a.y b.x b.y c.x c.y d.x d.y t, cubic_splitAtTime_l3y a.x a.y b.x b.y c.x c.y d.x d.y t⟩,
     cubic ⟨cubic_splitAtTime_r0x a.x a.y b.x b.y c.x c.y d.x d.y t, cubic_splitAtTime_r0y a.x a.y b.x b.y c.x c.y d.x d.y t⟩
           ⟨cubic_splitAtTime_r1x a.x a.y b.x b.y c.x c.y d.x d.y t, cubic_splitAtTime_r1y a.x a.y b.x b.y c.x c.y d.x d.y t⟩
           ⟨cubic_splitAtTime_r2x a.x a.y b.x b.y c.x c.y d.x d.y t, cubic_splitAtTime_r2y a.x a.y b.x b.y c.x c.y d.x d.y t⟩
           ⟨cubic_splitAtTime_r3x a.x a.y b.x b.y c.x c.y d.x d.y t, cubic_splitAtTime_r3y a.x a.y b.x b.y c.x c.y d.x d.y t⟩)

/-- `reversed()` -/
def reversed : Seg K → Seg K
  | line a b => line b a | quad a b c => quad c b a | cubic a b c d => cubic d c b a

def mapPts (f : Pt K → Pt K) : Seg K → Seg K
  | line a b => line (f a) (f b) | quad a b c => quad (f a) (f b) (f c) | cubic a b c d => cubic (f a) (f b) (f c) (f d)

/-- `translated(v)`: every control point `p + v` -/
def translated (s : Seg K) (v : Pt K) : Seg K := s.mapPts fun p => ⟨p.x + v.x, p.y + v.y⟩
/-- `scaled(k)`: every control point `p * k` -/
def scaled (s : Seg K) (k : K) : Seg K := s.mapPts fun p => ⟨p.x * k, p.y * k⟩

theorem ext_pt {p q : Pt K} (hx : p.x = q.x) (hy : p.y = q.y) : p = q := by
  cases p; cases q; simp_all

end Seg
