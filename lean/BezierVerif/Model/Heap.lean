/-
  Hand model (H) for C07: Python object identities of the list objects and segment objects held by
  BezierPath's SegmentRepresentation.  Every path operation is described by a list of *slots*: for
  each position of the new segment list, whether the code re-uses one of the receiver's segment
  objects untouched (`keep k`), mutates it in place (`upd k v`), or puts a newly allocated object
  there (`fresh v`), and whether the list object itself is new or the receiver's list is mutated in
  place.  Points are values (no listed operation mutates a Point object in place).
  Numerical sub-results that depend on floating point (cut parameters, balanced handles, which
  segments are "irrelevant", flattening samples) are arguments of the operation, so theorems hold
  for every outcome of those computations.
  Core Lean only.  Tied to path/__init__.py by the correspondence run, which compares the values
  *and* the alias partition (`id()` of every list and segment object) after every step.
-/

namespace HeapModel



/-- value of a segment object: its control points (2, 3 or 4 of them) -/
abbrev SegVal (P : Type) := List P

structure Heap (P : Type) where
  lists : Nat → Option (List Nat)     -- Python list objects holding segment references
  segs  : Nat → Option (SegVal P)     -- segment objects
  next  : Nat                         -- allocation pointer: every id ≥ next is free

structure Path where
  rep : Nat                           -- the list object inside the active SegmentRepresentation
  closed : Bool
deriving DecidableEq, Repr

/-- one position of the new segment list, relative to the receiver's old list -/
inductive VSlot (P : Type)
  | keep (k : Nat)                      -- the receiver's k-th segment object, untouched
  | upd (k : Nat) (v : SegVal P)        -- the receiver's k-th segment object, mutated in place to v
  | fresh (v : SegVal P)                -- a new object with value v

variable {P : Type}

def VSlot.val (vals : List (SegVal P)) : VSlot P → SegVal P
  | .keep k => vals.getD k []
  | .upd _ v => v
  | .fresh v => v

def VSlot.old : VSlot P → Option Nat
  | .keep k => some k
  | .upd k _ => some k
  | .fresh _ => none

namespace Heap

def segIds (h : Heap P) (p : Path) : List Nat := (h.lists p.rep).getD []

/-- observation: the value of a path = the values of its segment objects, in order -/
def obs (h : Heap P) (p : Path) : List (SegVal P) :=
  (h.segIds p).filterMap fun s => h.segs s

/-- well-formed heap: nothing at or above `next`; every listed id is an allocated segment below `next` -/
structure WF (h : Heap P) : Prop where
  lists_lt : ∀ i, h.next ≤ i → h.lists i = none
  segs_lt : ∀ i, h.next ≤ i → h.segs i = none
  members : ∀ l ids, h.lists l = some ids → ∀ s ∈ ids, (h.segs s).isSome

/-- the receiver's k-th segment object -/
def idAt (ids : List Nat) (k : Nat) : Nat := ids.getD k 0

/-- in-place mutation of a segment object -/
def setSeg (h : Heap P) (i : Nat) (v : SegVal P) : Heap P :=
  { h with segs := fun j => if j = i then some v else h.segs j }

/-- allocation of a new segment object (its id is the old `next`) -/
def allocSeg (h : Heap P) (v : SegVal P) : Heap P :=
  { h with segs := fun j => if j = h.next then some v else h.segs j, next := h.next + 1 }

/-- carry out the slots left to right against the receiver's old id list `ids`:
    returns the new heap and the ids of the resulting list -/
def runSlots (ids : List Nat) : Heap P → List (VSlot P) → Heap P × List Nat
  | h, [] => (h, [])
  | h, .keep k :: rest => ((runSlots ids h rest).1, idAt ids k :: (runSlots ids h rest).2)
  | h, .upd k v :: rest =>
    ((runSlots ids (h.setSeg (idAt ids k) v) rest).1, idAt ids k :: (runSlots ids (h.setSeg (idAt ids k) v) rest).2)
  | h, .fresh v :: rest =>
    ((runSlots ids (h.allocSeg v) rest).1, h.next :: (runSlots ids (h.allocSeg v) rest).2)

/-- apply slots to path `p`: `newList` = a new list object is created (and `p` switches to it);
    otherwise `p`'s list object is mutated in place -/
def applySlots (h : Heap P) (p : Path) (slots : List (VSlot P)) (newList : Bool) : Heap P × Path :=
  let r := runSlots (h.segIds p) h slots
  if newList then
    ({ r.1 with lists := fun j => if j = r.1.next then some r.2 else r.1.lists j, next := r.1.next + 1 },
     { p with rep := r.1.next })
  else ({ r.1 with lists := fun j => if j = p.rep then some r.2 else r.1.lists j }, p)

/-- separation: different list objects, no common segment object -/
def Sep (h : Heap P) (p q : Path) : Prop :=
  p.rep ≠ q.rep ∧ ∀ s, s ∈ h.segIds p → s ∉ h.segIds q

/-- slots only refer to positions that exist in the receiver's list -/
def InRange (slots : List (VSlot P)) (n : Nat) : Prop :=
  ∀ s ∈ slots, ∀ k, VSlot.old s = some k → k < n

/-- a live path: its list object exists -/
def Live (h : Heap P) (p : Path) : Prop := (h.lists p.rep).isSome

end Heap

/-! ### the operations of BezierPath as slot lists (value level) -/

inductive Op (P : Type)
  | mapPts (f : P → P)                          -- translate / scale / rotate: all new objects, new list
  | reverse                                     -- all new objects, new list
  | split (pieces : List (List (SegVal P)))     -- splitAtPoints / addExtremes: per segment, [] = not cut (object re-used), else its pieces (new objects); new list
  | mutateAll (vals : List (Option (SegVal P))) -- balance / round: segment objects mutated in place, same list object
  | quadsToCubics (vals : List (Option (SegVal P))) -- list mutated in place: some v = element replaced by a new object
  | removeIrrelevant (merge : List Bool)        -- per segment i ≥ 1: false = kept untouched; true = `this[0] = prev[0]`, and it replaces the last kept one; new list
  | reconvert                                   -- asNodelist(); asSegments(): all objects new, same values
  | appendVals (extra : List (SegVal P))        -- append(other) after the fix: receiver's list extended in place by new objects (joining line + copies)

namespace Op

def enumFrom' {α : Type} : Nat → List α → List (Nat × α)
  | _, [] => []
  | n, x :: xs => (n, x) :: enumFrom' (n + 1) xs

def zipMut : Nat → Nat → List (Option (SegVal P)) → List (VSlot P)
  | _, 0, _ => []
  | k, n + 1, [] => VSlot.keep k :: zipMut (k + 1) n []
  | k, n + 1, none :: vs => VSlot.keep k :: zipMut (k + 1) n vs
  | k, n + 1, some v :: vs => VSlot.upd k v :: zipMut (k + 1) n vs

def zipReplace : Nat → Nat → List (Option (SegVal P)) → List (VSlot P)
  | _, 0, _ => []
  | k, n + 1, [] => VSlot.keep k :: zipReplace (k + 1) n []
  | k, n + 1, none :: vs => VSlot.keep k :: zipReplace (k + 1) n vs
  | k, n + 1, some v :: vs => VSlot.fresh v :: zipReplace (k + 1) n vs

def splitSlots : Nat → Nat → List (List (SegVal P)) → List (VSlot P)
  | _, 0, _ => []
  | k, n + 1, [] => VSlot.keep k :: splitSlots (k + 1) n []
  | k, n + 1, [] :: ps => VSlot.keep k :: splitSlots (k + 1) n ps
  | k, n + 1, (v :: vs) :: ps => (VSlot.fresh v :: vs.map VSlot.fresh) ++ splitSlots (k + 1) n ps

/-- `this[0] = prev[0]`: the merged segment keeps its own control points except the first -/
def mergeVal (prev this : SegVal P) : SegVal P :=
  match prev with
  | [] => this
  | a :: _ => a :: this.tail

/-- value of the last slot accumulated so far -/
def lastVal (vals : List (SegVal P)) (acc : List (VSlot P)) : SegVal P :=
  match acc.getLast? with
  | none => []
  | some s => s.val vals

/-- removeIrrelevantSegments: `newsegs = [segs[0]]`, then each later segment is either appended
    untouched or mutated (`this[0] = prev[0]`) and *replaces* the last kept one -/
def removeSlots (vals : List (SegVal P)) : List (VSlot P) → Nat → Nat → List Bool → List (VSlot P)
  | acc, _, 0, _ => acc
  | acc, k, n + 1, [] => removeSlots vals (acc ++ [VSlot.keep k]) (k + 1) n []
  | acc, k, n + 1, false :: ms => removeSlots vals (acc ++ [VSlot.keep k]) (k + 1) n ms
  | acc, k, n + 1, true :: ms =>
    removeSlots vals (acc.dropLast ++ [VSlot.upd k (mergeVal (lastVal vals acc) (vals.getD k []))]) (k + 1) n ms

/-- slots of an operation on a path with `vals` (one value per segment object); second component:
    is a new list object created? -/
def slots (op : Op P) (vals : List (SegVal P)) : List (VSlot P) × Bool :=
  match op with
  | .mapPts f => (vals.map fun v => VSlot.fresh (v.map f), true)
  | .reverse => ((vals.map fun v => VSlot.fresh v.reverse).reverse, true)
  | .split pieces => (splitSlots 0 vals.length pieces, true)
  | .mutateAll vs => (zipMut 0 vals.length vs, false)
  | .quadsToCubics vs => (zipReplace 0 vals.length vs, false)
  | .removeIrrelevant merge =>
    match vals with
    | [] => ([], true)
    | _ :: rest => (removeSlots vals [VSlot.keep 0] 1 rest.length merge, true)
  | .reconvert => (vals.map VSlot.fresh, true)
  | .appendVals extra => ((List.range vals.length).map VSlot.keep ++ extra.map VSlot.fresh, false)

/-- value-level result of an operation -/
def apply (op : Op P) (vals : List (SegVal P)) : List (SegVal P) :=
  (op.slots vals).1.map (VSlot.val vals)

end Op

/-- heap-level step: operation `op` with receiver `p` -/
def step (h : Heap P) (p : Path) (op : Op P) : Heap P × Path :=
  let sl := op.slots (h.obs p)
  h.applySlots p sl.1 sl.2

/-- a new path made of newly allocated segment objects with values `vs` (closed flag of `p`);
    nothing that exists is touched -/
def newPath (h : Heap P) (p : Path) (vs : List (SegVal P)) : Heap P × Path :=
  h.applySlots p (vs.map VSlot.fresh) true

/-- `clone()` (every segment cloned into a new list): a new path, receiver untouched -/
def clone (h : Heap P) (p : Path) : Heap P × Path := newPath h p (h.obs p)

/-- values of `flatten()`: a Line stays (as a copy), a curve becomes its pieces -/
def flattenVals : List (SegVal P) → List (List (SegVal P)) → List (SegVal P)
  | [], _ => []
  | v :: vs, [] => v :: flattenVals vs []
  | v :: vs, [] :: ps => v :: flattenVals vs ps
  | _ :: vs, (w :: ws) :: ps => (w :: ws) ++ flattenVals vs ps

/-- `flatten()`: a new path of new Line objects (lines of the receiver are copied, not shared).
    `pieces`: per segment, [] = a Line (copied), else the lines replacing the curve. -/
def flatten (h : Heap P) (p : Path) (pieces : List (List (SegVal P))) : Heap P × Path :=
  newPath h p (flattenVals (h.obs p) pieces)

end HeapModel
