/-
  Hand model (H) of utils/curvefitter.py `CurveFit._fitCurve`: the control flow (two-point base case,
  accept / iterate / corner / split / budget accounting, the corner re-try) with every numerical
  sub-procedure as an oracle: each call consumes one `CallData` record from a tape — the candidate
  cubics `generateBezier` produced and the `(maxErrorRatio, splitPoint)` pairs `computeMaxError`
  returned for them.  Theorems quantify over every tape.  Core Lean + ordered field for the ratios.
-/
import Mathlib.Algebra.Order.Field.Basic
import Mathlib.Algebra.Order.Group.Abs

namespace Fit

/-- one candidate: the cubic (4 control points) with the error ratio and split point computed for it -/
structure Attempt (P K : Type) where
  bez : List P
  ratio : K
  split : Nat

/-- what the numerical code produced during one `_fitCurve` call -/
structure CallData (P K : Type) where
  degenerate : Bool                 -- `u[-1] == 0.0` (all points coincide)
  attempts : List (Attempt P K)     -- first: after reparameterize; then up to 4 more from the iteration loop

variable {P K : Type} [Field K] [LinearOrder K] [DecidableEq P]

/-- contract of generateBezier / fitLine: the cubic starts at the first point and ends at the last -/
def endsOK (pts : List P) (bez : List P) : Bool :=
  bez.head? = pts.head? && bez.getLast? = pts.getLast? && bez.length = 4

inductive Action (P : Type)
  | bad                             -- the recorded numerics break the oracle contract (split point out of range)
  | ret (out : List (List P))       -- return this list (possibly empty = gave up)
  | retry (t1 t2 : Bool)            -- `return self._fitCurve(points, Point(0,0) or tangent1, ...)`
  | split (k : Nat) (corner : Bool) -- recurse on points[:k+1] and points[k:]

/-- the iteration loop: `for _ in range(maxIterations + 1)` over the remaining attempts; returns the
    accepted cubic or the last (ratio, split) seen -/
def iterate : List (Attempt P K) → K × Nat → Sum (List P) (K × Nat)
  | [], last => Sum.inr last
  | a :: rest, _ => if |a.ratio| ≤ 1 then Sum.inl a.bez else iterate rest (a.ratio, a.split)

/-- corner at an end whose tangent is free: shift the split point inside -/
def adjust (corner : Bool) (sp n : Nat) : Nat :=
  if corner ∧ sp = 0 then sp + 1 else if corner ∧ sp = n - 1 then sp - 1 else sp

/-- what happens once no candidate was accepted: corner handling, budget test, split -/
def afterLoop (n : Nat) (t1 t2 : Bool) (budget : Nat) (ratio : K) (sp : Nat) : Action P :=
  -- corner at an end: shift inside when the tangent there is free, else re-try with a zero tangent
  if decide (ratio < 0) ∧ sp = 0 ∧ t1 then .retry true t2
  else if decide (ratio < 0) ∧ sp ≠ 0 ∧ sp = n - 1 ∧ t2 then .retry t1 true
  else if n - 1 < sp then .bad
  else if ¬ decide (ratio < 0) ∧ ¬ (0 < sp ∧ sp < n - 1) then .bad   -- contract of computeMaxError: the worst point is interior
  else if 1 < budget then
    if decide (ratio < 0) ∧ ¬ (0 < adjust (decide (ratio < 0)) sp n ∧ adjust (decide (ratio < 0)) sp n < n - 1) then .ret []
    else .split (adjust (decide (ratio < 0)) sp n) (decide (ratio < 0))
  else .ret []

/-- the non-recursive part of one call on `n = len(points) ≥ 3` points -/
def callAction (n : Nat) (t1 t2 : Bool) (budget : Nat) (d : CallData P K) : Action P :=
  if d.degenerate then .ret []
  else
    match d.attempts with
    | [] => .ret []              -- cannot happen: there is always a first attempt
    | a :: rest =>
      if |a.ratio| ≤ 1 then .ret [a.bez]
      else
        let r : Sum (List P) (K × Nat) :=
          if 0 ≤ a.ratio ∧ a.ratio ≤ 3 then iterate (rest.take 4) (a.ratio, a.split) else Sum.inr (a.ratio, a.split)
        match r with
        | Sum.inl bez => .ret [bez]
        | Sum.inr (ratio, sp) => afterLoop n t1 t2 budget ratio sp

/-- `_fitCurve`: `t1`, `t2` say whether a tangent is given (not None).  `rightBudget` is the budget
    accounting for the right half: the repaired code passes `maxSegments - len(lbeziers)`.
    `none` = fuel or tape exhausted. -/
def fit (rightBudget : Nat → Nat → Nat) :
    Nat → List P → Bool → Bool → Nat → List (CallData P K) → Option (List (List P) × List (CallData P K))
  | 0, _, _, _, _, _ => none
  | fuel + 1, pts, t1, t2, budget, tape =>
    match tape with
    | [] => none
    | d :: tape' =>
      if ¬ d.attempts.all (fun a => endsOK pts a.bez) then none      -- oracle contract violated
      else if pts.length = 2 then
        -- fitLine: its result is the single attempt on the tape
        match d.attempts with
        | a :: _ => some ([a.bez], tape')
        | [] => none
      else
        match callAction pts.length t1 t2 budget d with
        | .bad => none
        | .ret out => some (out, tape')
        | .retry t1' t2' => fit rightBudget fuel pts t1' t2' budget tape'
        | .split k _ =>
          match fit rightBudget fuel (pts.take (k + 1)) t1 true (budget - 1) tape' with
          | none => none
          | some (l, tape'') =>
            match fit rightBudget fuel (pts.drop k) true t2 (if l = [] then budget - 1 else rightBudget budget l.length) tape'' with
            | none => none
            | some (r, tape''') => some (l ++ r, tape''')

/-- the repaired accounting: `segmentsRemaining = maxSegments - len(lbeziers)` -/
def budgetFixed (maxSegments used : Nat) : Nat := maxSegments - used
/-- the pinned accounting: `segmentsRemaining = (maxSegments - 1) - len(lbeziers)` -/
def budgetPinned (maxSegments used : Nat) : Nat := maxSegments - 1 - used

end Fit
