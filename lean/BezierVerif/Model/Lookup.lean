/-
  Hand models (H) for C15:
  * QuadraticBezier.tOfPoint: the two generated `quadraticRoots` calls (coefficients from the generated
    `quad_tOfPoint_coeffs`), the emptiness test and the double loop matching roots within 2e-7;
  * CubicBezier.tOfPoint: best of the regular samples, then the bracket-halving loop (the pinned code
    measured `rdist` at *lower*, so the upper candidate was never taken: repaired, F21); since F23 the
    regular samples are merged with a uniform grid of 65 parameters.
  `dist` is the distance from the query point to the curve's point at a parameter (a parameter here).
-/
import BezierVerif.Gen.Roots
import BezierVerif.Model.Seg
import Mathlib.Data.List.Dedup

namespace Lookup
variable {K : Type} [Field K] [LinearOrder K] [IsStrictOrderedRing K]
open Gen

/-- `for x in xroots: for y in yroots: if -eps < x - y < eps: return x` else -1 -/
def matchRoots (xs ys : List K) : K :=
  match xs with
  | [] => -1
  | x :: rest =>
    if ys.any (fun y => -((1 : K) / 5000000) < x - y ∧ x - y < (1 : K) / 5000000) then x else matchRoots rest ys

/-- the helper `roots` inside `QuadraticBezier.tOfPoint` (F29): the solver's roots, or — when it finds none although the equation is
    genuinely quadratic and its discriminant vanishes up to 1e-9 of its two terms — the double root -b/(2a) if that lies in [0, 1] -/
def rootsOrDouble (sqrt : K → K) (a b c : K) : List K :=
  let found := quadraticRoots sqrt a b c
  if found = [] ∧ a ≠ 0 then
    if |b * b - 4 * a * c| ≤ (1 : K) / 1000000000 * max (b * b) |4 * a * c| then
      (if 0 ≤ -b / (2 * a) ∧ -b / (2 * a) ≤ 1 then [-b / (2 * a)] else [])
    else []
  else found

/-- QuadraticBezier.tOfPoint -/
def quadTOfPoint (sqrt : K → K) (a b c q : Pt K) : K :=
  match quad_tOfPoint_coeffs a.x a.y b.x b.y c.x c.y q.x q.y with
  | [ax, bx, cx, ay, by', cy] =>
    let xr := rootsOrDouble sqrt ax bx cx
    let yr := rootsOrDouble sqrt ay by' cy
    if xr = [] ∨ yr = [] then -1 else matchRoots xr yr
  | _ => -1

/-- the first loop: best sample (strict improvement only) -/
def bestSample (dist : K → K) : List K → Option (K × K) → Option (K × K)
  | [], acc => acc
  | t :: ts, none => bestSample dist ts (some (t, dist t))
  | t :: ts, some (bt, bd) => if dist t < bd then bestSample dist ts (some (t, dist t)) else bestSample dist ts (some (bt, bd))

/-- one round of the halving loop at half-width `prec` -/
def refine (dist : K → K) (prec : K) (st : K × Option K) : K × Option K :=
  let bestT := st.1
  let lower := if bestT - prec < 0 then 0 else bestT - prec
  let upper := if bestT + prec > 1 then 1 else bestT + prec
  let ldist := dist lower
  let rdist := dist upper
  let better (d : K) (b : Option K) : Bool := match b with | none => true | some bd => d < bd
  let st1 : K × Option K := if better ldist st.2 then (lower, some ldist) else st
  if better rdist st1.2 then (upper, some rdist) else st1

/-- the precisions the `while precision > 1e-5` loop goes through: 1/100, 1/200, … (11 rounds) -/
def precisions : List K := (List.range 11).map fun k => (1 : K) / 50 / (2 : K) ^ (k + 1)

/-- CubicBezier.tOfPoint over a given list of sample parameters -/
def cubicTOfPoint (dist : K → K) (samples : List K) : K :=
  let start : K × Option K := match bestSample dist samples none with
    | none => (-1, none)          -- bestT = -1, bestDist = inf
    | some (t, d) => (t, some d)
  (precisions.foldl (fun st p => refine dist p st) start).1

/-- the uniform grid `i / 64.0 for i in range(65)` (exact in binary floating point) -/
def grid : List K := (List.range 65).map fun (i : Nat) => (i : K) / 64

/-- `sorted(set(samples).union(grid))` (F23): ascending, every value once -/
def mergeGrid (regular : List K) : List K :=
  ((regular ++ grid).mergeSort (fun a b => decide (a ≤ b))).dedup

/-- CubicBezier.tOfPoint given what `regularSampleTValue(50)` returned -/
def cubicTOfPointFull (dist : K → K) (regular : List K) : K := cubicTOfPoint dist (mergeGrid regular)

end Lookup
