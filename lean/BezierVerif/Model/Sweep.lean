/-
  Hand model (H) of utils/linesweep.py `bbox_intersections`: instructions
  (key, object, verb) for every shape, stable sort by key, two active lists, overlap test against
  the opposite active list on insert, filter on remove.  Tied to the code by an output-for-output
  correspondence run.  Core Lean only (no Mathlib) so it stays cheap to load.
-/

namespace Sweep

structure Obj where
  side : Bool     -- false = from seta, true = from setb
  idx : Nat
deriving DecidableEq, Repr

inductive Ev
  | add (o : Obj)
  | rem (o : Obj)
deriving DecidableEq, Repr

structure St where
  actA : List Obj
  actB : List Obj
  out : List (Obj × Obj)

/-- one instruction of the loop (`add_to` / `remove_from`) -/
def step (ov : Obj → Obj → Bool) (s : St) : Ev → St
  | .add o =>
    if o.side = false then
      { actA := s.actA ++ [o], actB := s.actB,
        out := s.out ++ (s.actB.filter (fun o2 => ov o o2)).map (fun o2 => (o, o2)) }
    else
      { actA := s.actA, actB := s.actB ++ [o],
        out := s.out ++ (s.actA.filter (fun o2 => ov o o2)).map (fun o2 => (o, o2)) }
  | .rem o =>
    if o.side = false then { s with actA := s.actA.filter (· ≠ o) }
    else { s with actB := s.actB.filter (· ≠ o) }

def run (ov : Obj → Obj → Bool) (evs : List Ev) : St := evs.foldl (step ov) ⟨[], [], []⟩

/-- the instruction list before sorting: for every a: add, remove; then for every b -/
def instructions (nA nB : Nat) : List Ev :=
  ((List.range nA).flatMap fun i => [Ev.add ⟨false, i⟩, Ev.rem ⟨false, i⟩]) ++
  ((List.range nB).flatMap fun i => [Ev.add ⟨true, i⟩, Ev.rem ⟨true, i⟩])

end Sweep
