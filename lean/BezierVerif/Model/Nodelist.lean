/-
  Hand model (H) of path/representations/Segment.py: `toNodelist`, `appendSegment`, `fromNodelist`
  (first on-curve search, the two scanning loops, the closing logic) and of `asSVGPath` as a token
  list.  Points are an abstract type `P` with decidable equality (the code's `isclose` test on the
  closing node is read as equality).  Core Lean only.
-/

namespace Nodelist

inductive NType | line | curve | offcurve
deriving DecidableEq, Repr

structure Node (P : Type) where
  p : P
  ty : NType
deriving Repr, DecidableEq

inductive Seg (P : Type)
  | line (a b : P)
  | quad (a c b : P)
  | cubic (a c1 c2 b : P)
deriving Repr, DecidableEq

namespace Seg
variable {P : Type}
def start : Seg P → P
  | line a _ => a | quad a _ _ => a | cubic a _ _ _ => a
def «end» : Seg P → P
  | line _ b => b | quad _ _ b => b | cubic _ _ _ b => b
def points : Seg P → List P
  | line a b => [a, b] | quad a c b => [a, c, b] | cubic a c1 c2 b => [a, c1, c2, b]
/-- nodes contributed by a segment after its start (Segment.py 29-38) -/
def tailNodes : Seg P → List (Node P)
  | line _ b => [⟨b, .line⟩]
  | quad _ c b => [⟨c, .offcurve⟩, ⟨b, .curve⟩]
  | cubic _ c1 c2 b => [⟨c1, .offcurve⟩, ⟨c2, .offcurve⟩, ⟨b, .curve⟩]
def firstType : Seg P → NType
  | line _ _ => .line | _ => .curve
end Seg

variable {P : Type}

/-- SegmentRepresentation.toNodelist (`none` = IndexError on an empty segment list) -/
def toNodelist : List (Seg P) → Option (List (Node P))
  | [] => none
  | s :: rest => some (⟨s.start, s.firstType⟩ :: (s :: rest).flatMap Seg.tailNodes)

/-- appendSegment: 2, 3, 4 points → Line / QuadraticBezier / CubicBezier, else ValueError (`none`) -/
def mkSeg : List P → Option (Seg P)
  | [a, b] => some (.line a b)
  | [a, c, b] => some (.quad a c b)
  | [a, c1, c2, b] => some (.cubic a c1 c2 b)
  | _ => none

/-- one scanning loop of fromNodelist: `buf` is the pending point list -/
def scan : List P → List (Node P) → Option (List (Seg P) × List P)
  | buf, [] => some ([], buf)
  | buf, n :: ns =>
    match n.ty with
    | .offcurve => scan (buf ++ [n.p]) ns
    | _ => do
        let s ← mkSeg (buf ++ [n.p])
        let (ss, b) ← scan [n.p] ns
        pure (s :: ss, b)

/-- index of the first on-curve node (`-1` in Python when there is none: then `nodelist[-1]` is used;
    the model rejects that case) -/
def firstOncurve : List (Node P) → Option Nat
  | [] => none
  | n :: ns => if n.ty ≠ .offcurve then some 0 else (firstOncurve ns).map (· + 1)

/-- the closing logic: nothing to add when the pending buffer is exactly the first point again -/
def close [DecidableEq P] (closed : Bool) (first : P) (segs : List (Seg P)) (buf : List P) : Option (List (Seg P)) :=
  if closed then
    (if buf.length = 1 ∧ buf.getLast? = some first then some segs
     else (mkSeg (buf ++ [first])).map (fun c => segs ++ [c]))
  else some segs

/-- SegmentRepresentation.fromNodelist -/
def fromNodelist [DecidableEq P] (closed : Bool) (nl : List (Node P)) : Option (List (Seg P)) :=
  match firstOncurve nl with
  | none => none
  | some i =>
    match nl[i]? with
    | none => none
    | some first =>
      match scan [first.p] (nl.drop (i + 1)) with
      | none => none
      | some (s1, buf1) =>
        match scan buf1 (nl.take i) with
        | none => none
        | some (s2, buf2) => close closed first.p (s1 ++ s2) buf2

def Chain : List (Seg P) → Prop
  | [] => True
  | [_] => True
  | a :: b :: rest => a.end = b.start ∧ Chain (b :: rest)

/-- asSVGPath as tokens: the move, one command per segment, the optional close -/
inductive Tok (P : Type)
  | M (p : P)
  | L (p : P)
  | Q (c p : P)
  | C (c1 c2 p : P)
  | Z
deriving Repr, DecidableEq

def segTok : Seg P → Tok P
  | .line _ b => .L b
  | .quad _ c b => .Q c b
  | .cubic _ c1 c2 b => .C c1 c2 b

def svg (closed : Bool) : List (Seg P) → Option (List (Tok P))
  | [] => none   -- segs[0] raises IndexError
  | s :: rest => some (Tok.M s.start :: (s :: rest).map segTok ++ (if closed then [Tok.Z] else []))

end Nodelist
