/-
  Hand model (H) for C06 of utils/intersectionsmixin.py `_curve_curve_intersections_t`: the recursive halving of
  both curves with bounding-box pruning, the stop rule (both boxes have area < 1e-3 → report the two range
  midpoints) and the duplicate filter keyed on both parameters printed with two decimals, applied at every
  level of the recursion; and of booleanoperationsmixin.py `getSelfIntersections` (loop test + pairwise
  intersections with the 1e-2 window on t1).

  Two layers:
  * `cc` over an abstract environment (point evaluation, halving, box, overlap, smallness, key): the theorems
    quantify over every environment, the enclosure property of the box being an explicit hypothesis;
  * `segEnv`: the environment of the real code — `Seg.eval`, `Seg.split · (1/2)` (generated de Casteljau),
    `Extremes.bounds` (the C02 model), the generated `bbox_overlaps` / `bbox_area`.
-/
import BezierVerif.Model.Extremes
import BezierVerif.Gen.Box

namespace CC

structure Env (K Cv Pt Bx : Type) where
  pt      : Cv → K → Pt
  split   : Cv → Cv × Cv
  box     : Cv → Bx
  inBox   : Pt → Bx → Prop
  overlap : Bx → Bx → Bool
  small   : Bx → Bool
  key     : K → Int            -- the `"%.2f" % t` bucket

variable {K Cv Pt Bx : Type}

/-- the filter's key of a report: the two-decimal buckets of BOTH parameters (the pinned code used the first parameter only: F25) -/
def pkey (key : K → Int) (p : K × K) : Int × Int := (key p.1, key p.2)

/-- `filter(filterSeen, found)`: keep the first report of every key -/
def dedupe (key : K → Int) : List (K × K) → List (Int × Int) → List (K × K)
  | [], _ => []
  | p :: rest, seen => if pkey key p ∈ seen then dedupe key rest seen else p :: dedupe key rest (pkey key p :: seen)

variable [Field K] [LinearOrder K]

/-- `_curve_curve_intersections_t` on pieces `a`, `b` covering the parameter ranges `ra`, `rb` of the original
    curves.  `none` = fuel exhausted (the real recursion terminates when the boxes get small). -/
def cc (E : Env K Cv Pt Bx) : Nat → Cv → K × K → Cv → K × K → Option (List (K × K))
  | 0, _, _, _, _ => none
  | fuel + 1, a, ra, b, rb =>
    if !E.overlap (E.box a) (E.box b) then some []
    else if E.small (E.box a) && E.small (E.box b) then some [((ra.1 + ra.2) / 2, (rb.1 + rb.2) / 2)]
    else
      let ma := (ra.1 + ra.2) / 2
      let mb := (rb.1 + rb.2) / 2
      let a1 := (E.split a).1; let a2 := (E.split a).2
      let b1 := (E.split b).1; let b2 := (E.split b).2
      let go (x : Cv) (rx : K × K) (y : Cv) (ry : K × K) : Option (List (K × K)) :=
        if E.overlap (E.box x) (E.box y) then cc E fuel x rx y ry else some []
      do
        let r11 ← go a1 (ra.1, ma) b1 (rb.1, mb)
        let r12 ← go a1 (ra.1, ma) b2 (mb, rb.2)
        let r21 ← go a2 (ma, ra.2) b1 (rb.1, mb)
        let r22 ← go a2 (ma, ra.2) b2 (mb, rb.2)
        pure (dedupe E.key (r11 ++ r12 ++ r21 ++ r22) [])

end CC

namespace CC
variable {K : Type} [Field K] [LinearOrder K] [IsStrictOrderedRing K]
open Gen Extremes

/-- closed-interval box membership -/
def inBoxOpt (p : Pt K) : Option (Box K) → Prop
  | none => False
  | some b => b.l ≤ p.x ∧ p.x ≤ b.r ∧ b.b ≤ p.y ∧ p.y ≤ b.t

def overlapOpt : Option (Box K) → Option (Box K) → Bool
  | some x, some y => bbox_overlaps x.l x.b x.r x.t y.l y.b y.r y.t
  | _, _ => false

def smallOpt : Option (Box K) → Bool
  | some x => decide (bbox_area_v x.l x.b x.r x.t < (1 : K) / 1000)
  | none => false

/-- the environment of the real code; `sqrt` is what the extreme finder uses, `key` the two-decimal bucket -/
def segEnv (sqrt : K → K) (key : K → Int) : Env K (Seg K) (Pt K) (Option (Box K)) where
  pt := Seg.eval
  split := fun s => s.split ((1 : K) / 2)
  box := bounds sqrt
  inBox := inBoxOpt
  overlap := overlapOpt
  small := smallOpt
  key := key

/-- `getSelfIntersections`, second loop: pairwise intersections filtered by `1e-2 < t1 < 1 - 1e-2` -/
def selfWindow (t1 : K) : Bool := decide ((1 : K) / 100 < t1) && decide (t1 < 1 - (1 : K) / 100)

/-- segments number i1 < i2 of a path of n segments share a node (the closing pair counts for a closed path) -/
def neighbours (closed : Bool) (n i1 i2 : Nat) : Bool := i2 == i1 + 1 || (closed && i1 == 0 && i2 == n - 1)

/-- `getSelfIntersections`, second loop, given what `intersections` returned for every pair i1 < i2 in loop order: the window is
    applied to neighbouring segments only (the pinned code applied it to every pair: F26) -/
def selfPairs (closed : Bool) (n : Nat) (hits : List (Nat × Nat × List (K × K))) : List (Nat × Nat × K × K) :=
  hits.flatMap fun h => (h.2.2.filter fun p => !neighbours closed n h.1 h.2.1 || selfWindow p.1).map fun p => (h.1, h.2.1, p.1, p.2)

/-- the pinned second loop -/
def selfPairsPinned (hits : List (Nat × Nat × List (K × K))) : List (Nat × Nat × K × K) :=
  hits.flatMap fun h => (h.2.2.filter fun p => selfWindow p.1).map fun p => (h.1, h.2.1, p.1, p.2)

/-- `getSelfIntersections`, first loop: a reported loop needs both parameters strictly inside (0,1) -/
def loopWindow (t1 t2 : K) : Bool := decide (0 < t1) && decide (t1 < 1) && decide (0 < t2) && decide (t2 < 1)

end CC
