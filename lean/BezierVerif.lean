-- Root of the library: everything `setup.sh` pre-builds.
import BezierVerif.Basic
import BezierVerif.DriverMain
import BezierVerif.Props.C01
import BezierVerif.Props.C09
import BezierVerif.Props.C10
import BezierVerif.Props.C19
import BezierVerif.Props.C18
import BezierVerif.Props.C20S
import BezierVerif.Props.C20
import BezierVerif.Props.C04
import BezierVerif.Props.Roots
import BezierVerif.Props.C02
import BezierVerif.Props.C03
import BezierVerif.Props.C08
import BezierVerif.Props.C07
import BezierVerif.Props.C07A
