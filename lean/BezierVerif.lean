import BezierVerif.Basic
