import BezierVerif.DriverMain
def main : IO Unit := do Driver.loop (← IO.getStdin)
