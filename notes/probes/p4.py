import math, random
from beziers.point import Point
from beziers.line import Line
from beziers.quadraticbezier import QuadraticBezier
from beziers.cubicbezier import CubicBezier
random.seed(4)
def truelen(seg, n=20000):
    # composite simpson on speed, fine grid; with cusp handle by many pts
    d=seg.derivative()
    def sp(t):
        p=d.pointAtTime(t); return math.hypot(p.x,p.y)
    h=1.0/n
    s=sp(0)+sp(1)
    for i in range(1,n):
        s+= (4 if i%2 else 2)*sp(i*h)
    return s*h/3
worst=0; worstwell=0
for it in range(400):
    k=random.choice([3,4])
    mode=random.random()
    if mode<0.3:
        # collinear / retracing
        base=Point(random.randint(-100,100),random.randint(-100,100)); dirn=Point(random.randint(-5,5),random.randint(-5,5))
        pts=[base+dirn*random.randint(-30,30) for _ in range(k)]
    elif mode<0.5 and k==4:
        # cusp: P1-P0 and P3-P2 crossing e.g. 
        a=Point(0,0); b=Point(100,100); c=Point(0,100); dd=Point(100,0)
        pts=[a,b,c,dd]
        pts=[Point(p.x+random.randint(-10,10),p.y+random.randint(-10,10)) for p in pts]
    else:
        pts=[Point(random.randint(-200,200), random.randint(-200,200)) for _ in range(k)]
    seg={3:QuadraticBezier,4:CubicBezier}[k](*pts)
    L=seg.length; T=truelen(seg)
    if T==0: continue
    rel=abs(L-T)/T
    # speed
    d=seg.derivative()
    sps=[math.hypot(d.pointAtTime(i/2000).x,d.pointAtTime(i/2000).y) for i in range(2001)]
    well=min(sps)>=0.5*T
    if rel>worst: worst=rel; wseg=seg
    if well and rel>worstwell: worstwell=rel; wwseg=seg
print("worst",worst,wseg); print("worst well",worstwell)
