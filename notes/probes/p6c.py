import math, random, sys
from beziers.point import Point
from beziers.line import Line
from beziers.quadraticbezier import QuadraticBezier
from beziers.cubicbezier import CubicBezier
from beziers.path import BezierPath
random.seed(int(sys.argv[1]) if len(sys.argv)>1 else 6)
exec(open('p7h.py').read().split("def snap")[0].split("random.seed")[1].split("\n",1)[1])
exec(open('p6.py').read().split("bad={}")[0].split("def polyline")[1].join(["def polyline",""]) if False else "")
def polyline(s,N): return [s.pointAtTime(i/N) for i in range(N+1)]
def segint(p1,p2,p3,p4):
    d=(p2.x-p1.x)*(p4.y-p3.y)-(p2.y-p1.y)*(p4.x-p3.x)
    if d==0: return None
    t=((p3.x-p1.x)*(p4.y-p3.y)-(p3.y-p1.y)*(p4.x-p3.x))/d
    u=((p3.x-p1.x)*(p2.y-p1.y)-(p3.y-p1.y)*(p2.x-p1.x))/d
    if 0<=t<1 and 0<=u<1: return t,u
    return None
def truecross(a,b,N=150):
    pa=polyline(a,N); pb=polyline(b,N); out=[]
    for i in range(N):
        for j in range(N):
            r=segint(pa[i],pa[i+1],pb[j],pb[j+1])
            if r: out.append(((i+r[0])/N,(j+r[1])/N))
    return out
bad={}
def flag(k,info=None):
    bad[k]=bad.get(k,0)+1
    if bad[k]<3 and info: print(k,info)
n=0
for it in range(40):
    p=randpath(random.randint(3,6),True,random.random()<.5)
    segs=p.asSegments(); ns=len(segs)
    b=p.bounds(); ext=max(b.width,b.height); tol=0.002*ext
    ok=True; exp=[]
    for i in range(ns):
        for j in range(i+1,ns):
            if j==i+1 or (i==0 and j==ns-1): continue
            tc=truecross(segs[i],segs[j])
            for (t,u) in tc:
                if min(t,1-t,u,1-u)<0.02: ok=False
                ta=segs[i].tangentAtTime(t); tb=segs[j].tangentAtTime(u)
                if abs(ta.x*tb.y-ta.y*tb.x)<math.sin(math.radians(5)): ok=False
                exp.append(segs[i].pointAtTime(t))
    if not ok: continue
    n+=1
    try: got=p.getSelfIntersections()
    except Exception as e: flag('exc',repr(e)); continue
    for e in exp:
        if not any(g.point.distanceFrom(e)<=tol for g in got): flag('missed',(p.asSegments(),e))
print(n,bad)
