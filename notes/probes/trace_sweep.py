"""Traceability sweep: can every function on the DESIGN's traced list be executed symbolically?"""
import math, sys, time, traceback
sys.argv=[sys.argv[0]]
exec(open('trace2.py').read().split("# Point.__eq__ has its own")[0])
import beziers.quadraticbezier as qb, beziers.segment as sg, beziers.boundingbox as bbm, beziers.utils.arclengthmixin as alm, beziers.utils.curvefitter as cfm, beziers.utils.curvedistance as cdm, beziers.path as pm
for m in (qb, sg, bbm, alm, cfm, cdm, pm, im, bl):
    m.math=sm if hasattr(m,'math') else None
    m.max=sym_max; m.min=sym_min
from beziers.boundingbox import BoundingBox
from beziers.affinetransformation import AffineTransformation as AT
def P(n): return Point(V(n+'x'),V(n+'y'))
def cub(): return CubicBezier(P('p0'),P('p1'),P('p2'),P('p3'))
def quad(): return QuadraticBezier(P('p0'),P('p1'),P('p2'))
def lin(): return Line(P('p0'),P('p1'))
t=V('t')
def flat(r):
    out=[]
    def go(x):
        if isinstance(x,Sym): out.append(x)
        elif isinstance(x,Point): out.extend([x.x,x.y])
        elif isinstance(x,(list,tuple)): [go(y) for y in x]
        elif hasattr(x,'points'): [go(p) for p in x.points]
        elif hasattr(x,'matrix'): go(x.matrix)
        elif isinstance(x,BoundingBox): go([x.bl,x.tr])
        elif isinstance(x,(int,float,bool)) or x is None: out.append(x)
        else: raise TypeError(type(x))
    go(r); return out
tests={
 'Cubic.pointAtTime': lambda: cub().pointAtTime(t),
 'Cubic.splitAtTime': lambda: cub().splitAtTime(t),
 'Cubic.derivative': lambda: cub().derivative(),
 'Cubic.area': lambda: cub().area,
 'Quad.pointAtTime': lambda: quad().pointAtTime(t),
 'Quad.splitAtTime': lambda: quad().splitAtTime(t),
 'Quad.area': lambda: quad().area,
 'Quad.toCubicBezier': lambda: quad().toCubicBezier(),
 'Line.pointAtTime': lambda: lin().pointAtTime(t),
 'Line.splitAtTime': lambda: lin().splitAtTime(t),
 'Line.area': lambda: lin().area,
 'Line.length': lambda: lin().length,
 'Line.slope': lambda: lin().slope,
 'Cubic.length(24-term)': lambda: cub().length,
 'Quad.length': lambda: quad().length,
 'Cubic.curvatureAtTime': lambda: cub().curvatureAtTime(t),
 'Quad.curvatureAtTime': lambda: quad().curvatureAtTime(t),
 'Cubic.tangentAtTime': lambda: cub().tangentAtTime(t),
 'Cubic.normalAtTime': lambda: cub().normalAtTime(t),
 'Line.tangentAtTime': lambda: lin().tangentAtTime(t),
 'Line.normalAtTime': lambda: lin().normalAtTime(t),
 'Cubic.startAngle': lambda: cub().startAngle,
 'Cubic.reversed': lambda: cub().reversed(),
 'Cubic.translated': lambda: cub().translated(P('v')),
 'Cubic.scaled': lambda: cub().scaled(V('k')),
 'Cubic.rotated': lambda: cub().rotated(P('c'),V('th')),
 'Cubic.transformed': lambda: cub().transformed(AT([[V(f"m{i}{j}") for j in range(3)] for i in range(3)])),
 'Cubic.aligned': lambda: cub().aligned(),
 'Quad._findDRoots': lambda: quad()._findDRoots(),
 'Quad.tOfPoint': lambda: quad().tOfPoint(P('q')),
 'Quad._findRoots': lambda: quad()._findRoots('y'),
 'Cubic.hasLoop': lambda: (lambda r: list(r) if r else [])(cub().hasLoop),
 'AT.translate/scale/rotate/reflect': lambda: (lambda m: (m.translate(P('v')), m.scale(V('sx'),V('sy')), m.rotate(V('th')), m.reflect(), m)[-1])(AT()),
 'AT.scaling(fx)': lambda: AT.scaling(V('sx')),
 'BoundingBox.extend x2': lambda: (lambda b: (b.extend(P('a')), b.extend(P('b')), b)[-1])(BoundingBox()),
 'CurveFit.fitLine': lambda: cfm.CurveFit.fitLine([P('a'),P('b')],None,None),
 'CurveFit.computeHook': lambda: cfm.CurveFit.computeHook(P('a'),P('b'),t,cub(),V('ct')),
 'CurveFit.estimateLengths(3pts)': lambda: cfm.CurveFit.estimateLengths([P('a'),P('b'),P('c')],[0.0,V('u1'),1.0],P('t1'),P('t2')),
 'Point.rotated': lambda: P('p').rotated(P('c'),V('th')),
}
for name,f in tests.items():
    t0=time.time()
    try:
        res=explore(lambda: flat(f()))
        sizes=[sum(len(show(x)) if isinstance(x,Sym) else 1 for x in r) for _,r in res]
        print(f"{name:40s} paths={len(res):5d}  maxsize={max(sizes):7d}  {time.time()-t0:.2f}s")
    except Exception as e:
        print(f"{name:40s} FAILED {type(e).__name__}: {str(e)[:100]}")
