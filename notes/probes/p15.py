import math, random, sys
from beziers.point import Point
from beziers.line import Line
from beziers.quadraticbezier import QuadraticBezier
from beziers.cubicbezier import CubicBezier
from beziers.path import BezierPath
from beziers.path.geometricshapes import Rectangle, Ellipse, Circle
random.seed(15)
def rp(m=200,integer=False): return Point(random.randint(-20,20)*10,random.randint(-20,20)*10) if integer else Point(random.uniform(-m,m),random.uniform(-m,m))
# C15
wl=0;wq=0;wc=0;badq=0;nq=0;neg=0;excs=0
for it in range(1500):
    integer=random.random()<.5
    l=Line(rp(integer=integer),rp(integer=integer))
    t=random.random()
    if l.length>=1:
        tt=l.tOfPoint(l.pointAtTime(t))
        M=max(abs(l.start.x),abs(l.start.y),abs(l.end.x),abs(l.end.y),1)
        if not (0<=tt<=1): wl=max(wl,1e9); print("line t out",l,t,tt)
        else: wl=max(wl,l.pointAtTime(tt).distanceFrom(l.pointAtTime(t))/M)
        # off-line
        n=Point(-(l.end.y-l.start.y),(l.end.x-l.start.x)).toUnitVector()
        off=l.pointAtTime(t)+n*(l.length*random.uniform(1.1e-6,1))*random.choice([-1,1])
        if l.tOfPoint(off)!=-1: neg+=1
    q=QuadraticBezier(rp(integer=integer),rp(integer=integer),rp(integer=integer))
    if random.random()<.3: q=QuadraticBezier(q[0],Point((q[0].x+q[2].x)/2,q[1].y),q[2])
    # stationary params
    stat=[]
    for c in 'xy':
        d1=getattr(q[0],c)-2*getattr(q[1],c)+getattr(q[2],c)
        if d1!=0: stat.append((getattr(q[0],c)-getattr(q[1],c))/d1)
    if all(abs(t-s)>=1e-3 for s in stat):
        nq+=1
        try:
            tt=q.tOfPoint(q.pointAtTime(t))
        except Exception as e:
            excs+=1; tt=-1
        M=max(max(abs(p.x),abs(p.y)) for p in q.points) or 1
        if not (0<=tt<=1): 
            badq+=1
            if badq<4: print("quad tOfPoint fail",q,t,tt)
        else: wq=max(wq,q.pointAtTime(tt).distanceFrom(q.pointAtTime(t))/M)
for it in range(150):
    c=CubicBezier(*[rp() for _ in range(4)])
    t=random.random()
    tt=c.tOfPoint(c.pointAtTime(t))
    if not (0<=tt<=1): print("cubic t out")
    wc=max(wc,c.pointAtTime(tt).distanceFrom(c.pointAtTime(t))/c.length)
print("C15 line",wl,"neg fails",neg,"quad",wq,"quad fails",badq,nq,"exc",excs,"cubic",wc)
