import math, random, sys, copy
from beziers.point import Point
from beziers.line import Line
from beziers.quadraticbezier import QuadraticBezier
from beziers.cubicbezier import CubicBezier
from beziers.path import BezierPath
random.seed(int(sys.argv[1]) if len(sys.argv)>1 else 7)
def rp(integer): return Point(random.randint(-20,20)*10,random.randint(-20,20)*10) if integer else Point(random.uniform(-200,200),random.uniform(-200,200))
def randpath(nseg, closed, integer=True):
    nodes=[rp(integer) for _ in range(nseg+1)]
    if closed: nodes[-1]=nodes[0]
    segs=[]
    for i in range(nseg):
        a=nodes[i]; b=nodes[i+1]
        k=random.choice([2,3,4])
        if k==2: segs.append(Line(a,b))
        elif k==3: segs.append(QuadraticBezier(a,rp(integer),b))
        else: segs.append(CubicBezier(a,rp(integer),rp(integer),b))
    p=BezierPath.fromSegments(segs); p.closed=closed
    return p
def snap(p): return (p.closed, repr(p.asSegments()))
def chain_ok(p, tol=1e-6):
    s=p.asSegments()
    for a,b in zip(s,s[1:]):
        if a.end.distanceFrom(b.start)>tol*(1+abs(a.end.x)+abs(a.end.y)): return False
    if p.closed and s and s[-1].end.distanceFrom(s[0].start)>tol*(1+abs(s[0].start.x)+abs(s[0].start.y)): return False
    return True
bad={}
def flag(k,info=None):
    bad[k]=bad.get(k,0)+1
    if bad[k]<3 and info: print(k,info)
ops=['translate','rotate','scale','reverse','addExtremes','split','balance','round','q2c','ris','flatten','append','clone','conv']
for it in range(600):
    closed=random.random()<.5
    p=randpath(random.randint(1,5),closed,random.random()<.5)
    clones=[]
    hist=[]
    for step in range(random.randint(1,12)):
        op=random.choice(ops); hist.append(op)
        s0=p.asSegments(); st=s0[0].start.clone(); en=s0[-1].end.clone(); cl=p.closed
        csn=[(c,snap(c)) for c in clones]
        try:
            if op=='translate': v=rp(False); p.translate(v); est=st+v; een=en+v
            elif op=='rotate': c=rp(False); a=random.uniform(-4,4); p.rotate(c,a); est=st.rotated(c,a); een=en.rotated(c,a)
            elif op=='scale': k=random.choice([2,0.5,-1,1.5]); p.scale(k); est=st*k; een=en*k
            elif op=='reverse': p.reverse(); est=en; een=st
            elif op=='addExtremes': p.addExtremes(); est=st; een=en
            elif op=='split':
                segs=p.asSegments(); sl=[(random.choice(segs),random.random()) for _ in range(random.randint(1,3))]; p.splitAtPoints(sl); est=st; een=en
            elif op=='balance': p.balance(); est=st; een=en
            elif op=='round': p.round(); est=st.rounded(); een=en.rounded()
            elif op=='q2c': p.quadraticsToCubics(); est=st; een=en
            elif op=='ris': p.removeIrrelevantSegments(); est=st; een=en
            elif op=='flatten':
                before=snap(p); q=p.flatten(random.choice([2,8,30])); q.closed=p.closed
                if snap(p)!=before: flag('flatten modified receiver',hist)
                p=q; est=st; een=en
            elif op=='append':
                o=randpath(random.randint(1,3),False,True); o0=snap(o); 
                if p.closed: continue
                p.append(o)
                if snap(o)!=o0: flag('append modified arg',hist)
                est=st; een=None
            elif op=='clone':
                before=snap(p); c=p.clone()
                if snap(c)!=before: flag('clone differs',hist)
                clones.append(c); est=st; een=en
            elif op=='conv':
                p.asNodelist(); p.asSegments(); est=st; een=en
        except Exception as e:
            flag('exc:'+op+':'+type(e).__name__,(hist,repr(e))); break
        if p.closed!=cl and op!='flatten': flag('closed changed',(op,hist))
        if not chain_ok(p): flag('chain:'+op,(hist,p.asSegments())); break
        s1=p.asSegments()
        if s1[0].start.distanceFrom(est)>1e-6*(1+abs(est.x)+abs(est.y)): flag('start:'+op,(hist,s1[0].start,est))
        if een is not None and s1[-1].end.distanceFrom(een)>1e-6*(1+abs(een.x)+abs(een.y)): flag('end:'+op,(hist,s1[-1].end,een))
        for c,sn in csn:
            if snap(c)!=sn: flag('clone changed by:'+op,hist)
        if len(s1)>400: break
print(bad)
