import math, random
from beziers.point import Point
from beziers.line import Line
from beziers.quadraticbezier import QuadraticBezier
from beziers.cubicbezier import CubicBezier
from beziers.path import BezierPath
from beziers.path.geometricshapes import Rectangle, Ellipse
from beziers.boundingbox import BoundingBox
from beziers.affinetransformation import AffineTransformation
# C07 clone independence
p=Rectangle(100.5,50.5,origin=Point(0.25,0.25))
c=p.clone()
before=repr(p.asSegments())
c.round()
print("clone indep after round:", before==repr(p.asSegments()))
p=Ellipse(100,50)
c=p.clone(); before=repr(p.asSegments()); c.balance(); print("clone indep after balance:", before==repr(p.asSegments()))
p=BezierPath.fromSegments([CubicBezier(Point(0,0),Point(10,100),Point(300,20),Point(100,0)),Line(Point(100,0),Point(0,0))])
c=p.clone(); before=repr(p.asSegments()); c.balance(); print("clone indep after balance2:", before==repr(p.asSegments()), before, repr(c.asSegments()))
# quadraticsToCubics mutates list in place - shared with clone?
p=BezierPath.fromSegments([QuadraticBezier(Point(0,0),Point(10,100),Point(100,0)),Line(Point(100,0),Point(0,0))])
c=p.clone(); before=repr(p.asSegments()); c.quadraticsToCubics(); print("clone indep after q2c:", before==repr(p.asSegments()))
# removeIrrelevantSegments mutates this[0]=prev[0]
p=BezierPath.fromSegments([Line(Point(0,0),Point(10,0)),Line(Point(10,0),Point(20,0)),Line(Point(20,0),Point(20,20)),Line(Point(20,20),Point(0,0))])
c=p.clone(); before=repr(p.asSegments()); c.removeIrrelevantSegments(); print("clone indep after RIS:", before==repr(p.asSegments()), repr(c.asSegments()))
# append returns None for empty; mutates other's?
a=BezierPath.fromSegments([Line(Point(0,0),Point(10,0))]); a.closed=False
b=BezierPath.fromSegments([Line(Point(30,0),Point(20,0))]); b.closed=False
bb=repr(b.asSegments()); a.append(b); print("append:",a.asSegments(), "b unchanged", bb==repr(b.asSegments()))
# append shares segs2 segment objects -> later round on a changes b
a.round(); 
a2=BezierPath.fromSegments([Line(Point(0,0),Point(10.5,0))]); a2.closed=False
b2=BezierPath.fromSegments([Line(Point(10.5,0),Point(20.5,0.5))]); b2.closed=False
a2.append(b2); bb=repr(b2.asSegments()); a2.round(); print("after append+round b unchanged:", bb==repr(b2.asSegments()))
# splitAtPoints: Line.splitAtTime shares start point objects; translate creates new. rotate in place?
# reverse shares Point objects between path and ... only matter w/ in-place point mutation: balance sets self[1]=new point (replace), harmonize += in place.
# lengthAtTime(1.0)
p=Rectangle(100,50)
try: print(p.lengthAtTime(1.0))
except Exception as e: print("lengthAtTime(1.0) EXC",repr(e))
try: print(len(p.regularSampleTValue(10)))
except Exception as e: print("path regularSampleTValue EXC",repr(e))
p=Rectangle(64,64)
try: print(len(p.regularSampleTValue(10)))
except Exception as e: print("path regularSampleTValue 256 EXC",repr(e))
# includes
bx=Rectangle(100,50).bounds(); print("includes centre:",bx.includes(Point(0,0)))
# linesweep
from beziers.utils.linesweep import bbox_intersections
try: print(bbox_intersections([Rectangle(10,10)],[Rectangle(5,5)]))
except Exception as e: print("sweep EXC",repr(e))
# scaling zero
t=AffineTransformation.scaling(2,0); print("scaling(2,0):",t.matrix)
# quadratic curvature
q=QuadraticBezier(Point(0,0),Point(50,100),Point(100,0))
def curv(q,t):
    d1=(q[1]-q[0])*2*(1-t)+(q[2]-q[1])*2*t; d2=(q[2]-q[1]*2+q[0])*2
    return (d1.x*d2.y-d1.y*d2.x)/((d1.x**2+d1.y**2)**1.5)
print("quad curv",q.curvatureAtTime(0.3),curv(q,0.3))
c=CubicBezier(Point(0,0),Point(10,100),Point(300,20),Point(100,0))
d=c.derivative(); d2=d.derivative()
print("cubic curv", c.curvatureAtTime(.3))
# line normal vs generic
l=Line(Point(0,0),Point(3,4)); print("line tan",l.tangentAtTime(.5),"norm",l.normalAtTime(.5))
print("winding outside left of rect:", Rectangle(100,50).windingNumberOfPoint(Point(-200,10)), Rectangle(100,50).windingNumberOfPoint(Point(-200,25)), Ellipse(100,50).windingNumberOfPoint(Point(-200,10)))
