import sys, math
from fractions import Fraction
from tracer import *
import tracer
def emit_dag(name, params, outs, ty='K'):
    """outs: list of Sym. Returns Lean def text with let-sharing (hash-consing by structure)."""
    ids={}; lines=[]
    def key(e):
        if e.op=='const': return ('c',e.args[0])
        if e.op=='var': return ('v',e.args[0])
        if e.op=='powi': return ('powi',go(e.args[0]),e.args[1])
        return (e.op,)+tuple(go(a) for a in e.args)
    memo={}
    def go(e):
        if id(e) in memo: return memo[id(e)]
        k=key(e)
        if k in ids: memo[id(e)]=ids[k]; return ids[k]
        if e.op=='const':
            v=e.args[0]; s=(f"({v.numerator} : {ty})" if v.denominator==1 else f"(({v.numerator} : {ty}) / {v.denominator})")
            if v<0: s=f"(-{s.replace('-','')})" if v.denominator==1 else f"(({v.numerator} : {ty}) / {v.denominator})"
            ids[k]=s; memo[id(e)]=s; return s
        if e.op=='var': ids[k]=e.args[0]; memo[id(e)]=e.args[0]; return e.args[0]
        a=[go(x) for x in e.args if isinstance(x,Sym)]
        if e.op=='neg': rhs=f"-{a[0]}"
        elif e.op=='powi': rhs=f"{a[0]} ^ {e.args[1]}"
        elif e.op in ('sqrt',): rhs=f"sqrt {a[0]}"
        else: rhs=f"{a[0]} {{'add':'+','sub':'-','mul':'*','div':'/'}}[e.op] {a[1]}".replace("{'add':'+','sub':'-','mul':'*','div':'/'}[e.op]", {'add':'+','sub':'-','mul':'*','div':'/'}[e.op])
        n=f"v{len(lines)}"
        lines.append(f"  let {n} := {rhs}")
        ids[k]=n; memo[id(e)]=n; return n
    res=[go(o) for o in outs]
    body="\n".join(lines)
    ret = res[0] if len(res)==1 else "["+", ".join(res)+"]"
    rty = ty if len(res)==1 else f"List {ty}"
    return f"def {name} ({' '.join(params)} : {ty}) : {rty} :=\n{body}\n  {ret}\n", len(lines)
if __name__=='__main__':
    import beziers.point as bp
    def init(self,x,y): self.x=x if isinstance(x,Sym) else float(x); self.y=y if isinstance(y,Sym) else float(y)
    bp.Point.__init__=init
    from beziers.point import Point
    from beziers.cubicbezier import CubicBezier
    from beziers.quadraticbezier import QuadraticBezier
    from beziers.line import Line
    from beziers.utils.curvedistance import MinimumCurveDistanceFinder
    n=int(sys.argv[1]); m=int(sys.argv[2])
    kl={1:Line,2:QuadraticBezier,3:CubicBezier}
    P=[Point(V(f"p{i}x"),V(f"p{i}y")) for i in range(n+1)]; Q=[Point(V(f"q{i}x"),V(f"q{i}y")) for i in range(m+1)]
    f=MinimumCurveDistanceFinder(kl[n](*P),kl[m](*Q))
    e=f.S(V('u'),V('v'))
    params=[f"p{i}{c}" for i in range(n+1) for c in 'xy']+[f"q{i}{c}" for i in range(m+1) for c in 'xy']+['u','v']
    txt,nl=emit_dag(f"S_{n}_{m}",params,[e])
    def bern(pts,c,t,n):
        return " + ".join(f"{math.comb(n,i)} * (1 - {t})^{n-i} * {t}^{i} * {pts}{i}{c}" for i in range(n+1))
    spec=f"(({bern('p','x','u',n)}) - ({bern('q','x','v',m)}))^2 + (({bern('p','y','u',n)}) - ({bern('q','y','v',m)}))^2"
    print("import Mathlib.Tactic.Ring\nimport Mathlib.Tactic.FieldSimp\nimport Mathlib.Algebra.Field.Basic\nvariable {K : Type} [Field K] [CharZero K]\n")
    print(txt)
    print(f"theorem S_{n}_{m}_spec ({' '.join(params)} : K) : S_{n}_{m} {' '.join(params)} = {spec} := by\n  simp only [S_{n}_{m}]\n  ring\n")
    print(f"-- lets: {nl}", file=sys.stderr)
