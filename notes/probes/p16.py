import math, random, sys
from beziers.point import Point
from beziers.line import Line
from beziers.quadraticbezier import QuadraticBezier
from beziers.cubicbezier import CubicBezier
from beziers.path import BezierPath
from beziers.path.geometricshapes import Rectangle, Ellipse, Circle
random.seed(16)
def rp(m=200): return Point(random.uniform(-m,m),random.uniform(-m,m))
def rseg():
    k=random.choice([2,3,4]); return {2:Line,3:QuadraticBezier,4:CubicBezier}[k](*[rp() for _ in range(k)])
exc={}
def tryit(name,f):
    try: return f()
    except Exception as e:
        exc[name+":"+type(e).__name__]=exc.get(name+":"+type(e).__name__,0)+1
        return None
bad={}
def flag(k,info=None):
    bad[k]=bad.get(k,0)+1
    if bad[k]<3 and info: print(k,info)
objs=[]
for it in range(150):
    objs.append(rseg())
# exact integer / power of two lengths
for L in [16,32,64,128,256,100,50,10,20,512]:
    objs.append(Line(Point(0,0),Point(L,0)))
    objs.append(Rectangle(L/4,L/4)); objs.append(Rectangle(L/2-10,10) if L>20 else Rectangle(L/4,L/4))
    p=BezierPath.fromSegments([Line(Point(0,0),Point(L/2,0)),Line(Point(L/2,0),Point(L/2,L/2))]); p.closed=False; objs.append(p)
for o in objs:
    L=o.length
    if L<10: continue
    ispath=isinstance(o,BezierPath)
    l0=tryit('lat0',lambda:o.lengthAtTime(0)); l1=tryit('lat1',lambda:o.lengthAtTime(1.0))
    if l0 is not None and abs(l0)>1e-9*L: flag('lat0',(o,l0))
    if l1 is not None and abs(l1-L)>1e-4*L: flag('lat1',(o,l1,L))
    prev=-1
    for i in range(0,41):
        t=i/40; v=tryit('lat',lambda:o.lengthAtTime(t))
        if v is None: continue
        if v<prev-0.02*L-1e-9: flag('nonmono',(o,t,v,prev))
        prev=v
    if ispath:
        segs=o.asSegments(); n=len(segs)
        for i in range(50):
            t=random.random()
            pt=tryit('pat',lambda:o.pointAtTime(t))
            if pt is None: continue
            k=int(math.floor(t*n)); e=segs[k].pointAtTime(t*n-k)
            if pt.distanceFrom(e)>1e-9: flag('pat',(o,t))
        e=tryit('pat1',lambda:o.pointAtTime(1.0))
        if e and e.distanceFrom(segs[-1].end)>1e-9: flag('pat1')
    for n in [1,2,3,5,7,int(L/4)]:
        if n<1 or n>L/4: continue
        ts=tryit('rstv',lambda:o.regularSampleTValue(n))
        if ts is None: continue
        if ts[0]!=0 or ts[-1]!=1.0: flag('ends',(o,n,ts[:2],ts[-2:]))
        if any(b<=a for a,b in zip(ts,ts[1:])): flag('notincreasing',(o,n,ts))
        # spacing
        step=1.0/L
        # lookup step = largest arc covered by parameter increment 1/L
        lat=[o.lengthAtTime(min(1.0,k*step)) for k in range(int(L)+2)]
        lstep=max(b-a for a,b in zip(lat,lat[1:]))
        ls=[tryit('lat',lambda:o.lengthAtTime(t)) for t in ts]
        if None in ls: continue
        gaps=[b-a for a,b in zip(ls,ls[1:])]
        for g in gaps[:-1]:
            if abs(g-L/n)>0.05*L/n+2*lstep+1e-9: flag('spacing',(o,n,g,L/n,lstep)); break
        if len(ts)<n: flag('count',(o,n,len(ts)))
    for n in [1,2,5,10]:
        s=tryit('sample',lambda:o.sample(n))
        if s is None: continue
        if s[0].distanceFrom(o.pointAtTime(0))>1e-9 or s[-1].distanceFrom(o.pointAtTime(1.0))>1e-9: flag('sample ends')
print("exc",exc); print("bad",bad)
