import math, random, sys
from beziers.point import Point
from beziers.line import Line
from beziers.quadraticbezier import QuadraticBezier
from beziers.cubicbezier import CubicBezier
random.seed(int(sys.argv[1]) if len(sys.argv)>1 else 5)
def crossings(curve, line, N=4001):
    a,b=line.start,line.end
    nx,ny=-(b.y-a.y),(b.x-a.x)
    def g(t):
        p=curve.pointAtTime(t); return (p.x-a.x)*nx+(p.y-a.y)*ny
    res=[]
    ts=[0.0]+[(i+0.37)/N for i in range(N)]+[1.0]
    prev=g(0); pt=0.0
    for t in ts[1:]:
        cur=g(t)
        if prev*cur<0:
            lo,hi=pt,t
            glo=prev
            for _ in range(60):
                mid=(lo+hi)/2; gm=g(mid)
                if gm*glo<=0: hi=mid
                else: lo=mid; glo=gm
            tt=(lo+hi)/2
            p=curve.pointAtTime(tt)
            L2=(b.x-a.x)**2+(b.y-a.y)**2
            u=((p.x-a.x)*(b.x-a.x)+(p.y-a.y)*(b.y-a.y))/L2
            res.append((tt,u))
        elif cur==0 or prev==0:
            return None
        prev=cur; pt=t
    return res
def general(cr):
    if cr is None: return False
    for t,u in cr:
        for v in (t,u):
            if abs(v)<1e-4 or abs(v-1)<1e-4: return False
    return True
bad=0;n=0
kinds={}
for it in range(8000):
    k=random.choice([2,3,4])
    mode=random.random()
    if mode<0.4:
        pts=[Point(random.randint(-20,20)*10, random.randint(-20,20)*10) for _ in range(k)]
        l=Line(Point(random.randint(-20,20)*10, random.randint(-20,20)*10),Point(random.randint(-20,20)*10, random.randint(-20,20)*10))
        tag='int'
    elif mode<0.6:
        # degree elevated / straight cubics, then perturb slightly
        q=QuadraticBezier(*[Point(random.uniform(-200,200), random.uniform(-200,200)) for _ in range(3)])
        if k==4:
            pts=list(q.toCubicBezier().points)
        elif k==3:
            a=q[0]; b=q[2]; pts=[a, a.lerp(b,random.random()), b]
        else: pts=[q[0],q[2]]
        eps=random.choice([0,1e-9,1e-7,1e-5])
        pts=[Point(p.x+random.uniform(-eps,eps),p.y+random.uniform(-eps,eps)) for p in pts]
        l=Line(Point(random.uniform(-200,200), random.uniform(-200,200)),Point(random.uniform(-200,200), random.uniform(-200,200)))
        tag='neardeg%g'%eps
    else:
        pts=[Point(random.uniform(-200,200), random.uniform(-200,200)) for _ in range(k)]
        l=Line(Point(random.uniform(-200,200), random.uniform(-200,200)),Point(random.uniform(-200,200), random.uniform(-200,200)))
        tag='float'
    if random.random()<0.15:
        # axis aligned line
        if random.random()<.5: l=Line(Point(l.start.x,l.start.y),Point(l.start.x,l.end.y))
        else: l=Line(Point(l.start.x,l.start.y),Point(l.end.x,l.start.y))
        tag+='-axis'
    if l.length<1: continue
    seg={2:Line,3:QuadraticBezier,4:CubicBezier}[k](*pts)
    if k==2 and seg.length<1: continue
    cr=crossings(seg,l)
    if not general(cr): continue
    exp=[(t,u) for t,u in cr if 0<t<1 and 0<u<1]
    for recv in (0,1):
        try:
            got=seg.intersections(l) if recv==0 else l.intersections(seg)
        except Exception as e:
            got=None
            print("EXC",seg,l,repr(e))
        n+=1
        okk = got is not None and len(got)==len(exp)
        if okk:
            for i in got:
                if not (0<i.t1<=1 and 0<i.t2<=1): okk=False
                p1=i.seg1.pointAtTime(i.t1); p2=i.seg2.pointAtTime(i.t2)
                if p1.distanceFrom(p2)>1e-6*200: okk=False
        if not okk:
            bad+=1
            kinds[(k,recv,tag)]=kinds.get((k,recv,tag),0)+1
            if bad<10: print("MISMATCH k",k,tag,"recv",recv,seg,l,"exp",exp,"got",got)
print(bad,n,kinds)
