import math, random, sys
from beziers.point import Point
from beziers.path import BezierPath
from beziers.cubicbezier import CubicBezier
random.seed(int(sys.argv[1]) if len(sys.argv)>1 else 14)
bad={}
def flag(k,info=None):
    bad[k]=bad.get(k,0)+1
    if bad[k]<3 and info: print(k,info)
def distToChain(segs,p):
    best=1e18
    for s in segs:
        ds=[s.pointAtTime(i/200).distanceFrom(p) for i in range(201)]
        i=min(range(201),key=lambda j:ds[j])
        lo=max(0,(i-1)/200); hi=min(1,(i+1)/200)
        for _ in range(40):
            m1=lo+(hi-lo)/3; m2=hi-(hi-lo)/3
            if s.pointAtTime(m1).distanceFrom(p)<s.pointAtTime(m2).distanceFrom(p): hi=m2
            else: lo=m1
        best=min(best,s.pointAtTime((lo+hi)/2).distanceFrom(p),ds[i])
    return best
n=0
for it in range(400):
    m=random.random(); N=random.randint(2,40)
    integer=random.random()<.4
    if m<.3:
        c=CubicBezier(*[Point(random.uniform(-300,300),random.uniform(-300,300)) for _ in range(4)])
        pts=[c.pointAtTime(i/(N-1)) for i in range(N)]
        if m<.15: pts=[Point(p.x+random.gauss(0,2),p.y+random.gauss(0,2)) for p in pts]
    elif m<.6:
        pts=[Point(random.uniform(-300,300),random.uniform(-300,300)) for _ in range(N)]
    elif m<.7:
        a=Point(random.uniform(-300,300),random.uniform(-300,300)); d=Point(random.uniform(-3,3),random.uniform(-3,3))
        pts=[a+d*i for i in range(N)]
    elif m<.85:
        pts=[Point(random.uniform(-300,300),random.uniform(-300,300)) for _ in range(N)]
        if N>2: pts[-1]=pts[0].clone()
        if N>4: pts[N//2]=pts[1].clone()
    else:
        pts=[Point(random.uniform(-300,300),random.uniform(-300,300)) for _ in range(N)]
        for i in range(1,N):
            if random.random()<.3: pts[i]=pts[i-1].clone()
    if integer: pts=[Point(round(p.x),round(p.y)) for p in pts]
    if len(set((p.x,p.y) for p in pts))<2: continue
    error=10**random.uniform(-2,4); ct=10**random.uniform(-1,2); budget=len(pts)+random.randint(0,5)
    n+=1
    try:
        path=BezierPath.fromPoints([p.clone() for p in pts],error=error,cornerTolerance=ct,maxSegments=budget)
        segs=path.asSegments()
    except Exception as e:
        flag('exc:'+type(e).__name__,(m,[ (p.x,p.y) for p in pts][:6],error,ct,budget,repr(e))); continue
    if not segs: flag('empty',(m,len(pts),error,ct)); continue
    if len(segs)>budget: flag('budget')
    if segs[0].start.distanceFrom(pts[0])>0 : flag('start',(segs[0].start,pts[0]))
    if segs[-1].end.distanceFrom(pts[-1])>0: flag('end',(m,segs[-1].end,pts[-1],len(pts)))
    for a,b in zip(segs,segs[1:]):
        if a.end.distanceFrom(b.start)>1e-9: flag('gap')
    for s in segs:
        for p in s.points:
            if not (math.isfinite(p.x) and math.isfinite(p.y)): flag('nonfinite')
    tol=math.sqrt(error)
    w=max(distToChain(segs,p) for p in pts)
    if w>tol*1.001+1e-6: flag('errbound',(m,len(pts),error,ct,w,tol))
print(n,bad)
