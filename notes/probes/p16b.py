from beziers.point import Point
from beziers.line import Line
from beziers.path import BezierPath
segs=[]; x=0
for i in range(5):
    segs.append(Line(Point(x,0),Point(x+1,0))); x+=1
segs.append(Line(Point(x,0),Point(x+1000,0)))
p=BezierPath.fromSegments(segs); p.closed=False
L=p.length; n=int(L/4)
ts=p.regularSampleTValue(n)
d=[(a,b) for a,b in zip(ts,ts[1:]) if b<=a]
print(L,n,len(ts),"nonincreasing pairs",len(d), d[:3])
ls=[p.lengthAtTime(t) for t in ts]
gaps=[b-a for a,b in zip(ls,ls[1:])]
import math
step=1/L
lat=[p.lengthAtTime(min(1.0,k*step)) for k in range(int(L)+2)]
lstep=max(b-a for a,b in zip(lat,lat[1:]))
print("lstep",lstep,"target",L/n,"worst gap dev",max(abs(g-L/n) for g in gaps[:-1]), "allowed",0.05*L/n+2*lstep)
