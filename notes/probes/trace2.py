import math, sys, time
from tracer import *
import tracer
import beziers.point as bp
def init(self,x,y): self.x=x if isinstance(x,Sym) else float(x); self.y=y if isinstance(y,Sym) else float(y)
bp.Point.__init__=init
Sym.__abs__=lambda s: Sym('abs',s)
import builtins
def sym_max(*a):
    if len(a)==1: a=tuple(a[0])
    if not any(isinstance(x,Sym) for x in a): return builtins.max(*a)
    r=Sym.lift(a[0])
    for x in a[1:]: r=Sym('max',r,Sym.lift(x))
    return r
def sym_min(*a):
    if len(a)==1: a=tuple(a[0])
    if not any(isinstance(x,Sym) for x in a): return builtins.min(*a)
    r=Sym.lift(a[0])
    for x in a[1:]: r=Sym('min',r,Sym.lift(x))
    return r
def sym_isclose(a,b,rel_tol=1e-09,abs_tol=0.0):
    if not isinstance(a,Sym) and not isinstance(b,Sym): return math.isclose(a,b,rel_tol=rel_tol,abs_tol=abs_tol)
    c=Cond('isclose',Sym.lift(a),Sym.lift(b)); return c
class SymMath:
    def __getattr__(s,n): return getattr(math,n)
    def sqrt(s,x): return Sym('sqrt',x) if isinstance(x,Sym) else math.sqrt(x)
    def cos(s,x): return Sym('cos',x) if isinstance(x,Sym) else math.cos(x)
    def sin(s,x): return Sym('sin',x) if isinstance(x,Sym) else math.sin(x)
    def acos(s,x): return Sym('acos',x) if isinstance(x,Sym) else math.acos(x)
    def atan2(s,y,x): return Sym('atan2',Sym.lift(y),Sym.lift(x)) if isinstance(x,Sym) or isinstance(y,Sym) else math.atan2(y,x)
    def pow(s,x,y): return Sym('rpow',x,Sym.lift(y)) if isinstance(x,Sym) else math.pow(x,y)
    def isclose(s,a,b,**k): return sym_isclose(a,b,**k)
sm=SymMath()
import beziers.utils as bu, beziers.line as bl, beziers.utils.intersectionsmixin as im, beziers.cubicbezier as cb, beziers.affinetransformation as at
bu.sqrt=sm.sqrt; bu.isclose=sym_isclose; bl.isclose=sym_isclose; im.isclose=sym_isclose; bl.math=sm; cb.math=sm; bp.math=sm; at.math=sm; at.isclose=sym_isclose
bp.max=sym_max; bp.min=sym_min; cb.max=sym_max; cb.min=sym_min
from beziers.point import Point
from beziers.line import Line
from beziers.cubicbezier import CubicBezier
from beziers.quadraticbezier import QuadraticBezier
# Point.__eq__ has its own nested isclose -> plain arithmetic on Sym; fine
def ll():
    l1=Line(Point(V('ax'),V('ay')),Point(V('bx'),V('by'))); l2=Line(Point(V('cx'),V('cy')),Point(V('dx'),V('dy')))
    r=l1._line_line_intersections(l2)
    return [(i.t1,i.t2) for i in r]
t0=time.time()
try:
    res=explore(ll); print("line-line paths:",len(res),time.time()-t0)
except Exception as e: print("line-line trace error",repr(e))
def tof():
    l1=Line(Point(V('ax'),V('ay')),Point(V('bx'),V('by')))
    return l1.tOfPoint(Point(V('px'),V('py')))
try:
    res=explore(tof); print("Line.tOfPoint paths:",len(res))
except Exception as e: print("tOfPoint error",repr(e))
def fr():
    c=CubicBezier(*[Point(V(f"p{i}x"),V(f"p{i}y")) for i in range(4)])
    return c._findRoots("y")
t0=time.time()
try:
    res=explore(fr); print("cubic _findRoots paths:",len(res),time.time()-t0)
except Exception as e: print("findRoots error",repr(e))
def al():
    l1=Line(Point(V('ax'),V('ay')),Point(V('bx'),V('by')))
    m=l1.alignmentTransformation(); return [m.matrix[0][0],m.matrix[0][1],m.matrix[0][2],m.matrix[1][0],m.matrix[1][1],m.matrix[1][2]]
try:
    res=explore(al); print("alignment paths:",len(res)); print(show(res[0][1][3])[:300])
except Exception as e: print("align error",repr(e))
def hl():
    c=CubicBezier(*[Point(V(f"p{i}x"),V(f"p{i}y")) for i in range(4)])
    r=c.hasLoop
    return list(r) if r else []
try:
    res=explore(hl); print("hasLoop paths:",len(res))
except Exception as e: print("hasLoop error",repr(e))
