import math, random, sys, time
from beziers.point import Point
from beziers.line import Line
from beziers.quadraticbezier import QuadraticBezier
from beziers.cubicbezier import CubicBezier
from beziers.path import BezierPath
random.seed(int(sys.argv[1]) if len(sys.argv)>1 else 6)
def rp(integer): return Point(random.randint(-20,20)*10,random.randint(-20,20)*10) if integer else Point(random.uniform(-200,200),random.uniform(-200,200))
def rseg(integer):
    k=random.choice([3,4]); return {3:QuadraticBezier,4:CubicBezier}[k](*[rp(integer) for _ in range(k)])
def polyline(s,N): return [s.pointAtTime(i/N) for i in range(N+1)]
def segint(p1,p2,p3,p4):
    d=(p2.x-p1.x)*(p4.y-p3.y)-(p2.y-p1.y)*(p4.x-p3.x)
    if d==0: return None
    t=((p3.x-p1.x)*(p4.y-p3.y)-(p3.y-p1.y)*(p4.x-p3.x))/d
    u=((p3.x-p1.x)*(p2.y-p1.y)-(p3.y-p1.y)*(p2.x-p1.x))/d
    if 0<=t<1 and 0<=u<1: return t,u
    return None
def truecross(a,b,N=300):
    pa=polyline(a,N); pb=polyline(b,N)
    out=[]
    # bbox prune per edge
    for i in range(N):
        ax0=min(pa[i].x,pa[i+1].x); ax1=max(pa[i].x,pa[i+1].x); ay0=min(pa[i].y,pa[i+1].y); ay1=max(pa[i].y,pa[i+1].y)
        for j in range(N):
            if max(pb[j].x,pb[j+1].x)<ax0 or min(pb[j].x,pb[j+1].x)>ax1 or max(pb[j].y,pb[j+1].y)<ay0 or min(pb[j].y,pb[j+1].y)>ay1: continue
            r=segint(pa[i],pa[i+1],pb[j],pb[j+1])
            if r: out.append(((i+r[0])/N,(j+r[1])/N))
    return out
bad={}
def flag(k,info=None):
    bad[k]=bad.get(k,0)+1
    if bad[k]<3 and info: print(k,info)
n=0; t0=time.time(); maxt=0
for it in range(120):
    integer=random.random()<.5
    a=rseg(integer); b=rseg(integer)
    tc=truecross(a,b)
    ext=max(max(p.x for p in a.points+b.points)-min(p.x for p in a.points+b.points), max(p.y for p in a.points+b.points)-min(p.y for p in a.points+b.points))
    tol=0.002*ext
    # filters: transversal >=5deg, >= 1% from ends, pairwise 0.02 apart
    ok=True
    for (t,u) in tc:
        if min(t,1-t,u,1-u)<0.01: ok=False
        ta=a.tangentAtTime(t); tb=b.tangentAtTime(u)
        ang=abs(math.degrees(math.asin(max(-1,min(1,ta.x*tb.y-ta.y*tb.x)))))
        if ang<5: ok=False
    for i in range(len(tc)):
        for j in range(i+1,len(tc)):
            if abs(tc[i][0]-tc[j][0])<0.02 or abs(tc[i][1]-tc[j][1])<0.02: ok=False
    if not ok: continue
    n+=1
    t1=time.time()
    r1=a.intersections(b); r2=b.intersections(a)
    maxt=max(maxt,time.time()-t1)
    for name,res in (('ab',r1),('ba',r2)):
        for (t,u) in tc:
            p=a.pointAtTime(t)
            if not any(i.point.distanceFrom(p)<=tol for i in res): flag('missed-'+name,(a,b,t,u,[(i.t1,i.t2) for i in res]))
        for i in res:
            p1=i.seg1.pointAtTime(i.t1); p2=i.seg2.pointAtTime(i.t2)
            if p1.distanceFrom(p2)>tol: flag('phantom-'+name,(a,b,i.t1,i.t2,p1.distanceFrom(p2),tol))
print(n,bad,"maxtime",maxt)
# loops
nl=0
for it in range(2000):
    c=CubicBezier(*[rp(False) for _ in range(4)])
    lp=c.hasLoop
    if lp:
        t1,t2=lp
        if 0<t1<1 and 0<t2<1:
            nl+=1
            if c.pointAtTime(t1).distanceFrom(c.pointAtTime(t2))>1e-6*200: flag('loopwrong',(c,t1,t2))
            if abs(t1-t2)<1e-9: flag('loop same t')
print("loops",nl,bad)
