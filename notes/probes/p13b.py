import math, random, sys
from beziers.point import Point
from beziers.path import BezierPath
from beziers.path.geometricshapes import Rectangle, Ellipse, Circle
random.seed(3)
A=Rectangle(100,80,origin=Point(0,0)); B=Ellipse(50,30,origin=Point(45,32))
for name in ('union','intersection','difference'):
    res=getattr(A,name)(B)
    print(name,len(res))
    for r in res:
        s=r.asSegments()
        for i,x in enumerate(s):
            gap=x.end.distanceFrom(s[(i+1)%len(s)].start)
            print("   ",x, "gap->next %.4f"%gap)
print([ (i.t1,i.t2,i.point) for s1 in A.asSegments() for s2 in B.asSegments() for i in s1.intersections(s2)])
