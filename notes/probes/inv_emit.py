from tracer import *
import tracer
import beziers.affinetransformation as at
from emit import emit_dag
at.isclose=lambda a,b: False   # guard: det != 0 branch
m=at.AffineTransformation([[V(f"m{i}{j}") for j in range(3)] for i in range(3)])
m0=[[V(f"m{i}{j}") for j in range(3)] for i in range(3)]
m.invert()
inv=m.matrix
params=[f"m{i}{j}" for i in range(3) for j in range(3)]
outs=[inv[i][j] for i in range(3) for j in range(3)]
txt,n=emit_dag("invert",params,outs)
print("import Mathlib.Tactic.Ring\nimport Mathlib.Tactic.FieldSimp\nimport Mathlib.Algebra.Field.Basic\nvariable {K : Type} [Field K]\n")
print(txt)
P=" ".join(params)
print(f"""def det ({P} : K) : K := m00 * (m11 * m22 - m12 * m21) - m01 * (m10 * m22 - m12 * m20) + m02 * (m10 * m21 - m11 * m20)

/-- (m * invert m) = identity, entry by entry, whenever det ≠ 0 -/
theorem invert_right ({P} : K) (h : det {P} ≠ 0) :
    let i := invert {P}
    [m00 * i[0]! + m01 * i[3]! + m02 * i[6]!, m00 * i[1]! + m01 * i[4]! + m02 * i[7]!, m00 * i[2]! + m01 * i[5]! + m02 * i[8]!,
     m10 * i[0]! + m11 * i[3]! + m12 * i[6]!, m10 * i[1]! + m11 * i[4]! + m12 * i[7]!, m10 * i[2]! + m11 * i[5]! + m12 * i[8]!,
     m20 * i[0]! + m21 * i[3]! + m22 * i[6]!, m20 * i[1]! + m21 * i[4]! + m22 * i[7]!, m20 * i[2]! + m21 * i[5]! + m22 * i[8]!]
      = [1, 0, 0, 0, 1, 0, 0, 0, 1] := by
  unfold det at h
  simp only [invert, List.getElem!_cons_zero, List.getElem!_cons_succ]
  simp only [List.cons.injEq, and_true]
  refine ⟨?_, ?_, ?_, ?_, ?_, ?_, ?_, ?_, ?_⟩ <;> field_simp <;> ring
""")
