import math, random, sys
from beziers.point import Point
from beziers.line import Line
from beziers.quadraticbezier import QuadraticBezier
from beziers.cubicbezier import CubicBezier
from beziers.path import BezierPath
from beziers.path.geometricshapes import Rectangle, Ellipse, Circle
random.seed(int(sys.argv[1]) if len(sys.argv)>1 else 12)
def shape():
    r=random.random(); o=Point(random.uniform(-100,100),random.uniform(-100,100))
    if r<.4: return Rectangle(random.uniform(20,240),random.uniform(20,240),origin=o)
    if r<.8: return Ellipse(random.uniform(10,120),random.uniform(10,120),origin=o)
    return Circle(random.uniform(10,120),origin=o)
def poly(p,n=200):
    pts=[]
    for s in p.asSegments():
        for i in range(n):
            q=s.pointAtTime(i/n); pts.append((q.x,q.y))
    return pts
def evenodd(pts,x,y):
    c=False; n=len(pts); a=0.0137
    y0=y-a*x
    for i in range(n):
        x1,yy1=pts[i]; x2,yy2=pts[(i+1)%n]; y1=yy1-a*x1; y2=yy2-a*x2
        if (y1>y0)!=(y2>y0):
            xi=x1+(y0-y1)*(x2-x1)/(y2-y1)
            if xi>x: c=not c
    return c
def mind(pts,x,y): return min(math.hypot(px-x,py-y) for px,py in pts)
def connected(p):
    s=p.asSegments()
    for i in range(len(s)-1):
        if s[i].end.distanceFrom(s[i+1].start)>1e-6: return False
    return s[-1].end.distanceFrom(s[0].start)<=1e-6
stats={}
for it in range(60):
    A=shape(); B=shape()
    pa=poly(A); pb=poly(B)
    ra=repr(A.asSegments()); rb=repr(B.asSegments())
    for flat in (True,False):
      for name in ('union','intersection','difference'):
        key=(name,flat); st=stats.setdefault(key,{'n':0,'exc':0,'disc':0,'region':0,'mod':0,'pts':0})
        st['n']+=1
        try:
            res=getattr(A,name)(B,flat=flat)
        except Exception as e:
            st['exc']+=1; 
            if st['exc']<2: print("EXC",name,flat,repr(e))
            continue
        if repr(A.asSegments())!=ra or repr(B.asSegments())!=rb: st['mod']+=1
        rp=[poly(r,50) for r in res]
        for r in res:
            if not r.closed or not connected(r): st['disc']+=1; break
        tol=2.5 if flat else 2.5
        for j in range(40):
            x=random.uniform(-260,260); y=random.uniform(-260,260)
            if mind(pa,x,y)<tol+1 or mind(pb,x,y)<tol+1: continue
            ia=evenodd(pa,x,y); ib=evenodd(pb,x,y)
            exp={'union':ia or ib,'intersection':ia and ib,'difference':ia and not ib}[name]
            got=False
            for q in rp: got^=evenodd(q,x,y)
            st['pts']+=1
            if got!=exp: st['region']+=1
for k,v in stats.items(): print(k,v)
