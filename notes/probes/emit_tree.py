"""Prototype: emit traced decision trees as Lean if-then-else over an ordered field."""
from tracer import *
import tracer
from fractions import Fraction
def lean_expr(e):
    if e.op=='const':
        v=e.args[0]
        if v.denominator==1: return f"({v.numerator} : K)" if v>=0 else f"(-{-v.numerator} : K)"
        return f"(({v.numerator} : K) / {v.denominator})"
    if e.op=='var': return e.args[0]
    if e.op=='neg': return f"(-{lean_expr(e.args[0])})"
    if e.op=='powi': return f"({lean_expr(e.args[0])} ^ ({e.args[1]} : ℕ))"
    if e.op=='sqrt': return f"(sqrt {lean_expr(e.args[0])})"
    o={'add':'+','sub':'-','mul':'*','div':'/'}[e.op]
    return f"({lean_expr(e.args[0])} {o} {lean_expr(e.args[1])})"
def lean_cond(c):
    o={'lt':'<','le':'≤','gt':'>','ge':'≥','eq':'=','ne':'≠'}[c.op]
    return f"{lean_expr(c.a)} {o} {lean_expr(c.b)}"
def lean_val(r):
    if isinstance(r,bool): return "true" if r else "false"
    if isinstance(r,list): return "["+", ".join(lean_val(x) for x in r)+"]"
    if isinstance(r,Sym): return lean_expr(r)
    raise TypeError(r)
def build_tree(paths):
    # paths: list of (conds[(Cond,dec)], result). Merge on common prefix.
    if len(paths)==1 and not paths[0][0]: return ('leaf',paths[0][1])
    c=paths[0][0][0][0]
    key=lean_cond(c)
    T=[(cs[1:],r) for cs,r in paths if cs[0][1]]
    F=[(cs[1:],r) for cs,r in paths if not cs[0][1]]
    for cs,r in paths: assert lean_cond(cs[0][0])==key
    return ('if',key,build_tree(T),build_tree(F))
def emit_tree(t,ind=2):
    sp=" "*ind
    if t[0]=='leaf': return sp+lean_val(t[1])
    return f"{sp}if {t[1]} then\n{emit_tree(t[2],ind+2)}\n{sp}else\n{emit_tree(t[3],ind+2)}"
if __name__=='__main__':
    import beziers.point as bp
    def init(self,x,y): self.x=x if isinstance(x,Sym) else float(x); self.y=y if isinstance(y,Sym) else float(y)
    bp.Point.__init__=init
    from beziers.point import Point
    from beziers.boundingbox import BoundingBox
    import beziers.utils as bu
    bu.sqrt=lambda x: Sym('sqrt',x) if isinstance(x,Sym) else __import__('math').sqrt(x)
    def ov():
        b1=BoundingBox(); b1.bl=Point(V('l1'),V('b1')); b1.tr=Point(V('r1'),V('t1'))
        b2=BoundingBox(); b2.bl=Point(V('l2'),V('b2')); b2.tr=Point(V('r2'),V('t2'))
        return b1.overlaps(b2)
    def inc():
        b1=BoundingBox(); b1.bl=Point(V('l1'),V('b1')); b1.tr=Point(V('r1'),V('t1'))
        r=b1.includes(Point(V('px'),V('py')))
        return bool(r)  # a trailing Cond from `and` is forced inside the traced context
    print("import Mathlib.Algebra.Order.Field.Basic\nimport Mathlib.Tactic.Linarith\nimport Mathlib.Tactic.Ring\nvariable {K : Type} [Field K] [LinearOrder K] [IsStrictOrderedRing K]\n")
    print("def overlaps (l1 b1 r1 t1 l2 b2 r2 t2 : K) : Bool :=\n"+emit_tree(build_tree(explore(ov)))+"\n")
    print("def includes (l1 b1 r1 t1 px py : K) : Bool :=\n"+emit_tree(build_tree(explore(inc)))+"\n")
    print("def quadraticRoots (sqrt : K → K) (a b c : K) : List K :=\n"+emit_tree(build_tree(explore(lambda: bu.quadraticRoots(V('a'),V('b'),V('c')))))+"\n")
    print("""theorem overlaps_iff (l1 b1 r1 t1 l2 b2 r2 t2 : K) :
    overlaps l1 b1 r1 t1 l2 b2 r2 t2 = true ↔ (l2 ≤ r1 ∧ l1 ≤ r2) ∧ (b2 ≤ t1 ∧ b1 ≤ t2) := by
  unfold overlaps
  split_ifs <;> simp_all <;> (try constructor) <;> linarith
theorem overlaps_symm (l1 b1 r1 t1 l2 b2 r2 t2 : K) :
    overlaps l1 b1 r1 t1 l2 b2 r2 t2 = overlaps l2 b2 r2 t2 l1 b1 r1 t1 := by
  rw [Bool.eq_iff_iff, overlaps_iff, overlaps_iff]; tauto
theorem includes_iff (l1 b1 r1 t1 px py : K) :
    includes l1 b1 r1 t1 px py = true ↔ (l1 ≤ px ∧ px ≤ r1) ∧ (b1 ≤ py ∧ py ≤ t1) := by
  unfold includes
  split_ifs <;> simp_all <;> (try constructor) <;> linarith
""")
