from beziers.point import Point
from beziers.cubicbezier import CubicBezier
from beziers.quadraticbezier import QuadraticBezier
from beziers.path import BezierPath
a=CubicBezier(Point(0,0),Point(100,0),Point(300,0),Point(400,0))
b=CubicBezier(Point(400,0),Point(500,0),Point(700,0),Point(800,0))
print(a.intersections(b))
# flat but disjoint y: boxes overlap? no
c=CubicBezier(Point(0,0),Point(100,0),Point(300,0),Point(400,1e-6))
d=CubicBezier(Point(0,2e-6),Point(100,1e-6),Point(300,1e-6),Point(400,1e-6))
print(c.intersections(d))
# vertical thin vs curve crossing transversally: vertical straight cubic crossing an arc
v=CubicBezier(Point(50,-100),Point(50,-30),Point(50,30),Point(50,100))
arc=CubicBezier(Point(0,0),Point(30,40),Point(70,40),Point(100,5))
r=v.intersections(arc); print(r, [ (i.seg1.pointAtTime(i.t1).distanceFrom(i.seg2.pointAtTime(i.t2))) for i in r])
r=arc.intersections(v); print(r, [ (i.seg1.pointAtTime(i.t1).distanceFrom(i.seg2.pointAtTime(i.t2))) for i in r])
# horizontal straight cubic vs. shallow arc crossing at >=5deg
h=CubicBezier(Point(0,10),Point(100,10),Point(200,10),Point(300,10))
arc2=CubicBezier(Point(0,0),Point(100,40),Point(200,40),Point(300,0))
for (x,y) in ((h,arc2),(arc2,h)):
    r=x.intersections(y); print(len(r),[ (round(i.t1,3),round(i.t2,3),round(i.seg1.pointAtTime(i.t1).distanceFrom(i.seg2.pointAtTime(i.t2)),3)) for i in r])
