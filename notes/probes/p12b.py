import math, random, sys
from beziers.point import Point
from beziers.line import Line
from beziers.quadraticbezier import QuadraticBezier
from beziers.cubicbezier import CubicBezier
from beziers.path import BezierPath
from beziers.path.geometricshapes import Rectangle, Ellipse, Circle
random.seed(int(sys.argv[1]) if len(sys.argv)>1 else 12)
exec(open('p7h.py').read().split("def snap")[0].split("random.seed")[1].split("\n",1)[1])
def shape():
    r=random.random(); o=Point(random.uniform(-100,100),random.uniform(-100,100))
    if r<.3: return Rectangle(random.uniform(20,240),random.uniform(20,240),origin=o)
    if r<.6: return Ellipse(random.uniform(10,120),random.uniform(10,120),origin=o)
    if r<.7: return Circle(random.uniform(10,120),origin=o)
    return randpath(random.randint(3,5),True,random.random()<.5)
bad={}
def flag(k,info=None):
    bad[k]=bad.get(k,0)+1
    if bad[k]<3 and info: print(k,info)
def outline_pts(p,n=400):
    return [s.pointAtTime(i/n) for s in p.asSegments() for i in range(n+1)]
def mind(pts,q): return min(p.distanceFrom(q) for p in pts)
for it in range(80):
    A=shape(); B=shape()
    simple = all(isinstance(x,BezierPath) for x in (A,B))
    try:
        U=A.union(B,flat=True); I=A.intersection(B,flat=True); D=A.difference(B,flat=True)
    except Exception as e: flag('exc',repr(e)); continue
    aU=sum(p.area for p in U); aI=sum(p.area for p in I); aD=sum(p.area for p in D)
    # signed sum for holes: use signed area with orientation... union may contain holes (negative orientation)
    sU=abs(sum(p.signed_area for p in U)); sI=abs(sum(p.signed_area for p in I)); sD=abs(sum(p.signed_area for p in D))
    aA=A.flatten(2).area; aB=B.flatten(2).area
    LA=A.length; LB=B.length
    tol=2*(LA+LB)*0.5+1
    selfx = len(A.getSelfIntersections())+len(B.getSelfIntersections())
    if selfx==0:
        if abs(sU+sI-aA-aB)>tol: flag('incl-excl',(it,sU,sI,aA,aB,tol))
        if abs(sD-(aA-sI))>tol: flag('diff',(it,sD,aA,sI))
    # C13 first sentence
    pa=outline_pts(A); pb=outline_pts(B)
    ra=repr(A.asSegments()); rb=repr(B.asSegments())
    for name in ('union','intersection','difference'):
        try: res=getattr(A,name)(B)
        except Exception as e: flag('exc13',repr(e)); continue
        if repr(A.asSegments())!=ra or repr(B.asSegments())!=rb: flag('modified')
        for r in res:
            for s in r.asSegments():
                for j in range(0,11):
                    q=s.pointAtTime(j/10)
                    dd=min(mind(pa,q),mind(pb,q))
                    if dd>1.5+0.3: flag('invented-'+name,(it,s,q,dd)); break
print(bad)
