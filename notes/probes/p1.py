import math, random, sys
from fractions import Fraction as F
from beziers.point import Point
from beziers.line import Line
from beziers.quadraticbezier import QuadraticBezier
from beziers.cubicbezier import CubicBezier
from beziers.path import BezierPath
from beziers.boundingbox import BoundingBox
random.seed(1)
def rp(intg=True, m=1000):
    if intg: return Point(random.randint(-m,m), random.randint(-m,m))
    return Point(random.uniform(-m,m), random.uniform(-m,m))
def bern(pts,t):
    n=len(pts)-1
    x=sum(math.comb(n,i)*(1-t)**(n-i)*t**i*F(p.x) for i,p in enumerate(pts))
    y=sum(math.comb(n,i)*(1-t)**(n-i)*t**i*F(p.y) for i,p in enumerate(pts))
    return x,y
# C01
worst=0
for it in range(3000):
    k=random.choice([2,3,4])
    pts=[rp(random.random()<.5, 10**random.randint(0,6)) for _ in range(k)]
    seg={2:Line,3:QuadraticBezier,4:CubicBezier}[k](*pts)
    t=random.random(); s=random.random()
    M=max(max(abs(p.x),abs(p.y)) for p in pts) or 1
    ex=bern(pts,F(t)); p=seg.pointAtTime(t)
    e=max(abs(F(p.x)-ex[0]),abs(F(p.y)-ex[1]))/M
    a,b=seg.splitAtTime(t)
    pa=a.pointAtTime(s); ea=bern(pts,F(s)*F(t))
    pb=b.pointAtTime(s); eb=bern(pts,F(t)+F(s)*(1-F(t)))
    e=max(e, max(abs(F(pa.x)-ea[0]),abs(F(pa.y)-ea[1]))/M, max(abs(F(pb.x)-eb[0]),abs(F(pb.y)-eb[1]))/M)
    worst=max(worst,float(e))
print("C01 worst rel err", worst)
