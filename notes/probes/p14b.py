import math, random, sys
from beziers.point import Point
from beziers.path import BezierPath
from beziers.cubicbezier import CubicBezier
import beziers.utils.curvefitter as cf
random.seed(14)
orig=cf.CurveFit._fitCurve.__func__
log=[]
def wrapped(cls, points, t1, t2, error, ct, ms):
    r=orig(cls, points, t1, t2, error, ct, ms)
    if r==[] or r is None:
        log.append(('EMPTY',len(points),ms, t1, t2))
    return r
cf.CurveFit._fitCurve=classmethod(wrapped)
cnt={}
for it in range(300):
    N=random.randint(3,30)
    pts=[Point(random.uniform(-300,300),random.uniform(-300,300)) for _ in range(N)]
    error=10**random.uniform(-2,4); ct=10**random.uniform(-1,2); budget=N+random.randint(0,5)
    log.clear()
    path=BezierPath.fromPoints([p.clone() for p in pts],error=error,cornerTolerance=ct,maxSegments=budget)
    segs=path.asSegments()
    endok= segs and segs[-1].end.distanceFrom(pts[-1])==0
    key=(bool(endok), tuple(sorted(set((l[0], 'ms<=1' if l[2]<=1 else 'ms>1') for l in log))))
    cnt[key]=cnt.get(key,0)+1
for k,v in cnt.items(): print(k,v)
