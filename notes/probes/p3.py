import math, random, sys
from beziers.point import Point
from beziers.line import Line
from beziers.quadraticbezier import QuadraticBezier
from beziers.cubicbezier import CubicBezier
from beziers.path import BezierPath
random.seed(int(sys.argv[1]) if len(sys.argv)>1 else 3)
exec(open('p7h.py').read().split("def snap")[0].split("random.seed")[1].split("\n",1)[1])
bad={}
def flag(k,info=None):
    bad[k]=bad.get(k,0)+1
    if bad[k]<3 and info: print(k,info)
def signchanges(seg):
    # exact-ish: derivative component polys, roots by dense sign scan + refinement
    d=seg.derivative(); out=[]
    N=20011
    for comp in 'xy':
        f=lambda t: getattr(d.pointAtTime(t),comp)
        prev=f(0); pt=0
        for i in range(1,N+1):
            t=i/N; cur=f(t)
            if prev*cur<0:
                lo,hi=pt,t; flo=prev
                for _ in range(60):
                    m=(lo+hi)/2; fm=f(m)
                    if fm*flo<=0: hi=m
                    else: lo=m; flo=fm
                out.append((lo+hi)/2)
            if cur!=0: prev=cur; pt=t
    return sorted(out)
for it in range(400):
    integer=random.random()<.6
    k=random.choice([3,4]); pts=[rp(integer) for _ in range(k)]
    if random.random()<.3 and k==4:
        q=QuadraticBezier(*pts[:3]); pts=list(q.toCubicBezier().points) if not integer else [pts[0], Point(pts[0].x+30,pts[1].y), Point(pts[0].x+60,pts[2].y), Point(pts[0].x+90,pts[3].y)]
    seg={3:QuadraticBezier,4:CubicBezier}[k](*pts)
    exp=[t for t in signchanges(seg) if 0.01<=t<=0.99]
    got=sorted(seg.findExtremes())
    # ignore boundary-near
    if any(abs(t-0.01)<1e-6 or abs(t-0.99)<1e-6 for t in signchanges(seg)): continue
    if len(exp)!=len(got) or any(abs(a-b)>1e-6 for a,b in zip(exp,got)): flag('extremes',(seg,exp,got))
for it in range(300):
    closed=random.random()<.5
    p=randpath(random.randint(1,5),closed,random.random()<.6)
    orig=[s.clone() for s in p.asSegments()]
    p.addExtremes()
    segs=p.asSegments()
    # map each new seg to original by walking
    # monotonic check with tolerance 0.06% of extent of whole original segment (approx by path-wide max ext of orig segs)
    i=0
    for o in orig:
        ext=max(max(q.x for q in o.points)-min(q.x for q in o.points), max(q.y for q in o.points)-min(q.y for q in o.points))
        tol=0.0006*ext+1e-9
        # consume new segs until end matches o.end
        while True:
            s=segs[i]; i+=1
            for comp in 'xy':
                vals=[getattr(s.pointAtTime(j/200),comp) for j in range(201)]
                up=max(0,max(vals[a]-vals[b] for a in range(0,201,10) for b in range(a,201,10)))  # max backtrack if increasing
                dn=max(0,max(vals[b]-vals[a] for a in range(0,201,10) for b in range(a,201,10)))
                if min(up,dn)>tol: flag('nonmono',(o,s,comp,min(up,dn),tol))
            if s.end.distanceFrom(o.end)<1e-9*(1+abs(o.end.x)+abs(o.end.y)) : break
            if i>=len(segs): flag('walk'); break
        if i>len(segs): break
    if i!=len(segs): flag('leftover',(len(orig),len(segs),i))
print(bad)
