import math, random
from beziers.point import Point
from beziers.line import Line
from beziers.quadraticbezier import QuadraticBezier
from beziers.cubicbezier import CubicBezier
from beziers.path import BezierPath
random.seed(2)
# symmetric arch: derivative x linear
c=CubicBezier(Point(0,0),Point(0,100),Point(100,100),Point(100,0))
print("arch extremes",c.findExtremes(), "bounds", c.bounds())
# degree-elevated quadratic
q=QuadraticBezier(Point(0,0),Point(50,100),Point(200,0))
cc=q.toCubicBezier()
print("q ext",q.findExtremes(),q.bounds(), "cubic ext",cc.findExtremes(),cc.bounds())
c2=CubicBezier(Point(0,0),Point(30,90),Point(60,90),Point(90,0))
print(c2.findExtremes(), c2.bounds())
def chk(seg):
    b=seg.bounds()
    ext=max(b.width,b.height) 
    pts=seg.points
    cpw=max(p.x for p in pts)-min(p.x for p in pts); cph=max(p.y for p in pts)-min(p.y for p in pts)
    tol=0.0006*max(cpw,cph)
    worst=0
    for i in range(0,1001):
        t=i/1000
        p=seg.pointAtTime(t)
        d=max(b.left-p.x,p.x-b.right,b.bottom-p.y,p.y-b.top)
        worst=max(worst,d)
    return worst,tol
bad=0
for it in range(3000):
    k=random.choice([3,4])
    pts=[Point(random.randint(-20,20)*10, random.randint(-20,20)*10) for _ in range(k)]
    seg={3:QuadraticBezier,4:CubicBezier}[k](*pts)
    w,tol=chk(seg)
    if w>tol+1e-9:
        bad+=1
        if bad<6: print("C02 viol",seg,w,tol,seg.findExtremes())
print("bad",bad)
