import math, random, sys
from beziers.point import Point
from beziers.line import Line
from beziers.quadraticbezier import QuadraticBezier
from beziers.cubicbezier import CubicBezier
from beziers.path import BezierPath
from beziers.path.geometricshapes import Rectangle, Ellipse
random.seed(int(sys.argv[1]) if len(sys.argv)>1 else 11)
def randpath(nseg, integer):
    def rp():
        return Point(random.randint(-20,20)*10, random.randint(-20,20)*10) if integer else Point(random.uniform(-200,200),random.uniform(-200,200))
    nodes=[rp() for _ in range(nseg)]
    segs=[]
    for i in range(nseg):
        a=nodes[i]; b=nodes[(i+1)%nseg]
        k=random.choice([2,3,4])
        if k==2: segs.append(Line(a,b))
        elif k==3: segs.append(QuadraticBezier(a,rp(),b))
        else: segs.append(CubicBezier(a,rp(),rp(),b))
    p=BezierPath.fromSegments(segs); p.closed=True
    return p
def poly(p,n=400):
    pts=[]
    for s in p.asSegments():
        for i in range(n):
            q=s.pointAtTime(i/n); pts.append((q.x,q.y))
    return pts
def evenodd(pts,x,y):
    # ray in direction (1, 0.000123...) generic: use standard crossing w/ slight slanted transform
    c=False; n=len(pts)
    a=0.0137
    ys=[py-a*px for px,py in pts]; y0=y-a*x
    for i in range(n):
        x1=pts[i][0]; x2=pts[(i+1)%n][0]; y1=ys[i]; y2=ys[(i+1)%n]
        if (y1>y0)!=(y2>y0):
            xi=x1+(y0-y1)*(x2-x1)/(y2-y1)
            if xi>x: c=not c
    return c
def mindist(pts,x,y):
    return min(math.hypot(px-x,py-y) for px,py in pts)
bad=0;n=0;exc=0;badout=0
cats={}
for it in range(300):
    integer=random.random()<.5
    p=randpath(random.randint(3,6),integer)
    pts=poly(p)
    b=p.bounds()
    ext=max(b.width,b.height)
    if ext<10: continue
    nodesy=set(s.start.y for s in p.asSegments())
    for j in range(12):
        r=random.random()
        if r<0.3 and integer:
            q=Point(random.randint(-25,25)*10+5, random.choice(list(nodesy))); cat='level'
        elif r<0.5:
            q=Point(random.choice([b.left-50,b.right+50]), random.uniform(b.bottom,b.top)); cat='outside'
        else:
            q=Point(random.uniform(b.left-20,b.right+20),random.uniform(b.bottom-20,b.top+20)); cat='gen'
        if mindist(pts,q.x,q.y)<=1e-3*ext+ext/400*2: continue
        exp=evenodd(pts,q.x,q.y)
        try:
            got=p.pointIsInside(q); w=p.windingNumberOfPoint(q)
        except Exception as e:
            exc+=1; continue
        n+=1
        cats.setdefault(cat,[0,0,0])[0]+=1
        if got!=exp:
            cats[cat][1]+=1
            if cats[cat][1]<3: print("BAD",cat,p.asSegments(),q,"exp",exp,"got",got,w)
        if cat=='outside' and w!=0: cats[cat][2]+=1
print(n,exc,cats)
