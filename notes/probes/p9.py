import math, random
from beziers.point import Point
from beziers.line import Line
from beziers.quadraticbezier import QuadraticBezier
from beziers.cubicbezier import CubicBezier
from beziers.path import BezierPath
from beziers.affinetransformation import AffineTransformation as AT
from beziers.path.geometricshapes import Rectangle, Ellipse, Circle
random.seed(9)
def rp(m=200): return Point(random.uniform(-m,m),random.uniform(-m,m))
def rseg():
    k=random.choice([2,3,4]); return {2:Line,3:QuadraticBezier,4:CubicBezier}[k](*[rp() for _ in range(k)])
worst=0; worstinv=0; worstorder=0; worstrot=0; worstal=0
for it in range(3000):
    seg=rseg(); t=random.random()
    m=AT(); ops=[]
    ref=lambda p:p
    fs=[]
    for j in range(random.randint(1,5)):
        o=random.choice('trsxf')
        if o=='t':
            v=rp(50); m.translate(v); fs.append(lambda p,v=v: Point(p.x+v.x,p.y+v.y))
        elif o=='r':
            a=random.uniform(-7,7); m.rotate(a); fs.append(lambda p,a=a: Point(p.x*math.cos(a)-p.y*math.sin(a), p.x*math.sin(a)+p.y*math.cos(a)))
        elif o=='s':
            sx=random.choice([random.uniform(-3,3),2,-1]); m.scale(sx); fs.append(lambda p,sx=sx: Point(p.x*sx,p.y*sx))
        elif o=='x':
            sx=random.uniform(-3,3); sy=random.choice([random.uniform(-3,3),0.0]); m.scale(sx,sy); fs.append(lambda p,sx=sx,sy=sy: Point(p.x*sx,p.y*sy))
        else:
            m.reflect(); fs.append(lambda p: Point(-p.x,p.y))
    p=seg.pointAtTime(t)
    a=seg.transformed(m).pointAtTime(t); b=p.transformed(m)
    worst=max(worst,a.distanceFrom(b))
    q=p
    for f in fs: q=f(q)
    e=q.distanceFrom(b)
    if e>worstorder: worstorder=e
    import copy
    mi=AT(copy.deepcopy(m.matrix)); mi.invert()
    det=m.matrix[0][0]*m.matrix[1][1]-m.matrix[0][1]*m.matrix[1][0]
    if abs(det)>1e-3:
        back=b.transformed(mi); worstinv=max(worstinv, back.distanceFrom(p)/max(1,abs(1/det)))
    c=rp(); ang=random.uniform(-7,7)
    r=p.rotated(c,ang)
    ex=Point(c.x+(p.x-c.x)*math.cos(ang)-(p.y-c.y)*math.sin(ang), c.y+(p.x-c.x)*math.sin(ang)+(p.y-c.y)*math.cos(ang))
    worstrot=max(worstrot,r.distanceFrom(ex))
    al=seg.aligned()
    ch=seg.start.distanceFrom(seg.end)
    worstal=max(worstal, al.start.distanceFrom(Point(0,0)), al.end.distanceFrom(Point(ch,0)))
print("commute",worst,"order",worstorder,"inv",worstinv,"rot",worstrot,"aligned",worstal)
# C10 area
worst=0
def exact_area(seg,n=20000):
    # integral y dx = ∫ y(t) x'(t) dt  via Simpson
    d=seg.derivative() if len(seg)>2 else None
    def f(t):
        p=seg.pointAtTime(t)
        if d: dx=d.pointAtTime(t).x
        else: dx=seg.end.x-seg.start.x
        return p.y*dx
    h=1/n; s=f(0)+f(1)
    for i in range(1,n): s+=(4 if i%2 else 2)*f(i*h)
    return s*h/3
wa=0;ws=0;wr=0;wel=0
for it in range(300):
    seg=rseg(); 
    A=seg.area; E=exact_area(seg,2000)
    wa=max(wa,abs(A-E)/(1+abs(E)))
    t=random.random(); a,b=seg.splitAtTime(t)
    ws=max(ws,abs(a.area+b.area-A)/(1+abs(A)))
    wr=max(wr,abs(seg.reversed().area+A)/(1+abs(A)))
l=Line(rp(),rp()); q=QuadraticBezier(l.start,l.start.lerp(l.end,.5),l.end); c=q.toCubicBezier()
print("area vs integral",wa,"split",ws,"rev",wr,"elev",l.area,q.area,c.area)
# sign: is ∫ y dx or -(...)?  line area = 0.5*(x1-x0)*(y0+y1) = ∫ y dx. ok
r=Rectangle(200,100); print("rect signed",r.signed_area, r.direction, -sum(s.area for s in r.asSegments()))
e=Ellipse(100,50,origin=Point(10,20)); print("ellipse signed",e.signed_area, -sum(s.area for s in e.asSegments()), e.length)
e.reverse(); print("rev ellipse", e.signed_area)
