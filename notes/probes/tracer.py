"""Prototype: symbolic tracing of the real Python code into expression DAGs + path conditions."""
import math, itertools
from fractions import Fraction
class NeedDecision(Exception): pass
class Ctx:
    def __init__(s): s.decisions=[]; s.pos=0; s.conds=[]
CTX=None
class Sym:
    __slots__=('op','args')
    def __init__(s,op,*args): s.op=op; s.args=args
    @staticmethod
    def lift(v):
        if isinstance(v,Sym): return v
        if isinstance(v,bool): raise TypeError
        if isinstance(v,int): return Sym('const',Fraction(v))
        if isinstance(v,float): return Sym('const',Fraction(v))  # exact
        raise TypeError(type(v))
    def _b(s,op,o,rev=False):
        try: o=Sym.lift(o)
        except TypeError: return NotImplemented
        return Sym(op,o,s) if rev else Sym(op,s,o)
    def __add__(s,o): return s._b('add',o)
    def __radd__(s,o): return s._b('add',o,True)
    def __sub__(s,o): return s._b('sub',o)
    def __rsub__(s,o): return s._b('sub',o,True)
    def __mul__(s,o): return s._b('mul',o)
    def __rmul__(s,o): return s._b('mul',o,True)
    def __truediv__(s,o): return s._b('div',o)
    def __rtruediv__(s,o): return s._b('div',o,True)
    def __neg__(s): return Sym('neg',s)
    def __pow__(s,o):
        if isinstance(o,int): return Sym('powi',s,o)
        return Sym('rpow',s,Sym.lift(o))
    def __float__(s): raise TypeError("symbolic float()")
    def _c(s,op,o): return Cond(op,s,Sym.lift(o))
    def __lt__(s,o): return s._c('lt',o)
    def __le__(s,o): return s._c('le',o)
    def __gt__(s,o): return s._c('gt',o)
    def __ge__(s,o): return s._c('ge',o)
    def __eq__(s,o): return s._c('eq',o)
    def __ne__(s,o): return s._c('ne',o)
    __hash__=object.__hash__
class Cond:
    def __init__(s,op,a,b): s.op=op; s.a=a; s.b=b
    def __bool__(s):
        c=CTX
        if c.pos<len(c.decisions): d=c.decisions[c.pos]
        else: c.decisions.append(True); d=True
        c.pos+=1; c.conds.append((s,d)); return d
def explore(f):
    """DFS over boolean decisions; returns list of (conds, result)."""
    global CTX
    out=[]; stack=[[]]
    while stack:
        pre=stack.pop()
        CTX=Ctx(); CTX.decisions=list(pre)
        r=f()
        dec=CTX.decisions
        out.append((list(CTX.conds),r))
        # schedule siblings for decisions made beyond the prefix
        for i in range(len(pre),len(dec)):
            stack.append(dec[:i]+[False])
    return out
def show(e):
    if isinstance(e,Sym):
        if e.op=='const':
            v=e.args[0]; return str(v) if v.denominator==1 else f"({v.numerator}/{v.denominator})"
        if e.op=='var': return e.args[0]
        if e.op=='neg': return f"(-{show(e.args[0])})"
        if e.op=='powi': return f"({show(e.args[0])}^{e.args[1]})"
        if e.op in ('sqrt','cos','acos','sin','abs'): return f"{e.op}({show(e.args[0])})"
        if e.op in ('max','min','atan2','rpow'): return f"{e.op}({show(e.args[0])},{show(e.args[1])})"
        o={'add':'+','sub':'-','mul':'*','div':'/'}[e.op]
        return f"({show(e.args[0])} {o} {show(e.args[1])})"
    if isinstance(e,(list,tuple)): return "["+", ".join(show(x) for x in e)+"]"
    return repr(e)
def showc(c,d):
    o={'lt':'<','le':'≤','gt':'>','ge':'≥','eq':'=','ne':'≠','isclose':'≈'}[c.op]
    s=f"{show(c.a)} {o} {show(c.b)}"
    return s if d else f"¬({s})"
def V(n): return Sym('var',n)
if __name__=='__main__':
    import beziers.point as bp
    def init(self,x,y): self.x=x if isinstance(x,Sym) else float(x); self.y=y if isinstance(y,Sym) else float(y)
    bp.Point.__init__=init
    from beziers.point import Point
    from beziers.cubicbezier import CubicBezier
    from beziers.quadraticbezier import QuadraticBezier
    import beziers.utils as bu
    import beziers.cubicbezier as cbm
    class SymMath:
        def __getattr__(s,n): return getattr(math,n)
        @staticmethod
        def sqrt(x): return Sym('sqrt',x) if isinstance(x,Sym) else math.sqrt(x)
    bu.sqrt=SymMath.sqrt
    c=CubicBezier(*[Point(V(f"p{i}x"),V(f"p{i}y")) for i in range(4)])
    t=V('t')
    p=c.pointAtTime(t); print("pointAtTime.x =",show(p.x))
    a,b=c.splitAtTime(t); print("split left p3.x =",show(a[3].x)[:200],'...')
    print("area =",show(c.area)[:300])
    res=explore(lambda: bu.quadraticRoots(V('a'),V('b'),V('c')))
    for conds,r in res:
        print("  PATH", " ∧ ".join(showc(c,d) for c,d in conds), "=>", show(r))
    print(len(res),"paths")
    from beziers.boundingbox import BoundingBox
    def ov():
        b1=BoundingBox(); b1.bl=Point(V('l1'),V('b1')); b1.tr=Point(V('r1'),V('t1'))
        b2=BoundingBox(); b2.bl=Point(V('l2'),V('b2')); b2.tr=Point(V('r2'),V('t2'))
        return b1.overlaps(b2)
    for conds,r in explore(ov): print("  PATH", " ∧ ".join(showc(c,d) for c,d in conds), "=>", r)
    # cubic findExtremes -> path explosion?
    res=explore(lambda: c.findExtremes())
    print("findExtremes paths:",len(res))
    # curvedistance S for line-quadratic
    from beziers.utils.curvedistance import MinimumCurveDistanceFinder
    from beziers.line import Line
    q=QuadraticBezier(*[Point(V(f"q{i}x"),V(f"q{i}y")) for i in range(3)])
    l=Line(*[Point(V(f"l{i}x"),V(f"l{i}y")) for i in range(2)])
    m=MinimumCurveDistanceFinder(l,q)
    e=m.S(V('u'),V('v')); print("S size", len(show(e)))
