import math, random, sys
from beziers.point import Point
from beziers.line import Line
from beziers.quadraticbezier import QuadraticBezier
from beziers.cubicbezier import CubicBezier
from beziers.path import BezierPath
from beziers.boundingbox import BoundingBox
from beziers.path.geometricshapes import Rectangle, Ellipse, Circle
from beziers.utils.linesweep import bbox_intersections
from beziers.utils.curvedistance import curveDistance
random.seed(17)
def rp(m=200): return Point(random.uniform(-m,m),random.uniform(-m,m))
def rseg(k=None):
    k=k or random.choice([2,3,4]); return {2:Line,3:QuadraticBezier,4:CubicBezier}[k](*[rp() for _ in range(k)])
bad={}
def flag(k,info=None):
    bad[k]=bad.get(k,0)+1
    if bad[k]<3 and info: print(k,info)
# C17
for it in range(300):
    s=rseg()
    if random.random()<.2 and len(s)==3:
        s=QuadraticBezier(Point(0,0),Point(random.uniform(0,3),random.uniform(0,3)),Point(300,200))  # uneven param
    d=random.choice([0.5,1,2,8,33.3,100])
    rep=repr(s)
    try: f=s.flatten(d)
    except Exception as e: flag('exc',(s,d,repr(e))); continue
    if repr(s)!=rep: flag('modified')
    if f[0].start.distanceFrom(s.start)>1e-9 or f[-1].end.distanceFrom(s.end)>1e-9: flag('ends',(s,d))
    for a,b in zip(f,f[1:]):
        if a.end.distanceFrom(b.start)>1e-9: flag('gap')
    L=s.length
    if len(s)==2:
        if not (len(f)==1 and f[0] is s): flag('line')
    else:
        if L>=d:
            if not len(f)>L/(2*d): flag('count',(s,d,len(f),L/(2*d)))
            for e in f:
                if e._orig is not s: flag('orig')
        else:
            if not(len(f)==1): flag('chord')
        # vertices on curve in nondecreasing param order
        if len(s)==4 or len(s)==3:
            # brute: nearest param by dense sampling
            N=4000; pts=[s.pointAtTime(i/N) for i in range(N+1)]
            last=-1
            for e in f[:40]:
                v=e.end
                dm=min(range(N+1),key=lambda i:pts[i].squareDistanceFrom(v))
                if pts[dm].distanceFrom(v)>L/N*2: flag('offcurve',(s,d,v))
print("C17",bad); bad={}
# C18
for it in range(2000):
    s=rseg(); t=random.random()
    pts=s.points; n=len(pts)-1
    d1=[(pts[i+1]-pts[i])*n for i in range(n)]
    def ev(ps,t):
        ps=list(ps)
        while len(ps)>1: ps=[a.lerp(b,t) for a,b in zip(ps,ps[1:])]
        return ps[0]
    D=ev(d1,t)
    poly=sum(a.distanceFrom(b) for a,b in zip(pts,pts[1:]))
    if D.magnitude<1e-6*poly: continue
    T=s.tangentAtTime(t); N=s.normalAtTime(t)
    u=D.toUnitVector()
    if T.distanceFrom(u)>1e-9: flag('tangent',(s,t,T,u))
    if N.distanceFrom(Point(-u.y,u.x))>1e-9: flag('normal',(s,t,N,u))
    if abs(s.startAngle-math.atan2(pts[1].y-pts[0].y,pts[1].x-pts[0].x))>1e-12: flag('sa')
    if abs(s.endAngle-math.atan2(pts[-1].y-pts[-2].y,pts[-1].x-pts[-2].x))>1e-12: flag('ea')
    if n>=2:
        d2=[(d1[i+1]-d1[i])*(n-1) for i in range(n-1)]
        DD=ev(d2,t)
        k=(D.x*DD.y-D.y*DD.x)/((D.x**2+D.y**2)**1.5)
        got=s.curvatureAtTime(t)
        if abs(got-k)>1e-9*max(1,abs(k)): flag('curv%d'%n,(s,t,got,k))
    else:
        if abs(s.curvatureAtTime(t))>1e-12: flag('linecurv')
print("C18",bad); bad={}
# C19
class B:
    def __init__(s,l,b,r,t): s.bb=BoundingBox(); s.bb.extend(Point(l,b)); s.bb.extend(Point(r,t))
    def bounds(s): return s.bb
for it in range(2000):
    def rb():
        l=random.randint(0,20); b=random.randint(0,20); return B(l+random.random()*0.3,b,l+random.choice([0,1,2,5])+random.random()*.3+ (0.01),b+random.choice([0,1,3]))
    A=[rb() for _ in range(random.randint(0,8))]; Bs=[rb() for _ in range(random.randint(0,8))]
    try: got=bbox_intersections(A,Bs)
    except Exception as e: flag('sweepexc',repr(e)); continue
    exp=set((id(a),id(b)) for a in A for b in Bs if a.bb.overlaps(b.bb))
    g=[ (id(x),id(y)) if any(x is a for a in A) else (id(y),id(x)) for x,y in got]
    if len(g)!=len(set(g)) or set(g)!=exp: flag('sweep',(len(g),len(exp)))
    bx=rb().bb; p=Point(random.randint(0,25),random.randint(0,25))
    if bx.includes(p)!=(bx.left<=p.x<=bx.right and bx.bottom<=p.y<=bx.top): flag('includes')
print("C19",bad); bad={}
# C20
for it in range(200):
    a=rseg(); b=rseg()
    try: d,t1,t2=curveDistance(a,b)
    except Exception as e: flag('exc',(a,b,repr(e))); continue
    N=60
    pa=[a.pointAtTime(i/N) for i in range(N+1)]; pb=[b.pointAtTime(i/N) for i in range(N+1)]
    ds=[p.distanceFrom(q) for p in pa for q in pb]
    mn=min(ds); mx=max(ds)
    if not (d==d and d>=0): flag('nan',(a,b,d))
    elif d>mx+1e-6: flag('toobig',(a,b,d,mx))
    elif d<mn-5-0.05*mn: flag('toosmall?',(a,b,d,mn))
    if not(0<=t1<=1 and 0<=t2<=1): flag('t')
    real=a.pointAtTime(t1).distanceFrom(b.pointAtTime(t2))
    bad.setdefault('relgap',0); bad['relgap']=max(bad['relgap'],abs(real-d)/(1+d))
print("C20",bad)
