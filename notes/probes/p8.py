import math, random, struct, sys
from beziers.point import Point
from beziers.line import Line
from beziers.quadraticbezier import QuadraticBezier
from beziers.cubicbezier import CubicBezier
from beziers.path import BezierPath
from beziers.path.representations.Nodelist import Node
random.seed(8)
def randpath(nseg, closed, integer=True):
    def rp():
        return Point(random.randint(-20,20)*10, random.randint(-20,20)*10) if integer else Point(random.uniform(-200,200),random.uniform(-200,200))
    nodes=[rp() for _ in range(nseg+1)]
    while len(set((n.x,n.y) for n in nodes))<len(nodes): nodes=[rp() for _ in range(nseg+1)]
    if closed: nodes[-1]=nodes[0]
    segs=[]
    for i in range(nseg):
        a=nodes[i]; b=nodes[i+1]
        k=random.choice([2,3,4])
        if k==2: segs.append(Line(a,b))
        elif k==3: segs.append(QuadraticBezier(a,rp(),b))
        else: segs.append(CubicBezier(a,rp(),rp(),b))
    p=BezierPath.fromSegments(segs); p.closed=closed
    return p
def key(segs): return [(type(s).__name__, [(p.x,p.y) for p in s.points]) for s in segs]
bad=0
for it in range(3000):
    closed=random.random()<.6
    p=randpath(random.randint(1,8),closed)
    k0=key(p.asSegments())
    try:
        for r in range(3):
            nl=p.asNodelist(); p.asSegments()
        k1=key(p.asSegments())
    except Exception as e:
        print("EXC",k0,repr(e)); bad+=1; continue
    if k0!=k1:
        bad+=1
        if bad<5: print("ROUNDTRIP", closed, k0, "\n ->", k1, [ (n.x,n.y,n.type) for n in nl])
    # rotations for closed
    if closed:
        nl=[Node(n.x,n.y,n.type) for n in p.asNodelist()]
        # closed nodelist: last node == first; drop the first node (duplicate) to make cyclic
        cyc=nl[1:]
        for r in range(len(cyc)):
            rot=cyc[r:]+cyc[:r]
            q=BezierPath.fromNodelist([Node(n.x,n.y,n.type) for n in rot], closed=True)
            k2=key(q.asSegments())
            # cyclic equality
            ok=any(k2==k0[i:]+k0[:i] for i in range(len(k0)))
            if not ok:
                bad+=1
                if bad<8: print("ROT",r,k0,"\n  ->",k2, [(n.x,n.y,n.type) for n in rot])
                break
print("bad",bad)
# repr round trip
import itertools
def rf():
    r=random.random()
    if r<.3: return struct.unpack('d',struct.pack('Q',random.getrandbits(64)))[0]
    if r<.5: return random.choice([0.0,-0.0,5e-324,-5e-324,1e-310,1.7976931348623157e308,0.1,1/3,1e22,1e16,123456789.12345678])
    return random.uniform(-1e6,1e6)
badr=0
for it in range(20000):
    vals=[rf() for _ in range(8)]
    if any(math.isnan(v) or math.isinf(v) for v in vals): continue
    pts=[Point(vals[2*i],vals[2*i+1]) for i in range(4)]
    for obj,kl in ((pts[0],Point),(Line(*pts[:2]),Line),(QuadraticBezier(*pts[:3]),QuadraticBezier),(CubicBezier(*pts),CubicBezier)):
        try:
            o2=kl.fromRepr(repr(obj))
            if kl is Point: same= struct.pack('dd',obj.x,obj.y)==struct.pack('dd',o2.x,o2.y)
            else: same=all(struct.pack('dd',a.x,a.y)==struct.pack('dd',b.x,b.y) for a,b in zip(obj.points,o2.points)) and len(obj.points)==len(o2.points)
        except Exception as e:
            same=False; print("EXC repr",repr(obj),repr(e))
        if not same:
            badr+=1
            if badr<5: print("REPR",repr(obj),repr(o2))
print("badrepr",badr)
p=randpath(4,True,False); print(p.asSVGPath()); 
p=randpath(3,False,False); print(p.asSVGPath())
