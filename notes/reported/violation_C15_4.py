"""C15 (cubics): "... to within 2% of the curve's length for cubics".

CubicBezier.tOfPoint starts from the nearest of a fixed set of sample
parameters (i/64 plus a few arc-length samples) and then refines by at most
+-0.02 in t.  On a short cubic that leaves its start fast and comes back close
to where it started (here: end point = start point or next to it), the point
at t = 1/128 lies between the samples t=0 and t=1/64, and a sample on the
RETURNING branch (t ~ 0.8-0.99) is nearer to it than either of them.  The
search then stays on the wrong branch and ends more than 2% of the curve's
length away from the query point.
"""
import sys, math

from beziers.point import Point
from beziers.cubicbezier import CubicBezier


def bez(pts, t):
    mt = 1 - t
    w = (mt ** 3, 3 * mt * mt * t, 3 * mt * t * t, t ** 3)
    return (sum(a * p[0] for a, p in zip(w, pts)), sum(a * p[1] for a, p in zip(w, pts)))


def polylen(pts, n):
    prev = bez(pts, 0.0); s = 0.0
    for i in range(1, n + 1):
        cur = bez(pts, i / n)
        s += math.hypot(cur[0] - prev[0], cur[1] - prev[1]); prev = cur
    return s


cases = [
    ([(19, 16), (0, -3), (20, 17), (18, 15)], 1 / 128),
    ([(-7, -7), (4, -5), (-9, -8), (-7, -7)], 1 / 128),
    ([(4, -12), (-1, 11), (5, -15), (3, -11)], 1 / 128),
]
bad = 0
for pts, t in cases:
    c = CubicBezier(*[Point(*p) for p in pts])
    length = polylen(pts, 200000)                      # own arc length (chord sum)
    assert abs(length - polylen(pts, 100000)) < 1e-8 * length
    p = c.pointAtTime(t)
    own = bez(pts, t)
    assert math.hypot(p.x - own[0], p.y - own[1]) < 1e-12
    r = c.tOfPoint(p)
    back = bez(pts, r)
    err = math.hypot(back[0] - own[0], back[1] - own[1])
    print("cubic %s  length=%.6f  query = point at t=%r = (%.6f, %.6f)" % (pts, length, t, own[0], own[1]))
    print("   library tOfPoint=%r -> point (%.6f, %.6f), distance from query %.6f = %.3f%% of length; "
          "property allows 2%% = %.6f" % (r, back[0], back[1], err, 100 * err / length, 0.02 * length))
    if not (0 <= r <= 1) or err > 0.02 * length:
        bad += 1
if bad:
    print("VIOLATION C15 (cubic): lookup misses by more than 2%% of the length in %d cases" % bad)
    sys.exit(1)
print("no violation")
