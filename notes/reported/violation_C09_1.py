"""C09: rotating a point / segment / path directly, at extreme sizes.

Point.rotated (used by Segment.rotated and BezierPath.rotate) rebuilds the
point from its polar form and takes the radius as sqrt(dx*dx + dy*dy).  The
squares overflow once the point is ~1.4e154 away from the centre (result
+-inf) and underflow below ~1e-162 (radius 0: the point collapses onto the
centre; between 1e-162 and 1e-154 the radius is computed from a subnormal and
loses digits).  The rigid rotation of these points is perfectly representable,
and the matrix route (AffineTransformation.rotation + transformed) returns it.

Expected values are computed here directly: rotation by +90 degrees about the
origin maps (x, y) to (-y, x) exactly.
"""
import math
import sys

from beziers.affinetransformation import AffineTransformation
from beziers.line import Line
from beziers.path import BezierPath
from beziers.point import Point

failures = 0
for s in (1e155, 1e200, 1e-160, 1e-165, 1e-200):
    p = (3 * s, 4 * s)
    want = (-p[1], p[0])
    seg = Line(Point(0, 0), Point(*p))
    got_pt = Point(*p).rotated(Point(0, 0), math.pi / 2)
    got_seg = seg.rotated(Point(0, 0), math.pi / 2).pointAtTime(1.0)
    path = BezierPath.fromSegments([Line(Point(0, 0), Point(*p)), Line(Point(*p), Point(0, 0))])
    got_path = path.rotate(Point(0, 0), math.pi / 2).asSegments()[0].end
    via_matrix = seg.transformed(AffineTransformation.rotation(math.pi / 2)).pointAtTime(1.0)

    def off(q):
        if not (math.isfinite(q.x) and math.isfinite(q.y)):
            return float("inf")
        return math.hypot((q.x - want[0]) / s, (q.y - want[1]) / s)  # relative to the size

    print("point (%g, %g) rotated by pi/2 about the origin; expected (%g, %g)" % (p + want))
    for name, q in (("Point.rotated", got_pt), ("Segment.rotated", got_seg),
                    ("BezierPath.rotate", got_path), ("transformed(rotation)", via_matrix)):
        bad = off(q) > 1e-9
        print("   %-22s -> %r   relative deviation %.3g  %s" % (name, q, off(q), "VIOLATION" if bad else "ok"))
        if bad:
            failures += 1

sys.exit(1 if failures else 0)
