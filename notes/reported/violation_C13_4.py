"""C13, sentence 1: 'every point of every result lies within ... 0.1 unit (for shapes whose
radius of curvature is at least 10 units) of the outline of one of the two inputs'.

Two circles of radius 10.1 (the library's 4-cubic circle), centres (0,0) and (8.06,5.31).
Computed here, independently of the library (own control points, own derivative
formulas): the radius of curvature of these outlines is >= 10.02 everywhere.

The library: CubicBezier.flatten(2) takes its vertices from a table with one entry per
~1 unit of arc and picks the first entry whose length is >= 2k, so chords come out up
to 2.93 units long instead of 2; on a radius-10.1 arc the middle of such a chord is about
2.93^2/(8*10.1) = 0.106 from the arc (plus up to 0.014 from the truncation of the vertices to the 0.01 grid). Such chords appear verbatim as straight
edges of the results.
"""
import math, sys
from beziers.path.geometricshapes import Circle
from beziers.point import Point

K = 4.0 / 3.0 * (math.sqrt(2) - 1)
def circle_cubics(R, cx, cy):
    w, e, n, s = (cx - R, cy), (cx + R, cy), (cx, cy + R), (cx, cy - R)
    return [[w, (w[0], w[1] + R*K), (n[0] - R*K, n[1]), n],
            [n, (n[0] + R*K, n[1]), (e[0], e[1] + R*K), e],
            [e, (e[0], e[1] - R*K), (s[0] + R*K, s[1]), s],
            [s, (s[0] - R*K, s[1]), (w[0], w[1] - R*K), w]]
def ev(c, t):
    m = 1 - t
    return tuple(m*m*m*c[0][i] + 3*m*m*t*c[1][i] + 3*m*t*t*c[2][i] + t*t*t*c[3][i] for i in (0, 1))
def radius(c, t):
    m = 1 - t
    d = [3*(m*m*(c[1][i]-c[0][i]) + 2*m*t*(c[2][i]-c[1][i]) + t*t*(c[3][i]-c[2][i])) for i in (0, 1)]
    dd = [6*(m*(c[2][i]-2*c[1][i]+c[0][i]) + t*(c[3][i]-2*c[2][i]+c[1][i])) for i in (0, 1)]
    return (d[0]**2 + d[1]**2) ** 1.5 / abs(d[0]*dd[1] - d[1]*dd[0])
def dist(c, p, N=1500):
    f = lambda t: math.hypot(ev(c, t)[0] - p[0], ev(c, t)[1] - p[1])
    ds = [f(i / N) for i in range(N + 1)]
    i = ds.index(min(ds))
    lo, hi = max(0, (i-1)/N), min(1, (i+1)/N)
    for _ in range(50):
        a, b = lo + (hi-lo)/3, hi - (hi-lo)/3
        if f(a) < f(b): hi = b
        else: lo = a
    return min(ds[i], f((lo+hi)/2))

R, c2 = 10.1, (8.06, 5.31)
cubics = circle_cubics(R, 0, 0) + circle_cubics(R, *c2)
A = Circle(R); B = Circle(R, origin=Point(*c2))
# the shapes we reason about are the shapes handed to the library
for mine, lib in zip(cubics, A.asSegments() + B.asSegments()):
    assert all(abs(p[0]-q.x) < 1e-12 and abs(p[1]-q.y) < 1e-12 for p, q in zip(mine, lib.points))
minR = min(radius(c, i / 2000) for c in cubics for i in range(2001))
print("minimum radius of curvature of the two input outlines: %.3f (>= 10)" % minR)
assert minR >= 10
worst, where = 0, None
for op in ("union", "intersection", "difference"):
    for path in getattr(A, op)(B):
        for sg in path.asSegments():
            if len(sg.points) != 2: continue            # curved pieces are pieces of the inputs
            for k in (0.25, 0.5, 0.75):
                p = (sg.start.x + (sg.end.x - sg.start.x)*k, sg.start.y + (sg.end.y - sg.start.y)*k)
                d = min(dist(c, p) for c in cubics)
                if d > worst: worst, where = d, (op, sg, p)
print("farthest result point from both input outlines: %.4f units" % worst)
print("   in %s, on the straight edge %s (length %.3f), at %r" % (where[0], where[1], where[1].length, where[2]))
print("required: <= 0.1")
if worst > 0.1:
    print("VIOLATION")
    sys.exit(1)
