"""C07 / flatten is documented as returning a new path, and a result must be
independent of its receiver.  For a curve shorter than `degree` the flattened
chord Line is built from the receiver's own Point objects
(CubicBezier.flatten / QuadraticBezier.flatten: Line(self[0], self[3])), so an
in-place edit of a point of the flattened path moves the receiver's curve.
(BezierPath.flatten only copies Lines that flatten to themselves.)
"""
import sys
from beziers.path import BezierPath
from beziers.point import Point as P
from beziers.cubicbezier import CubicBezier

pts = [(0.0, 0.0), (1.0, 2.0), (3.0, 2.0), (4.0, 0.0)]
p = BezierPath.fromSegments([CubicBezier(*[P(*q) for q in pts])])
p.closed = False
flat = p.flatten()
shared = flat.asSegments()[0][0] is p.asSegments()[0][0]
print("flattened path's first point is the receiver's Point object:", shared)
# in-place edit of the *flattened* path (Point.__iadd__ mutates, as documented)
pt = flat.asSegments()[0][0]
pt += P(100, 100)
got = [(q.x, q.y) for q in p.asSegments()[0].points]
print("receiver after editing the flattened path:", got)
print("required (receiver unchanged):            ", pts)
ok = got == pts
print("ok" if ok else "VIOLATION")
sys.exit(0 if ok else 1)
