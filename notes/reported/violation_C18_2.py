"""C18: curvature = (x'y'' - y'x'') / (x'^2 + y'^2)^(3/2) from the exact derivatives.
QuadraticBezier/CubicBezier.curvatureAtTime evaluate (x'^2+y'^2) ** 1.5 in floats:
for curves ~1e-110 across it underflows to 0.0 -> ZeroDivisionError, for curves
~1e103 across Python's ** raises OverflowError, although the curvature itself
(about 1e110 resp. 1e-103) is an ordinary float and the derivative does not vanish."""
import sys
from fractions import Fraction as F
from math import isqrt
from beziers.cubicbezier import CubicBezier
from beziers.quadraticbezier import QuadraticBezier
from beziers.point import Point

def exact_curvature(pts, t):
    pts = [(F(x), F(y)) for x, y in pts]; t = F(t)
    def deriv(p):
        n = len(p) - 1
        return [((p[i + 1][0] - p[i][0]) * n, (p[i + 1][1] - p[i][1]) * n) for i in range(n)]
    def ev(p):
        while len(p) > 1:
            p = [((1 - t) * p[i][0] + t * p[i + 1][0], (1 - t) * p[i][1] + t * p[i + 1][1]) for i in range(len(p) - 1)]
        return p[0]
    d1 = deriv(pts); d2 = deriv(d1)
    (x1, y1), (x2, y2) = ev(d1), ev(d2)
    m2 = x1 * x1 + y1 * y1
    assert m2 != 0
    K = 10 ** 60
    r = F(isqrt(m2.numerator * K * K * m2.denominator), m2.denominator * K)  # |B'|
    return float((x1 * y2 - y1 * x2) / (r * m2))

bad = 0
t = 0.25
for s in (1e-110, 1e103):
    for cls, shape in ((QuadraticBezier, [(0, 0), (1, 1), (2, 0)]),
                       (CubicBezier, [(0, 0), (1, 1), (2, 1), (3, 0)])):
        seg = cls(*[Point(x * s, y * s) for x, y in shape])
        ex = exact_curvature([(p.x, p.y) for p in seg.points], t)
        try:
            got = seg.curvatureAtTime(t)
            ok = abs(got - ex) <= 1e-9 * abs(ex)
        except Exception as e:
            got, ok = "raised %r" % e, False
        print("%-16s scale %g t=%s: library %s ; expected %r   %s" % (cls.__name__, s, t, got, ex, "ok" if ok else "VIOLATION"))
        bad += not ok
sys.exit(1 if bad else 0)
