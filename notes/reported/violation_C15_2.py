"""C15: Line.tOfPoint answers -1 for the line's OWN points when the line is
steep: t is always derived from x unless math.isclose(end.x, start.x)
(relative 1e-9), so for a nearly vertical line the rounding of p.x (1 ulp)
is divided by a tiny x-extent, and the reconstructed point misses the query
by more than the fixed absolute acceptance radius 2e-7.

Two lines are shown: a font-sized one with a slightly slanted stem, and an
integer-coordinate one far from the origin.
"""
import sys
from fractions import Fraction as F

from beziers.point import Point
from beziers.line import Line

cases = [
    ((1000.0, 0.0), (1000.0001, 1000.0)),
    ((10000023.0, 10000258.0), (10000026.0, 10000835.0)),
]
violations = 0
for s, e in cases:
    L = Line(Point(*s), Point(*e))
    mag = max(abs(c) for c in s + e)
    tol = 1e-9 * mag                       # property's tolerance for lines
    length = float((F(e[0]) - F(s[0])) ** 2 + (F(e[1]) - F(s[1])) ** 2) ** 0.5
    fails = []
    for i in range(0, 101):
        t = i / 100
        p = L.pointAtTime(t)
        # independent: exact point of the line at t, and exact distance of p from the carrier
        ex = (F(s[0]) * (1 - F(t)) + F(e[0]) * F(t), F(s[1]) * (1 - F(t)) + F(e[1]) * F(t))
        assert abs(F(p.x) - ex[0]) < F(tol) and abs(F(p.y) - ex[1]) < F(tol)
        dx, dy = F(e[0]) - F(s[0]), F(e[1]) - F(s[1])
        cross = (F(p.x) - F(s[0])) * dy - (F(p.y) - F(s[1])) * dx
        dist_carrier = abs(float(cross)) / length
        assert dist_carrier <= 1e-6 * length   # p is not "off the line" in the property's sense
        r = L.tOfPoint(p)
        if r == -1:
            fails.append((t, p, dist_carrier))
    print("Line %s -> %s (length %.6g): tOfPoint(pointAtTime(t)) == -1 for %d of 101 values t=i/100"
          % (s, e, length, len(fails)))
    for t, p, d in fails[:3]:
        print("   t=%r point=(%r,%r) distance from carrier=%.3g (allowed %.3g): library returned -1, "
              "expected a parameter in [0,1] (e.g. %r) whose point is within %.3g of the query"
              % (t, p.x, p.y, d, 1e-6 * length, t, tol))
    violations += len(fails)

if violations:
    print("VIOLATION C15 (lines): own points rejected")
    sys.exit(1)
print("no violation")
