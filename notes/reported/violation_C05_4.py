"""C05 violations at the ends of the parameter range (small, but outside what the property
states: "parameters strictly inside both", "both parameters in (0,1]", "whichever operand
is the receiver").

(a) Two segments that do NOT meet (gap 1e-4) are reported as intersecting with t1 > 1,
    and only for one receiver:  withinRange() accepts t up to 1 + 2e-7, and
    _line_line_intersections' _bothPointsAreOnSameSideOfOrigin test rejects t1 <= 0 of the
    receiver and t2 >= 1 of the argument but not the other two cases.
(b) A crossing strictly inside both segments (t1 = 1e-7, t2 = 1/2) is not reported:
    withinRange() rejects t < 2e-7.
(c) T-junction: L2 ends exactly on the interior of L1.  L2.intersections(L1) reports it
    (t1 = 1), L1.intersections(L2) reports nothing: the answer depends on the receiver.
"""
import sys
from fractions import Fraction as F
from beziers.point import Point
from beziers.line import Line


def exact(A, B, C, D):
    ax, ay, bx, by, cx, cy, dx, dy = [F(v) for v in (*A, *B, *C, *D)]
    r = (bx - ax, by - ay)
    s = (dx - cx, dy - cy)
    den = r[0] * s[1] - r[1] * s[0]
    t = ((cx - ax) * s[1] - (cy - ay) * s[0]) / den
    u = ((cx - ax) * r[1] - (cy - ay) * r[0]) / den
    return t, u


def show(A, B, C, D):
    l1 = Line(Point(*A), Point(*B))
    l2 = Line(Point(*C), Point(*D))
    t, u = exact(A, B, C, D)
    r12 = l1.intersections(l2)
    r21 = l2.intersections(l1)
    print("L1 =", l1, " L2 =", l2)
    print("  exact parameters of the intersection of the infinite lines: t(L1) = %.12g, t(L2) = %.12g"
          % (float(t), float(u)))
    print("  L1.intersections(L2):", [(i.t1, i.t2) for i in r12])
    print("  L2.intersections(L1):", [(i.t1, i.t2) for i in r21])
    return t, u, r12, r21


bad = False
print("(a) segments that do not meet")
t, u, r12, r21 = show((0, 0), (1000, 10), (1000.0001, -1), (1000.0003, 30))
print("  t(L1) > 1: the segments do not intersect; expected [] for both receivers")
if r12 or r21:
    bad = True
    for i in r12 + r21:
        if i.t1 > 1 or i.t2 > 1:
            print("  VIOLATION: reported parameter %.12g > 1" % max(i.t1, i.t2))
    if len(r12) != len(r21):
        print("  VIOLATION: result depends on the receiver (%d vs %d reports)" % (len(r12), len(r21)))

print("(b) crossing strictly inside both, close to an end")
t, u, r12, r21 = show((0, 0), (1000, 0), (0.0001, -1), (0.0001, 1))
assert 0 < t < 1 and 0 < u < 1
print("  0 < t(L1) < 1 and 0 < t(L2) < 1: perpendicular crossing strictly inside both; expected 1 report")
if len(r12) != 1 or len(r21) != 1:
    bad = True
    print("  VIOLATION: crossing not reported")

print("(c) T-junction")
t, u, r12, r21 = show((0, 0), (10, 10), (0, 10), (5, 5))
if len(r12) != len(r21):
    bad = True
    print("  VIOLATION: result depends on the receiver (%d vs %d reports)" % (len(r12), len(r21)))

sys.exit(1 if bad else 0)
