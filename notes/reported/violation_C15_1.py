"""C15: QuadraticBezier.tOfPoint answers -1 for the curve's own point at a
parameter NEAR (not at) the place where x turns round, on an ordinary,
non-degenerate quadratic whose coordinates are ~2000 and whose size is ~3.

The x-equation has a (nearly) double root there, so its root is only good to
about sqrt(ulp(x)/|a|) ~ 3e-7 in t, while the y-equation gives t to ~1e-13.
tOfPoint pairs x- and y-roots only when they agree to my_epsilon = 2e-7,
so the pairing fails and -1 is returned.
"""
import sys
from fractions import Fraction as F

from beziers.point import Point
from beziers.quadraticbezier import QuadraticBezier

P0, P1, P2 = (2004, 2003), (2005, 2004), (2002, 2005)   # not constant in x or y
q = QuadraticBezier(Point(*P0), Point(*P1), Point(*P2))


def exact(t):
    t = F(t)
    return tuple(
        (1 - t) ** 2 * F(a) + 2 * (1 - t) * t * F(b) + t * t * F(c)
        for a, b, c in zip(P0, P1, P2)
    )


mag = max(abs(c) for p in (P0, P1, P2) for c in p)
tol = 1e-6 * mag                     # the property's tolerance for quadratics
bad = []
# x turns round at t = (x0-x1)/(x0-2x1+x2) = 1/4 ; probe interior parameters near it
for t in (0.2500003, 0.2499997, 0.25000025, 0.2500005, 0.2499995, 0.250001):
    p = q.pointAtTime(t)
    ex = exact(t)
    # the query point really is the curve's point at t (independent, exact arithmetic)
    assert abs(F(p.x) - ex[0]) < F(1, 10**11) and abs(F(p.y) - ex[1]) < F(1, 10**11)
    r = q.tOfPoint(p)
    ok = (r != -1) and 0 <= r <= 1
    if ok:
        er = exact(r)
        d = float(((er[0] - F(p.x)) ** 2 + (er[1] - F(p.y)) ** 2)) ** 0.5
        ok = d <= tol
    print("t=%r  point=(%r, %r)  library tOfPoint=%r  expected: a parameter in [0,1] "
          "(e.g. %r) whose point is within %g of the query" % (t, p.x, p.y, r, t, tol))
    if not ok:
        bad.append(t)

# how common is it?  2001 equally spaced parameters within 2e-6 of the turning point,
# on this curve and on a similar one further from the origin
for pts in ((P0, P1, P2), ((10017, 10004), (10008, 10001), (10020, 10005))):
    qq = QuadraticBezier(*[Point(*p) for p in pts])
    a = pts[0][0] - 2 * pts[1][0] + pts[2][0]
    turn = (pts[0][0] - pts[1][0]) / a
    n = sum(1 for i in range(-1000, 1001)
            if i != 0 and qq.tOfPoint(qq.pointAtTime(turn + i * 2e-9)) == -1)
    print("curve %s: x turns at t=%.6f; tOfPoint == -1 for %d of 2000 own points with 0<|t-turn|<=2e-6"
          % (pts, turn, n))
    if n:
        bad.append(pts)

if bad:
    print("VIOLATION C15: tOfPoint failed for the curve's own points at t in", bad)
    sys.exit(1)
print("no violation")
