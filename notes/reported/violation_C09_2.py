"""C09: "a map followed by its inverse is the identity", at extreme scale factors.

AffineTransformation.invert divides the adjugate by the full 3x3 determinant.
For a uniform scaling by k the determinant is k*k, which underflows to 0 for
k <= ~1e-162 (invert then silently leaves the map unchanged, because
isclose(det, 0.0) is true), is a subnormal with few digits for k ~ 1e-160
(inverse wrong from the 5th digit on) and overflows to inf for k >= ~1e155
(inverse becomes the zero matrix).  In every case the map is invertible and its
inverse, scaling by 1/k, is representable.

Expected: scaling by k followed by its inverse returns the point (3, 4).
"""
import sys

from beziers.affinetransformation import AffineTransformation
from beziers.point import Point

failures = 0
for k in (1e-160, 1e-170, 1e160):
    m = AffineTransformation()
    m.scale(k)
    inv = AffineTransformation([row[:] for row in m.matrix])
    inv.invert()
    there = Point(3, 4).transformed(m)
    back = there.transformed(inv)
    both = AffineTransformation([row[:] for row in m.matrix])
    both.apply_backwards(inv)  # inv x m
    bad = abs(back.x - 3) > 1e-9 or abs(back.y - 4) > 1e-9
    print("scale(%g): inverse should have diagonal %r; library inverse diagonal %r"
          % (k, 1 / k, inv.matrix[0][0]))
    print("   (3,4) -> %r -> %r   expected back at <3.0,4.0>   %s" % (there, back, "VIOLATION" if bad else "ok"))
    print("   inverse x map = %r" % (both.matrix,))
    failures += bad

sys.exit(1 if failures else 0)
