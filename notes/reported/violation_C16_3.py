"""C16: strictly increasing regular-sampling parameters.

BOUNDARY of the known failure ("repeats a parameter when one lookup step
exceeds length/n"): here the lookup step does NOT exceed length/n in exact
arithmetic -- it EQUALS it.  A single straight Line of integer length L sampled
with n = L samples: the table advances t by 1/L, i.e. by an arc of exactly
length/n = 1.  The accumulated t (0.1+0.1+...) and the lengths computed from it
carry rounding noise, so a table entry that should read exactly k reads k-ulp,
is skipped, and its successor is then used for two consecutive targets.
"""
import sys
from fractions import Fraction as F
from beziers.point import Point
from beziers.line import Line

cases = [((0, 0), (10, 0), 10), ((2, 1), (2, -2), 3), ((1, 1), (6, 13), 13), ((0, 0), (0, 15), 15)]
bad = 0
for s, e, n in cases:
    L = Line(Point(*s), Point(*e))
    length2 = (F(e[0]) - F(s[0])) ** 2 + (F(e[1]) - F(s[1])) ** 2
    assert length2 == F(n) ** 2                     # exact length == n, so length/n == 1
    # exact arithmetic: table entries at t=j/n have arc length j; targets are k*1 -> parameters k/n
    expected = [F(k, n) for k in range(n)] + [F(1)]
    lookup_step = F(1)                              # arc covered by a t increment of 1/length, exactly
    assert lookup_step <= F(n) / n                  # does not exceed length/n
    ts = L.regularSampleTValue(n)
    rep = [(a, b) for a, b in zip(ts, ts[1:]) if not a < b]
    print("Line %s->%s length=%d n=%d" % (s, e, n, n))
    print("   library :", ts)
    print("   expected:", [float(x) for x in expected], "(strictly increasing)")
    if rep:
        print("   repeated parameters:", rep)
        bad += 1
if bad:
    print("VIOLATION C16 (boundary case n == length of a single line): parameters repeat in %d cases" % bad)
    sys.exit(1)
print("no violation")
