"""C07: rotate() with a large angle does not rotate the end points by that angle;
for very large angles the whole path collapses into one point.

Path: open, one line (100,0)->(0,100); rotate(about=(0,0), angle) for
angle = 1e9, 1e12, 1e15, 1e17.  The required end points are the rotations of
(100,0) and (0,100) by exactly that angle (the double `angle` is an exact real
number); they are computed below with 80-digit decimal arithmetic
(argument reduction with an 120-digit pi, Taylor series).

Responsible: Point.rotated computes  newangle = atan2(...) + by  in double
precision; for |by| >> 1 the point's own angle is rounded away
(ulp(1e9) = 1.2e-7 rad, ulp(1e17) = 16 rad), so different points are turned by
different amounts, or (1e17) all land on the same spot.
"""
import sys
from decimal import Decimal, getcontext
from beziers.path import BezierPath
from beziers.point import Point
from beziers.line import Line

getcontext().prec = 120
PI = Decimal("3.14159265358979323846264338327950288419716939937510582097494459230781640628620899862803482534211706798214808651328230664709384460955058223172535940812848111745")


def sincos(a):
    x = Decimal(a)  # exact value of the double
    x = x % (2 * PI)
    s = c = Decimal(0)
    term = Decimal(1)
    k = 0
    while abs(term) > Decimal(10) ** -100:
        if k % 4 == 0: c += term
        elif k % 4 == 1: s += term
        elif k % 4 == 2: c -= term
        else: s -= term
        k += 1
        term = term * x / k
    return s, c


bad = False
for ang in (1e9, 1e12, 1e15, 1e17):
    p = BezierPath.fromSegments([Line(Point(100, 0), Point(0, 100))])
    p.closed = False
    p.rotate(Point(0, 0), ang)
    seg = p.asSegments()[0]
    s, c = sincos(ang)
    want_start = (float(100 * c), float(100 * s))
    want_end = (float(-100 * s), float(100 * c))
    err = max(abs(seg[0].x - want_start[0]), abs(seg[0].y - want_start[1]),
              abs(seg[1].x - want_end[0]), abs(seg[1].y - want_end[1]))
    length = seg[0].distanceFrom(seg[1])
    ok = err < 1e-7  # generous: 1e-9 relative to the radius 100
    bad |= not ok
    print("angle %g" % ang)
    print("   library : start %s end %s  (length %.6f)" % (seg[0], seg[1], length))
    print("   required: start <%r,%r> end <%r,%r>  (length 141.421356)" % (want_start + want_end))
    print("   largest coordinate error %.3g -> %s" % (err, "ok" if ok else "VIOLATION"))
sys.exit(1 if bad else 0)
