"""C13, sentence 2 ('same region semantics as the polygon-mode results, to within 1 unit'
for shapes whose outlines cross transversally).

Two 400 x 400 'rectangles' whose sides are cubics bowed inwards by only 0.015,
the second shifted by (199.3, 199.3): the outlines cross twice, at right angles, near
the middles of the sides.

Independent expectation: every control point of A lies in [0, 400]^2 (computed below), so (convex
hull property of Bezier curves) region A lies in that box, and A n B is part of A:
no point of the intersection may have x or y > 400 (+ 1 unit of tolerance).
Likewise A n B is part of B, whose control points all have x, y >= 199.3.

The library: Segment._curve_curve_intersections_t stops subdividing as soon as both
bounding boxes have AREA < 1e-3; for nearly axis-parallel pieces that happens while the
pieces are still 12.5 units long, and the crossing is reported at the pieces' midpoints
(t=0.484 / 0.516), 5.5 units from the real crossing on each curve. clip() splits there,
and the reconstruction puts the over-long piece into the result.
"""
import sys
from beziers.path import BezierPath
from beziers.cubicbezier import CubicBezier
from beziers.point import Point

def flatrect(x0, y0, x1, y1, sag):
    k = sag * 4 / 3          # control-point offset giving a mid-side bow of `sag`
    c = [(x0, y0), (x0, y1), (x1, y1), (x1, y0)]
    segs, ctrl = [], []
    for i in range(4):
        a, b = c[i], c[(i + 1) % 4]
        dx, dy = b[0] - a[0], b[1] - a[1]
        L = (dx * dx + dy * dy) ** 0.5
        nx, ny = dy / L, -dx / L      # normal (points into the shape for this vertex order)
        pts = [a, (a[0] + dx / 3 + nx * k, a[1] + dy / 3 + ny * k),
               (a[0] + 2 * dx / 3 + nx * k, a[1] + 2 * dy / 3 + ny * k), b]
        ctrl.extend(pts)
        segs.append(CubicBezier(*[Point(*p) for p in pts]))
    return BezierPath.fromSegments(segs), ctrl

L, s, d = 400.0, 0.015, 199.3
A, ctrlA = flatrect(0, 0, L, L, s)
B, ctrlB = flatrect(d, d, d + L, d + L, s)
hiA = max(max(p) for p in ctrlA)      # A is inside (-inf, hiA]^2
loB = min(min(p) for p in ctrlB)      # B is inside [loB, inf)^2
print("A control points all <= %.4f ; B control points all >= %.4f" % (hiA, loB))
print("=> every point of A n B has both coordinates in [%.4f, %.4f]" % (loB, hiA))

def extent(paths):
    xs = []
    for p in paths:
        for sg in p.asSegments():
            xs.extend([sg.start.x, sg.start.y, sg.end.x, sg.end.y])   # on-curve points only
    return min(xs), max(xs)

flat = A.intersection(B, flat=True)
curve = A.intersection(B)
flo, fhi = extent(flat)
clo, chi = extent(curve)
print("polygon mode   : %d path(s), on-curve coordinates range [%.3f, %.3f]" % (len(flat), flo, fhi))
print("curve-preserving: %d path(s), on-curve coordinates range [%.3f, %.3f]" % (len(curve), clo, chi))
for p in curve:
    for sg in p.asSegments():
        if max(sg.start.x, sg.start.y, sg.end.x, sg.end.y) > hiA + 1 or min(sg.start.x, sg.start.y, sg.end.x, sg.end.y) < loB - 1:
            print("   offending result segment:", sg)
over = max(chi - hiA, loB - clo)
print("curve-preserving intersection reaches %.3f units outside A n B's bounding box (allowed: 1)" % over)
if over > 1.0:
    print("VIOLATION")
    sys.exit(1)
