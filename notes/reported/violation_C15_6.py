"""C15 (lines): a short line far from the origin is declared "actually a
point" and every one of its own points gets -1 (plus a message on stdout).
Line.tOfPoint picks the coordinate to solve with math.isclose(end, start),
whose tolerance is RELATIVE (1e-9 of the coordinate), so a line whose extent
is below 1e-9 of its position in x, and equal / below that in y, has no usable
coordinate -- although its length is many thousands of ulps.
"""
import sys
from fractions import Fraction as F
from beziers.point import Point
from beziers.line import Line

cases = [((1e6, 0.0), (1e6 + 0.0005, 0.0)),            # horizontal, length 5e-4 (4.3 million ulps of x)
         ((1e9, 1e9), (1e9 + 0.5, 1e9 + 0.25))]        # length 0.56
bad = 0
for s, e in cases:
    L = Line(Point(*s), Point(*e))
    length = float((F(e[0]) - F(s[0])) ** 2 + (F(e[1]) - F(s[1])) ** 2) ** 0.5
    for t in (0.0, 0.25, 0.5, 1.0):
        p = L.pointAtTime(t)
        r = L.tOfPoint(p)
        print("Line %s->%s length=%.4g: point at t=%r -> library tOfPoint=%r ; expected a parameter in [0,1]"
              % (s, e, length, t, r))
        if not (0 <= r <= 1):
            bad += 1
if bad:
    print("VIOLATION C15: -1 for the line's own points (%d)" % bad)
    sys.exit(1)
print("no violation")
