"""C08 (and C07): at large coordinates a node that is half a unit away from the
first node is taken to *be* the first node, so the closing segment is left out
for one rotation of the contour but not for the others, and the resulting
closed path does not end where it starts.

Contour (closed): A=(1e9,0) B=(1e9+100,0) C=(1e9+100,100) D=(1e9+0.5,0).
All four coordinates are exactly representable doubles, D is 0.5 units from A.
Expected for every rotation: 4 segments L(A,B) L(B,C) L(C,D) L(D,A) cyclically
(exactly one closing segment, ending at the first node).

Responsible: SegmentRepresentation.fromNodelist, test
  len(seg)==1 and isclose(seg[-1][0], first.x) and isclose(seg[-1][1], first.y)
with math.isclose's relative tolerance 1e-9 (1e9 * 1e-9 = 1 unit).
"""
import sys
from fractions import Fraction
from beziers.path import BezierPath
from beziers.path.representations.Nodelist import Node

A, B, C, D = (1e9, 0.0), (1e9 + 100, 0.0), (1e9 + 100, 100.0), (1e9 + 0.5, 0.0)
assert Fraction(D[0]) - Fraction(A[0]) == Fraction(1, 2)
contour = [A, B, C, D]


def canon(segs):
    return min(tuple(segs[i:] + segs[:i]) for i in range(len(segs)))


n = len(contour)
want = canon([("Line", (contour[i], contour[(i + 1) % n])) for i in range(n)])
bad = False
for rot in range(n):
    nl = contour[rot:] + contour[:rot]
    p = BezierPath.fromNodelist([Node(x, y, "line") for x, y in nl], closed=True)
    segs = p.asSegments()
    got = [(type(s).__name__, tuple((q.x, q.y) for q in s.points)) for s in segs]
    ends_at_start = (segs[0][0].x, segs[0][0].y) == (segs[-1][-1].x, segs[-1][-1].y)
    ok = canon(got) == want and ends_at_start
    bad |= not ok
    print("rotation %d: library gives %d segments, closed=%s, first start %s, last end %s" % (rot, len(segs), p.closed, segs[0][0], segs[-1][-1]))
    print("   %s" % segs)
    print("   expected 4 segments incl. the closing one, last end == first start  -> %s" % ("ok" if ok else "VIOLATION"))
sys.exit(1 if bad else 0)
