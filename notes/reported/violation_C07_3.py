"""C07 / append: appending a path that starts exactly where this one ends.

a: (0,0)->(10,0)             (open)
b: (10,0)->(10,10)->(30,10)  (open), b starts at a's end.
Documented ("Append another path to this one. If the end point of the first
path is not the same as the start point of the other path, a line will be drawn
between them"): the result is a's segments followed by b's, no extra line, so it
starts at a's start (0,0) and ends at b's end (30,10).

BezierPath.append: `if dist2 > 2 * dist1: reverse segs2`, where dist1 is the
distance from this path's end to the other's START and dist2 to the other's
END.  With dist1 == 0 any dist2 > 0 satisfies it, so the other path is
reversed exactly when it is already the right way round; a spurious line is
drawn to its far end and the result ends back at (10,0).
"""
import sys
from beziers.path import BezierPath
from beziers.point import Point as P
from beziers.line import Line


def poly(pts):
    p = BezierPath.fromSegments([Line(P(*a), P(*b)) for a, b in zip(pts, pts[1:])])
    p.closed = False
    return p


a_pts = [(0.0, 0.0), (10.0, 0.0)]
b_pts = [(10.0, 0.0), (10.0, 10.0), (30.0, 10.0)]
a, b = poly(a_pts), poly(b_pts)
a.append(b)
got = [tuple((q.x, q.y) for q in s.points) for s in a.asSegments()]
allpts = a_pts + b_pts[1:]
want = list(zip(allpts, allpts[1:]))
print("library :", a.asSegments())
print("expected:", want)
gs, ge = got[0][0], got[-1][-1]
print("end points: library start %s end %s ; expected start %s end %s" % (gs, ge, a_pts[0], b_pts[-1]))
ok = got == want
print("ok" if ok else "VIOLATION")
sys.exit(0 if ok else 1)
