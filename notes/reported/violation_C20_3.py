"""C20 (paths): BezierPath.distanceToPath() reports 0 for two squares that are one unit
apart when they sit at (1e8,1e8); at the origin the same squares give 1.  It hands the
chosen segment pair to curveDistance(), which cancels catastrophically (see violation_C20_1)."""
import sys
from fractions import Fraction as F
from beziers.point import Point
from beziers.path.geometricshapes import Rectangle

rc = 0
for off in (0.0, 1e8):
    p1 = Rectangle(100, 100, origin=Point(off, off))          # x in [off-50, off+50]
    p2 = Rectangle(100, 100, origin=Point(off + 101, off))    # x in [off+51, off+151], same y range
    # independent: read the node coordinates, axis-parallel squares with overlapping y ranges
    xs1 = [F(n.x) for n in p1.asNodelist()]; xs2 = [F(n.x) for n in p2.asNodelist()]
    ys1 = [F(n.y) for n in p1.asNodelist()]; ys2 = [F(n.y) for n in p2.asNodelist()]
    assert max(min(ys1), min(ys2)) <= min(max(ys1), max(ys2))
    true = float(min(xs2) - max(xs1))
    d, t1, t2, s1, s2 = p1.distanceToPath(p2)
    ok_segs = any(s is s1 for s in p1.asSegments()) and any(s is s2 for s in p2.asSegments())
    print("origin offset %-6g true minimum distance %r  library %r  t=(%r,%r) segments belong: %s  %s %s"
          % (off, true, d, t1, t2, ok_segs, s1, s2))
    if d < true * 0.99:
        rc = 1
if rc:
    print("VIOLATION: reported path distance is below the true minimum distance")
sys.exit(rc)
