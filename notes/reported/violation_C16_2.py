"""C16: "None of these queries fails for any valid ... path length."

Point.distanceFrom squares the coordinate differences, so a line whose true
length is a perfectly representable 1.5e154 * sqrt(2) already has
length == inf; regularSampleTValue then uses step = 1/inf = 0 and its
`while t <= 1.0: ... t += step` loop never ends (memory grows without bound).
EXTREME input (coordinates ~1e154 and up).
"""
import sys, signal, math
from beziers.point import Point
from beziers.line import Line

L = Line(Point(0, 0), Point(1.5e154, 1.5e154))
true_len = math.hypot(1.5e154, 1.5e154)      # independent, overflow-free
print("true length %.4g (finite); library length = %r" % (true_len, L.length))
print("pointAtTime(0.5) =", L.pointAtTime(0.5))


def onalarm(*a):
    raise TimeoutError


signal.signal(signal.SIGALRM, onalarm)
signal.alarm(5)
try:
    ts = L.regularSampleTValue(4)
    signal.alarm(0)
    print("regularSampleTValue(4) =", ts)
    ok = ts and ts[0] == 0 and ts[-1] == 1 and all(a < b for a, b in zip(ts, ts[1:]))
except TimeoutError:
    print("regularSampleTValue(4) did not return within 5 s (infinite loop: step = 1/length = 0.0); "
          "expected 0 < ... < 1.0")
    ok = False
if not ok:
    print("VIOLATION C16 (extreme size): regular sampling never returns")
    sys.exit(1)
print("no violation")
