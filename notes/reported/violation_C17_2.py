"""C17 at step d = 1: a cubic whose chord alone is 2.77 long is flattened to a single
edge, although more than length/(2d) > 1.38 edges (so at least 2) are required.

CubicBezier.flatten -> regularSampleTValue: the table advances t by 1/length (here
t = 0, 0.358, 0.717); the curve moves slowly at first, so every tabulated length is
still below d = 1, the table is exhausted ("break") and only [0, 1.0] is returned."""
import math, sys
from beziers.cubicbezier import CubicBezier
from beziers.point import Point

pts = [(0, 0), (0.1, 0), (-0.3, 0.2), (2.7, 0.6)]
d = 1

def speed(t):
    dx = dy = 0.0
    for i, b in enumerate([3 * (1 - t) ** 2, 6 * (1 - t) * t, 3 * t * t]):
        dx += b * (pts[i + 1][0] - pts[i][0])
        dy += b * (pts[i + 1][1] - pts[i][1])
    return math.hypot(dx, dy)
N = 20000
L = sum((1 if i in (0, N) else 4 if i % 2 else 2) * speed(i / N) for i in range(N + 1)) / (3 * N)
chord = math.hypot(pts[3][0] - pts[0][0], pts[3][1] - pts[0][1])

c = CubicBezier(*[Point(*p) for p in pts])
edges = c.flatten(d)
print("curve            :", c)
print("step d           :", d)
print("length (Simpson) : %.6f   (chord %.4f is a lower bound)" % (L, chord))
print("required         : more than length/(2d) = %.3f edges, i.e. at least %d" % (L / (2 * d), math.floor(L / (2 * d)) + 1))
print("library returned : %d edge(s): %s" % (len(edges), edges))
if chord >= 2 * d and len(edges) <= chord / (2 * d):
    print("VIOLATION: too few edges (even against the chord lower bound)")
    sys.exit(1)
print("no violation")
