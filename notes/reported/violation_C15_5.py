"""C15: "returns a parameter in [0,1]".  Line.tOfPoint returns a (tiny)
NEGATIVE parameter for the line's own point at a very small t > 0: the
rounding of start*(1-t)+end*t can land one ulp on the wrong side of start,
and (p.x-start.x)/(end.x-start.x) is returned unclamped.
(The analogous known failure is listed for quadratics only; there the answer
is -1, here it is an out-of-range parameter.)
"""
import sys
from fractions import Fraction as F
from beziers.point import Point
from beziers.line import Line

cases = [((-367.0, 16.0), (-369.0, -648.0), 5.613803300654963e-15),
         ((960.0, -271.0), (966.0, -484.0), 4.294146970392821e-15),
         ((599.0, -56.0), (606.0, -846.0), 6.35207703802827e-16)]
bad = 0
for s, e, t in cases:
    L = Line(Point(*s), Point(*e))
    p = L.pointAtTime(t)
    r = L.tOfPoint(p)
    # independent: the exact parameter of the orthogonal projection of p on the segment, clamped
    dx, dy = F(e[0]) - F(s[0]), F(e[1]) - F(s[1])
    proj = ((F(p.x) - F(s[0])) * dx + (F(p.y) - F(s[1])) * dy) / (dx * dx + dy * dy)
    print("Line %s->%s, t=%r (valid, in [0,1]); point=(%r,%r)" % (s, e, t, p.x, p.y))
    print("   library tOfPoint=%r ; expected a value in [0,1] (0 <= t); exact projection parameter=%.3g"
          % (r, float(proj)))
    if not (0 <= r <= 1):
        bad += 1
if bad:
    print("VIOLATION C15: parameter outside [0,1] returned for the line's own point (%d cases)" % bad)
    sys.exit(1)
print("no violation")
