"""C18: the tangent is the UNIT vector along the exact derivative (derivative non-zero).
Segment.tangentAtTime -> Point.toUnitVector computes sqrt(x*x + y*y): for very small
curves x*x underflows to 0 (the code then divides by 1.0 and returns the raw, tiny
derivative), for very large ones it overflows to inf (result <0,0>).  Lines go through
atan2 and are right at the same scales."""
import sys
from fractions import Fraction as F
from math import isqrt
from beziers.cubicbezier import CubicBezier
from beziers.quadraticbezier import QuadraticBezier
from beziers.line import Line
from beziers.point import Point

def exact_unit(pts, t):
    pts = [(F(x), F(y)) for x, y in pts]; t = F(t); n = len(pts) - 1
    d = [((pts[i + 1][0] - pts[i][0]) * n, (pts[i + 1][1] - pts[i][1]) * n) for i in range(n)]
    while len(d) > 1:
        d = [((1 - t) * d[i][0] + t * d[i + 1][0], (1 - t) * d[i][1] + t * d[i + 1][1]) for i in range(len(d) - 1)]
    dx, dy = d[0]
    m2 = dx * dx + dy * dy
    assert m2 != 0
    # rational square root to ~60 digits
    K = 10 ** 60
    r = F(isqrt(m2.numerator * K * K * m2.denominator), m2.denominator * K)
    return float(dx / r), float(dy / r)

bad = 0
t = 0.25
for s in (1e-170, 1e160):
    for cls, shape in ((Line, [(0, 0), (3, 4)]),
                       (QuadraticBezier, [(0, 0), (1, 1), (2, 0)]),
                       (CubicBezier, [(0, 0), (1, 1), (2, 1), (3, 0)])):
        seg = cls(*[Point(x * s, y * s) for x, y in shape])
        pts = [(p.x, p.y) for p in seg.points]
        ex = exact_unit(pts, t)
        tan, nor = seg.tangentAtTime(t), seg.normalAtTime(t)
        ok = (abs(tan.x - ex[0]) < 1e-9 and abs(tan.y - ex[1]) < 1e-9
              and abs(nor.x + ex[1]) < 1e-9 and abs(nor.y - ex[0]) < 1e-9)
        print("%-16s scale %g t=%s" % (cls.__name__, s, t))
        print("   library tangent %s normal %s" % (tan, nor))
        print("   expected tangent <%r,%r> normal <%r,%r>   %s" % (ex[0], ex[1], -ex[1], ex[0], "ok" if ok else "VIOLATION"))
        bad += not ok
sys.exit(1 if bad else 0)
