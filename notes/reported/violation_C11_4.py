"""C11, shapes far from the origin: the line/line code decides "vertical",
"parallel" and "degenerate" with math.isclose's RELATIVE tolerance (1e-9 of the
coordinate), so at large coordinates geometry that is perfectly representable
in floating point is thrown away.

(a) quadrilateral (1e9-100,0) (1e9,0) (1e9+0.9,100) (1e9-100,100):
    its right edge leans 0.9 units to the right; the library takes it for the
    vertical x = 1e9.  The point (1e9+0.5, 90) is 0.31 units LEFT of that
    edge, i.e. inside; the library says outside.
    (spacing of doubles near 1e9 is 1.2e-7, all numbers here are exact.)
(b) trapezoid (1e11,0) (1e11+50,0) (1e11+40,100) (1e11+10,100): the point
    (1e11+25, 50), 25 units inside, is reported outside (winding 0): both rays
    are shorter than 1e-9 * 1e11 = 100 units, so start.x "isclose" end.x and
    every edge is "parallel" to them.
Expected values: exact crossing counts with rational arithmetic.
"""
import sys
from fractions import Fraction as F

from beziers.line import Line
from beziers.path import BezierPath
from beziers.point import Point


def poly(verts):
    pts = [Point(*v) for v in verts]
    return BezierPath.fromSegments(
        [Line(pts[i], pts[(i + 1) % len(pts)]) for i in range(len(pts))]
    )


def exact_inside(verts, x, y):
    x, y = F(x), F(y)
    n = 0
    for i in range(len(verts)):
        (x1, y1), (x2, y2) = verts[i], verts[(i + 1) % len(verts)]
        x1, y1, x2, y2 = F(x1), F(y1), F(x2), F(y2)
        if (y1 > y) != (y2 > y):
            xi = x1 + (y - y1) * (x2 - x1) / (y2 - y1)
            assert xi != x
            if xi < x:
                n += 1
    return n


failed = False
cases = [
    ("(a)", [(1e9 - 100, 0.0), (1e9, 0.0), (1e9 + 0.9, 100.0), (1e9 - 100, 100.0)], (1e9 + 0.5, 90.0)),
    ("(b)", [(1e11, 0.0), (1e11 + 50, 0.0), (1e11 + 40, 100.0), (1e11 + 10, 100.0)], (1e11 + 25, 50.0)),
]
for name, verts, (x, y) in cases:
    # the floats really are what we think they are
    assert all(float(F(v[0])) == v[0] for v in verts)
    n = exact_crossings = exact_inside(verts, x, y)
    exp = n % 2 == 1
    p = poly(verts)
    q = Point(x, y)
    w = p.windingNumberOfPoint(q)
    ins = p.pointIsInside(q)
    ok = ins == exp and (w % 2 == 1) == exp
    print("%s query (%r, %r): exact crossings on the left %d -> inside %s | library: winding %d, inside %s  %s"
          % (name, x, y, n, exp, w, ins, "ok" if ok else "WRONG"))
    failed = failed or not ok
if failed:
    print("VIOLATION of C11")
    sys.exit(1)
print("no violation")
