"""C19: the sweep-line pairing raises instead of returning the pairs when one
collection mixes a Segment with a shape of another kind (a BezierPath or a
BoundingBox - both have bounds()).  remove_from() evaluates `i[0] != o` over the
active list; Segment.__ne__/__eq__ read other.order, which the other kinds lack."""
import sys
from beziers.line import Line
from beziers.point import Point
from beziers.path import BezierPath
from beziers.boundingbox import BoundingBox
from beziers.utils.linesweep import bbox_intersections

seg = Line(Point(0, 0), Point(10, 10))                 # box [0,10]x[0,10]
path = BezierPath.fromSegments([Line(Point(5, 0), Point(20, 5)), Line(Point(20, 5), Point(5, 8))])  # box [5,20]x[0,8]
bb = BoundingBox(); bb.extend(Point(2, 2)); bb.extend(Point(30, 3))   # box [2,30]x[2,3]
other = Line(Point(8, 1), Point(9, 4))                 # box [8,9]x[1,4]

boxes = {"seg": (0, 10, 0, 10), "path": (5, 20, 0, 8), "bb": (2, 30, 2, 3), "other": (8, 9, 1, 4)}  # by hand
def closed_overlap(p, q):
    return max(p[0], q[0]) <= min(p[1], q[1]) and max(p[2], q[2]) <= min(p[3], q[3])

rc = 0
for label, first in (("[seg, path]", [("seg", seg), ("path", path)]), ("[seg, bb]", [("seg", seg), ("bb", bb)])):
    expected = sorted((n, "other") for n, _ in first if closed_overlap(boxes[n], boxes["other"]))
    print("first collection", label, "second collection [other]")
    print("  expected pairs  :", expected)
    try:
        res = bbox_intersections([o for _, o in first], [other])
        print("  library returned:", len(res), "pairs")
    except Exception as e:
        print("  library raised  : %s: %s" % (type(e).__name__, e))
        rc = 1
if rc:
    print("VIOLATION: no pairing is returned for a collection mixing a Segment with another kind of shape")
sys.exit(rc)
