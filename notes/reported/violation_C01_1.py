"""C01, derivative clause, for the Line kind: the library has no derivative segment for a line.

The property quantifies over "every line, quadratic and cubic segment" and requires that
"the derivative segment evaluates to that polynomial's exact parametric derivative".
QuadraticBezier.derivative() returns a Line and CubicBezier.derivative() a QuadraticBezier,
but Line defines no derivative() (and Segment, the base class, does not either -
Segment.tangentAtTime calls self.derivative(), Line just overrides tangentAtTime).
So for a line the required value cannot be obtained from the library at all.

(Whether this counts as a violation or as the property over-quantifying is a matter of
reading; the evaluation and split clauses of C01 do hold for lines.)
"""
import sys
from fractions import Fraction as F

from beziers.line import Line
from beziers.point import Point

P0, P1 = (1, 2), (4, 6)
line = Line(Point(*P0), Point(*P1))
# degree-1 Bernstein polynomial B(t) = (1-t) P0 + t P1, so B'(t) = P1 - P0 for every t
expected = (F(P1[0]) - F(P0[0]), F(P1[1]) - F(P0[1]))
print("expected derivative of the line at every t:", tuple(map(float, expected)))
try:
    d = line.derivative()
except AttributeError as e:
    print("library: Line.derivative() ->", type(e).__name__ + ":", e)
    sys.exit(1)
bad = False
for t in (0, 0.25, 1):
    got = d.pointAtTime(t)
    print("library derivative at", t, "->", got)
    bad |= (F(got.x), F(got.y)) != expected
sys.exit(1 if bad else 0)
