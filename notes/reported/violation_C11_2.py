"""C11: query point level with a PASS-THROUGH node at the end of a cubic (the
outline goes straight up through the node: it is no y-extremum, no edge there
is horizontal, no tangent is horizontal).  The point is to the RIGHT of the
path, so only the left ray (built without any rotation) meets the outline.

Path (closed, simple, counter-clockwise):
    cubic (100,0) (80,20) (40,80) (50,90)      y strictly increasing 0 -> 90
    line  (50,90) -> (0,150)                   y increasing 90 -> 150
    line  (0,150) -> (0,0)
    line  (0,0)   -> (100,0)
Query (200, 90): all control points have x <= 100, so the point is outside
the bounding box: expected pointIsInside False, winding number 0.
The exact crossing count of the level y = 90 is computed below with rational
arithmetic (each node belongs to the segment that ends there).
"""
import sys
from fractions import Fraction as F

from beziers.cubicbezier import CubicBezier
from beziers.line import Line
from beziers.path import BezierPath
from beziers.point import Point

P = Point
segs = [
    CubicBezier(P(100, 0), P(80, 20), P(40, 80), P(50, 90)),
    Line(P(50, 90), P(0, 150)),
    Line(P(0, 150), P(0, 0)),
    Line(P(0, 0), P(100, 0)),
]
path = BezierPath.fromSegments(segs)
q = P(200, 90)

# ---------------- independent expectation --------------------------------
ctrl = [[(F(p.x), F(p.y)) for p in s.points] for s in segs]
allx = [x for s in ctrl for x, _ in s]
ally = [y for s in ctrl for _, y in s]
outside_bbox = F(q.x) > max(allx)
assert outside_bbox


def bez_y(s, t):
    n = len(s) - 1
    ys = [p[1] for p in s]
    while len(ys) > 1:
        ys = [(1 - t) * a + t * b for a, b in zip(ys, ys[1:])]
    return ys[0]


# every segment here is monotone in y (control ordinates monotone), so it
# crosses the level at most once; window (0, 1]
level = F(q.y)
crossings = 0
for s in ctrl:
    ys = [p[1] for p in s]
    assert ys == sorted(ys) or ys == sorted(ys, reverse=True)
    y0, y1 = ys[0] - level, ys[-1] - level
    if ys[0] == ys[-1]:
        continue  # the horizontal bottom edge, at y = 0, not at the level
    if y1 == 0 or y0 * y1 < 0:
        crossings += 1
# all crossings are left of the query (x <= 100 < 200)
expected_inside = crossings % 2 == 1
assert crossings == 2 and not expected_inside

# the node is a pass-through node: y just before and just after it
e = F(1, 10**6)
before = bez_y(ctrl[0], 1 - e) - level
after = bez_y(ctrl[1], e) - level
assert before < 0 < after

# ---------------- library -------------------------------------------------
w = path.windingNumberOfPoint(q)
inside = path.pointIsInside(q)
print("query", q, "outside bounding box:", outside_bbox)
print("exact crossings of y=90 left of the query:", crossings, "(node (50,90) is pass-through: y-90 = %.2e before, %.2e after)" % (before, after))
print("library : windingNumberOfPoint =", w, " pointIsInside =", inside)
print("expected: windingNumberOfPoint = 0  pointIsInside = False")
# show where the crossing is lost
b = path.bounds()
b.addMargin(10)
ray1 = Line(P(b.left, q.y), q)
print("roots the library finds for the cubic on the left ray:", segs[0]._curve_line_intersections_t(ray1), "(exact root: t = 1)")
print("crossings kept for the following line (t=0 end is excluded):", [(i.t1) for i in segs[1].intersections(ray1)])
if w != 0 or inside != expected_inside:
    print("VIOLATION of C11")
    sys.exit(1)
print("no violation")
