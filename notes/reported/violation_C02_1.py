"""C02 violation (extreme size, overflow): a cubic whose coordinates are ~1e154.

CubicBezier.bounds() -> findExtremes() -> _findDRoots() -> utils.quadraticRoots(a, b, c),
which tests  b*b - 4*a*c > 0.0 .  The derivative's coefficients are ~6x the coordinates,
so for coordinates >= ~1e153 b*b overflows to inf, inf - inf = nan, `nan > 0.0` is False,
and no extremum is reported.  The box is then just the box of the two end points and an
interior extremum (t = 1/2, nowhere near the first/last 1%) sticks out of it.

Same shape at scale 1 is handled correctly, which is printed for comparison.
"""
import sys
from fractions import Fraction as F
from math import comb

from beziers.cubicbezier import CubicBezier
from beziers.point import Point

SHAPE = [(0, 0), (1, 4), (2, 3), (3, 1)]  # y'(t) = 6 (t - 1/2)(t - 2): one y-maximum, at t = 1/2


def bernstein(P, t):
    n = len(P) - 1
    t = F(t)
    return tuple(
        sum(comb(n, i) * (1 - t) ** (n - i) * t**i * F(p[k]) for i, p in enumerate(P))
        for k in (0, 1)
    )


def run(scale):
    P = [(x * scale, y * scale) for x, y in SHAPE]  # scale is a power of two: exact
    seg = CubicBezier(*[Point(x, y) for x, y in P])
    box = seg.bounds()
    # independent expectation: exact Bernstein value at the rational extremum t = 1/2
    ex, ey = bernstein(P, F(1, 2))
    assert ey == F(11, 4) * F(scale)
    # sanity: it really is the maximum of y on [0,1] (exact sampling)
    assert all(bernstein(P, F(i, 200))[1] <= ey for i in range(201))
    xs = [F(p[0]) for p in P]
    ys = [F(p[1]) for p in P]
    extent = max(max(xs) - min(xs), max(ys) - min(ys))
    diag2 = (max(xs) - min(xs)) ** 2 + (max(ys) - min(ys)) ** 2
    protrusion = ey - F(box.top)
    print("scale            :", scale)
    print("library extremes :", seg.findExtremes())
    print("library box      : left %r bottom %r right %r top %r" % (box.left, box.bottom, box.right, box.top))
    print("expected top     : %r  (curve point at t=1/2, exact)" % float(ey))
    print("protrusion / control-polygon extent : %.4f (allowed: 0 for an extremum at t=0.5; 0.0006 even at the ends)"
          % float(protrusion / extent))
    print("protrusion / control-box diagonal   : %.4f" % float(protrusion**2 / diag2) ** 0.5)
    print()
    return protrusion > 0


ok_small = run(1.0)
bad = run(2.0**512)  # ~1.34e154
if bad and not ok_small:
    print("VIOLATION: the point of the segment at t=1/2 lies outside the reported bounding box")
    sys.exit(1)
print("no violation")
