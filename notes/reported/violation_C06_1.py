"""C06 violation (self-intersection of a looping cubic, far from the origin).

BezierPath.getSelfIntersections relies on CubicBezier.hasLoop, which evaluates the
Loop-Blinn determinants a1,a2,a3 from ABSOLUTE coordinates (x0*(y3-y2) + ... + x3*y2 - y3*x2).
These are translation invariant in exact arithmetic, but with the curve at (1e8,1e8) the
products are ~1e16 and the results ~1e2, so all significant digits cancel.  The same
curves at the origin are handled correctly.

Case 1 (offset 1e9, 12-unit curve): reported loop parameters are wrong: the two points are
        ~4 units apart (0.2 % of the extent = 0.03).
Case 2 (offset 1e8, 2-unit curve): a cubic with a loop, no self-intersection reported at all.
Case 3 (offset 1e8, 12-unit curve): the two reported points are 0.06 apart (allowed 0.03).
All coordinates are integers < 2^53, i.e. exact.
"""
import sys, math
from fractions import Fraction as F
from beziers.point import Point
from beziers.cubicbezier import CubicBezier
from beziers.path import BezierPath


def power(v):
    a, b, c, d = v
    return [a, 3 * (b - a), 3 * a - 6 * b + 3 * c, -a + 3 * b - 3 * c + d]


def exact_loop(cp):
    """B(s)=B(t), s!=t  <=>  c1 + c2 (s+t) + c3 (s^2+st+t^2) = 0 ; linear in u=s+t, w=u^2-st."""
    cx = power([F(p[0]) for p in cp])
    cy = power([F(p[1]) for p in cp])
    det = cx[2] * cy[3] - cy[2] * cx[3]
    u = (-cx[1] * cy[3] + cy[1] * cx[3]) / det
    w = (cx[2] * (-cy[1]) + cy[2] * cx[1]) / det
    v = u * u - w
    disc = u * u - 4 * v
    assert disc > 0
    sd = F(math.isqrt(int(disc * 10 ** 40))) / 10 ** 20
    return (u - sd) / 2, (u + sd) / 2


def ev(cp, t):
    t = F(t)
    w = ((1 - t) ** 3, 3 * (1 - t) ** 2 * t, 3 * (1 - t) * t * t, t ** 3)
    return (sum(wi * F(p[0]) for wi, p in zip(w, cp)), sum(wi * F(p[1]) for wi, p in zip(w, cp)))


def dist(p, q):
    return math.hypot(float(p[0] - q[0]), float(p[1] - q[1]))


def run(cp, label):
    print("==", label, cp)
    s, t = exact_loop(cp)
    ps, pt = ev(cp, s), ev(cp, t)
    xs = [p[0] for p in cp]; ys = [p[1] for p in cp]
    ext = math.hypot(max(xs) - min(xs), max(ys) - min(ys))
    tol = 0.002 * ext
    print("  exact loop parameters: %.9f, %.9f (both interior); |B(s)-B(t)| = %.3g"
          % (float(s), float(t), dist(ps, pt)))
    assert 0 < s < 1 and 0 < t < 1 and dist(ps, pt) < 1e-9
    path = BezierPath.fromSegments([CubicBezier(*[Point(*p) for p in cp])])
    path.closed = False
    res = path.getSelfIntersections()
    print("  library getSelfIntersections():", [(i.t1, i.t2) for i in res])
    if not res:
        print("  VIOLATION: looping cubic, no self-intersection reported")
        return True
    i = res[0]
    gap = dist(ev(cp, F(i.t1)), ev(cp, F(i.t2)))
    print("  the two reported parameters evaluate (exactly) to points %.4g apart; control-box diagonal %.4g, 0.2%% of it = %.3g"
          % (gap, ext, tol))
    if gap > tol:
        print("  VIOLATION: reported parameters do not evaluate to the same point")
        return True
    return False


bad = False
cases = [
    ("case 1", [(0, 0), (10, 10), (-2, 9), (7, -1)], 1000000000),
    ("case 2", [(0, -1), (0, 1), (-1, 0), (0, 0)], 100000000),
    ("case 3", [(0, 0), (10, 10), (-2, 9), (7, -1)], 100000000),
]
for label, base, off in cases:
    print("control: at the origin")
    if run(base, label + " at the origin"):
        print("  (unexpected: fails at the origin too)")
    print("translated by (%d, %d)" % (off, off))
    bad = run([(x + off, y + off) for x, y in base], label) or bad
sys.exit(1 if bad else 0)
