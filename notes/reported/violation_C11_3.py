"""C11: query points that are NOT level with any node - they are 0.0003 units
above the level of a pass-through node of a polygon of ordinary font size -
get the wrong parity.

Polygon (closed, simple, counter-clockwise):
    (0,0) (500,0) (500,2000) (400,2010) (0,2010)
The node N = (500,2000) is a pass-through node (the outline keeps rising
through it); the edge that ends at N rises 2000 units, the edge that starts at
N rises 10 units.  At the level y = 2000.0003 the long edge is NOT crossed
(it stops at y = 2000), the short edge is crossed once, at x ~ 499.997.
The library accepts parameters up to 1 + 2e-7 on the long edge
(2e-7 * 2000 = 0.0004 units beyond its end), so it counts both.

Expected values: exact even-odd crossing count with rational arithmetic on the
exact binary value of the query coordinates.
"""
import sys
from fractions import Fraction as F

from beziers.line import Line
from beziers.path import BezierPath
from beziers.point import Point

verts = [(0, 0), (500, 0), (500, 2000), (400, 2010), (0, 2010)]
pts = [Point(*v) for v in verts]
path = BezierPath.fromSegments(
    [Line(pts[i], pts[(i + 1) % len(pts)]) for i in range(len(pts))]
)


def exact_crossings_left(x, y):
    """number of edges crossed by the ray from (x,y) towards -infinity"""
    x, y = F(x), F(y)
    n = 0
    for i in range(len(verts)):
        (x1, y1), (x2, y2) = verts[i], verts[(i + 1) % len(verts)]
        x1, y1, x2, y2 = F(x1), F(y1), F(x2), F(y2)
        if (y1 > y) != (y2 > y):
            xi = x1 + (y - y1) * (x2 - x1) / (y2 - y1)
            assert xi != x, "query on the outline"
            if xi < x:
                n += 1
    return n


def min_dist_to_outline(x, y):
    import math

    best = 1e18
    for i in range(len(verts)):
        (x1, y1), (x2, y2) = verts[i], verts[(i + 1) % len(verts)]
        dx, dy = x2 - x1, y2 - y1
        t = max(0, min(1, ((x - x1) * dx + (y - y1) * dy) / (dx * dx + dy * dy)))
        best = min(best, math.hypot(x - x1 - t * dx, y - y1 - t * dy))
    return best


queries = [(250.0, 2000.0003), (1000.0, 2000.0003), (-100.0, 2000.0003)]
failed = False
for x, y in queries:
    assert all(F(y) != F(v[1]) for v in verts), "not level with any node"
    n = exact_crossings_left(x, y)
    exp_inside = n % 2 == 1
    outside_bbox = not (0 <= x <= 500 and 0 <= y <= 2010)
    q = Point(x, y)
    w = path.windingNumberOfPoint(q)
    ins = path.pointIsInside(q)
    ok = ins == exp_inside and (w % 2 == 1) == exp_inside and not (outside_bbox and w != 0)
    print(
        "query (%s, %s): distance to outline %.2f, exact crossings on the left %d -> inside %s%s | library: winding %d, inside %s  %s"
        % (x, y, min_dist_to_outline(x, y), n, exp_inside,
           " (outside bounding box: winding must be 0)" if outside_bbox else "",
           w, ins, "ok" if ok else "WRONG")
    )
    failed = failed or not ok

b = path.bounds()
b.addMargin(10)
ray2 = Line(Point(b.right, 2000.0003), Point(250.0, 2000.0003))
print("right ray of the first query, crossings kept per edge (t on the edge):")
for s in path.asSegments():
    print("   ", s, [i.t1 for i in s.intersections(ray2)])
if failed:
    print("VIOLATION of C11")
    sys.exit(1)
print("no violation")
