"""C10: signed_area of a closed path far from the origin.

BezierPath.signed_area flattens the path and sums x0*y1 - y0*x1 over the
flattened edges with the raw coordinates (no re-centring).  Far from the
origin every product is ~offset**2 and the sum cancels catastrophically: the
result has an absolute error of the order ulp(offset**2) * sqrt(edges), which
does not depend on the size of the path, while the property allows only
10 * path length.  So the value is not the enclosed area, changes under
translation, and can have the wrong sign for a counter-clockwise contour.

All coordinates used here are exactly representable doubles, so the exact
enclosed area of the path the library was actually given is computed with
fractions from those very coordinates (Green's theorem: minus the sum over the
segments of the exact integral of y dx of a Bezier segment).
"""
import math
import sys
from fractions import Fraction as F
from math import comb

from beziers.line import Line
from beziers.path import BezierPath
from beziers.path.geometricshapes import Circle
from beziers.point import Point


def exact_ydx(seg):
    """Exact integral of y dx along a Bezier segment of any degree."""
    pts = [(F(p.x), F(p.y)) for p in seg.points]
    n = len(pts) - 1
    tot = F(0)
    for i in range(n):
        dx = pts[i + 1][0] - pts[i][0]
        for j in range(n + 1):
            tot += n * dx * pts[j][1] * F(
                comb(n - 1, i) * comb(n, j), comb(2 * n - 1, i + j) * 2 * n
            )
    return tot


def exact_enclosed(path):
    return float(-sum(exact_ydx(s) for s in path.asSegments()))


def exact_length_of_polygon(path):
    return sum(
        math.hypot(s.end.x - s.start.x, s.end.y - s.start.y) for s in path.asSegments()
    )


failures = 0


def check(label, path, length, ccw):
    global failures
    got = path.signed_area
    want = exact_enclosed(path)
    tol = 10 * length
    bad = abs(got - want) > tol
    wrong_sign = ccw and not got > 0
    print(label)
    print("   library signed_area : %r   direction: %r" % (got, path.direction))
    print("   exact enclosed area : %r" % want)
    print("   allowed deviation   : %r (10 * path length %r)" % (tol, length))
    print("   -> %s%s" % ("VIOLATION" if bad else "ok",
                          " (counter-clockwise contour, sign not positive)" if wrong_sign and bad else ""))
    if bad:
        failures += 1


OFF = 1e10

# 1. counter-clockwise unit square, lower-left corner at (OFF, OFF)
sq = [Point(OFF, OFF), Point(OFF + 1, OFF), Point(OFF + 1, OFF + 1), Point(OFF, OFF + 1)]
square = BezierPath.fromSegments([Line(sq[i], sq[(i + 1) % 4]) for i in range(4)])
check("unit CCW square at (1e10, 1e10)", square, 4.0, True)

# 2. same square built at the origin and moved with BezierPath.translate:
#    "unchanged by translation"
sq0 = [Point(0, 0), Point(1, 0), Point(1, 1), Point(0, 1)]
moved = BezierPath.fromSegments([Line(sq0[i], sq0[(i + 1) % 4]) for i in range(4)])
before = moved.signed_area
moved.translate(Point(OFF, OFF))
print("unit square: signed_area before translate = %r" % before)
check("unit CCW square after translate(Point(1e10, 1e10))", moved, 4.0, True)

# 3. the library's own circle of radius 100 (clockwise as built; reversed -> CCW)
circ = Circle(100, origin=Point(OFF, OFF))
circ.reverse()
# length of a radius-100 circle approximation is < 2*pi*100 + 1
check("CCW circle of radius 100 centred at (1e10, 1e10)", circ, 2 * math.pi * 100 + 1, True)

# 4. a fine polygon at a much smaller offset: 2000-gon of radius 1 at 3e9
n, r, off = 2000, 1.0, 3e9
pts = [Point(off + r * math.cos(2 * math.pi * i / n), off + r * math.sin(2 * math.pi * i / n)) for i in range(n)]
poly = BezierPath.fromSegments([Line(pts[i], pts[(i + 1) % n]) for i in range(n)])
check("CCW regular 2000-gon of radius 1 centred at (3e9, 3e9)", poly, exact_length_of_polygon(poly), True)

sys.exit(1 if failures else 0)
