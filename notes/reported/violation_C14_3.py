"""C14 with the library's other fitting parameter at the end of its range:
cornerTolerance = 0 (the property does not restrict it; fromPoints' default is 20).

CurveFit.computeHook divides by  |from - to| + cornerTolerance ; when two
consecutive fitted points coincide (here the stroke revisits its first point,
'points may recur') this is 0/0 -> ZeroDivisionError instead of a chain.
Expected (by hand): the 6 points contain 4 distinct ones, budget 6 >= 6 points, so a
connected chain from (0.1,-2.0) to (6.3,0.0) must be returned.
"""
import sys
from beziers.path import BezierPath
from beziers.point import Point
pts = [(0.1, -2.0), (0.2, 0.0), (0.1, -2.0), (0.3, 0.1), (3.3, 2.0), (6.3, 0.0)]
print("input:", pts, "error=1 cornerTolerance=0 maxSegments=6")
try:
    path = BezierPath.fromPoints([Point(*p) for p in pts], error=1.0, cornerTolerance=0, maxSegments=len(pts))
    print("library returned:", path.asSegments())
except Exception as e:
    print("library raised %s: %s" % (type(e).__name__, e))
    print("expected: a chain of cubics from %r to %r" % (pts[0], pts[-1]))
    print("VIOLATION")
    sys.exit(1)
