"""C12: when one operand is a closed path thinner than 0.01 units (or smaller
than 0.01 units altogether) the three operations raise
pyclipper.ClipperException instead of returning lists of closed paths.

B = square [-50,50] x [-50,50]                              (area 10000)
A = rectangle [0,50] x [0.001,0.009]  - a closed, simple path of positive
    area 0.4, lying inside B.
Every point of A's interior is within 0.004 units of A's outline, far inside
the flattening tolerance, so the property accepts ANY answer for those points;
for all other points it requires
    A or B = B,   A and B = (nothing, or something within the sliver),
    B - A = B,    A - B = nothing,
i.e. areas 10000, ~0, 10000, ~0 - but it does require an answer.

What happens: clip() hands the coordinates, multiplied by 100, to pyclipper,
which truncates them to integers: 0.1 and 0.9 both become 0, the rectangle
collapses to a segment and AddPath rejects it.
"""
import sys

from beziers.line import Line
from beziers.path import BezierPath
from beziers.point import Point


def poly(verts):
    pts = [Point(*v) for v in verts]
    return BezierPath.fromSegments(
        [Line(pts[i], pts[(i + 1) % len(pts)]) for i in range(len(pts))]
    )


def shoelace(verts):
    return abs(sum(x1 * y2 - x2 * y1 for (x1, y1), (x2, y2) in zip(verts, verts[1:] + verts[:1]))) / 2


VB = [(-50, 50), (50, 50), (50, -50), (-50, -50)]
VA = [(0, 0.001), (50, 0.001), (50, 0.009), (0, 0.009)]
print("area(A) = %.3f, area(B) = %.1f (shoelace, by hand)" % (shoelace(VA), shoelace(VB)))

perimeter_tol = 2 * (400 + 100.02)  # outline lengths x 2 units of deviation: generous
tests = [
    ("B.union(A)", lambda A, B: B.union(A, flat=True), 10000.0),
    ("A.union(B)", lambda A, B: A.union(B, flat=True), 10000.0),
    ("B.intersection(A)", lambda A, B: B.intersection(A, flat=True), 0.4),
    ("B.difference(A)", lambda A, B: B.difference(A, flat=True), 9999.6),
    ("A.difference(B)", lambda A, B: A.difference(B, flat=True), 0.0),
]
failed = False
for name, f, want in tests:
    A, B = poly(VA), poly(VB)
    try:
        res = f(A, B)
        area = sum(p.signed_area for p in res)
        ok = abs(abs(area) - want) <= perimeter_tol
        print("%s -> %d paths, area %.2f (expected %.1f)  %s" % (name, len(res), abs(area), want, "ok" if ok else "WRONG"))
        failed = failed or not ok
    except Exception as e:
        print("%s raised %s: %s   (expected a list of closed paths of area ~%.1f)" % (name, type(e).__name__, e, want))
        failed = True
if failed:
    print("VIOLATION of C12")
    sys.exit(1)
print("no violation")
