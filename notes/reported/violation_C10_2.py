"""C10: segment area far from the origin.

QuadraticBezier.area and CubicBezier.area expand the integral of y dx into
products x_i*y_j of raw coordinates (~offset**2) that cancel down to a result
of size ~offset*dx.  At an offset of 1e10 the result keeps only ~6-7
significant digits: the quadratic / cubic degree elevations of a line no
longer have the line's area, and neither equals the integral of y dx.
(Line.area = 0.5*(x1-x0)*(y0+y1) has no such cancellation and stays exact.)

The control points below are exactly representable, so the elevated curves
are exactly the same point set as the line and the exact integral is computed
with fractions from the very coordinates handed to the library.
"""
import sys
from fractions import Fraction as F
from math import comb

from beziers.cubicbezier import CubicBezier
from beziers.line import Line
from beziers.point import Point
from beziers.quadraticbezier import QuadraticBezier


def exact_ydx(seg):
    pts = [(F(p.x), F(p.y)) for p in seg.points]
    n = len(pts) - 1
    tot = F(0)
    for i in range(n):
        dx = pts[i + 1][0] - pts[i][0]
        for j in range(n + 1):
            tot += n * dx * pts[j][1] * F(
                comb(n - 1, i) * comb(n, j), comb(2 * n - 1, i + j) * 2 * n
            )
    return tot


OFF = 1e10
a = Point(OFF, OFF)
b = Point(OFF + 6, OFF + 12)
line = Line(a, b)
# exact degree elevations (all coordinates are integers < 2**53)
quad = QuadraticBezier(a, Point(OFF + 3, OFF + 6), b)
cub = CubicBezier(a, Point(OFF + 2, OFF + 4), Point(OFF + 4, OFF + 8), b)

failures = 0
REL = 1e-9
for name, seg in (("line", line), ("quadratic elevation", quad), ("cubic elevation", cub)):
    want = exact_ydx(seg)
    got = seg.area
    rel = abs(F(got) - want) / abs(want)
    bad = rel > REL
    print("%-20s library area %r   exact integral of y dx %r   relative error %.3g  %s"
          % (name, got, float(want), float(rel), "VIOLATION" if bad else "ok"))
    failures += bad

print("line.area - quadratic.area = %r (should be 0)" % (line.area - quad.area))
print("line.area - cubic.area     = %r (should be 0)" % (line.area - cub.area))

# additivity under splitting, same place: a genuinely curved cubic
c = CubicBezier(Point(OFF, OFF), Point(OFF + 40, OFF + 90), Point(OFF + 120, OFF - 70), Point(OFF + 200, OFF + 10))
l, r = c.splitAtTime(0.5)
want = exact_ydx(c)
print("curved cubic: area %r, left+right %r, exact %r" % (c.area, l.area + r.area, float(want)))
if abs(F(c.area) - want) / abs(want) > REL:
    print("   VIOLATION: area off by %r" % float(F(c.area) - want))
    failures += 1

sys.exit(1 if failures else 0)
