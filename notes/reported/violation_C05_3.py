"""C05 violation: two line segments that cross at 53 degrees in the middle of both are
reported as not intersecting, because the "is this line vertical?" test is
math.isclose(a.x, b.x) with a RELATIVE tolerance of 1e-9: far from the origin a segment
whose x-extent is below 1e-9*|x| counts as vertical whatever its direction.

  L1: (1e9, 0)       -- (1e9 + 0.5, 1)      slope +2
  L2: (1e9 + 0.5, 0) -- (1e9, 1)            slope -2
(all coordinates exactly representable; float spacing at 1e9 is 1.2e-7, so 0.5 is 4 million ulps)

Responsible: IntersectionsMixin._line_line_intersections, first test
    if isclose(c.x, d.x) and isclose(a.x, b.x): return []
(the same happens with y / "horizontal").  A related effect: Line.tOfPoint treats such a
segment as "actually a point" when both extents are below the relative tolerance, so a
curve crossing it is dropped as well (second part).
"""
import sys
from fractions import Fraction as F
from beziers.point import Point
from beziers.line import Line
from beziers.quadraticbezier import QuadraticBezier

X = 1e9
A, B = (X, 0.0), (X + 0.5, 1.0)
C, D = (X + 0.5, 0.0), (X, 1.0)

# exact intersection of the two segments
ax, ay, bx, by, cx, cy, dx, dy = [F(v) for v in (*A, *B, *C, *D)]
r = (bx - ax, by - ay)
s = (dx - cx, dy - cy)
den = r[0] * s[1] - r[1] * s[0]
assert den != 0
t = ((cx - ax) * s[1] - (cy - ay) * s[0]) / den
u = ((cx - ax) * r[1] - (cy - ay) * r[0]) / den
px, py = ax + t * r[0], ay + t * r[1]
print("exact: segments cross at t1=%s t2=%s, point (%s, %s); direction vectors %s and %s (cross product %s)"
      % (t, u, float(px), float(py), tuple(map(float, r)), tuple(map(float, s)), float(den)))
assert 0 < t < 1 and 0 < u < 1

l1 = Line(Point(*A), Point(*B))
l2 = Line(Point(*C), Point(*D))
r1 = l1.intersections(l2)
r2 = l2.intersections(l1)
print("library l1.intersections(l2):", r1)
print("library l2.intersections(l1):", r2)
bad = len(r1) != 1 or len(r2) != 1

# second part: a quadratic crossing a short diagonal segment (all values exact in binary)
S, E = (X, X), (X + 0.875, X + 0.875)
Q = [(X, X + 0.875), (X + 0.4375, X + 0.4375), (X + 0.875, X)]
ln = Line(Point(*S), Point(*E))
q = QuadraticBezier(*[Point(*p) for p in Q])
sx, sy, ex, ey = F(S[0]), F(S[1]), F(E[0]), F(E[1])


def qpt(t):
    t = F(t)
    w = ((1 - t) ** 2, 2 * (1 - t) * t, t * t)
    return (sum(wi * F(p[0]) for wi, p in zip(w, Q)), sum(wi * F(p[1]) for wi, p in zip(w, Q)))


def side(p):
    return (ex - sx) * (p[1] - sy) - (ey - sy) * (p[0] - sx)


mid = qpt(F(1, 2))
u2 = ((mid[0] - sx) * (ex - sx) + (mid[1] - sy) * (ey - sy)) / ((ex - sx) ** 2 + (ey - sy) ** 2)
print("exact: side(q(1/4))=%s side(q(1/2))=%s side(q(3/4))=%s ; q(1/2) is at line parameter %s"
      % (side(qpt(F(1, 4))), side(mid), side(qpt(F(3, 4))), u2))
assert side(qpt(F(1, 4))) * side(qpt(F(3, 4))) < 0 and side(mid) == 0 and 0 < u2 < 1
print("so", q, "crosses", ln, "perpendicularly at t=1/2 of both")
r3 = q.intersections(ln)
print("library q.intersections(line):", r3)
bad = bad or len(r3) != 1

if bad:
    print("VIOLATION: property C05 requires one reported intersection per transversal interior crossing")
    sys.exit(1)
print("no violation")
