"""C07 / append on a closed path: afterwards the closed path no longer ends
where it starts (closedness is kept, as required, but the geometry is not
closed), and a conversion to a node list and back then changes the segments.

r: Rectangle(10,10) (closed, starts and ends at (-5,5));  o: open line (20,20)->(30,20).
"""
import sys
from beziers.path import BezierPath
from beziers.path.geometricshapes import Rectangle
from beziers.point import Point as P
from beziers.line import Line

r = Rectangle(10, 10)
o = BezierPath.fromSegments([Line(P(20, 20), P(30, 20))])
o.closed = False
s = r.asSegments()
print("before: closed=%s start %s end %s" % (r.closed, s[0][0], s[-1][-1]))
r.append(o)
s = r.asSegments()
st, en = (s[0][0].x, s[0][0].y), (s[-1][-1].x, s[-1][-1].y)
print("after append: closed=%s start %s end %s  segments %s" % (r.closed, st, en, s))
print("required: closed unchanged (True) and a closed path ends where it starts")
bad = r.closed and st != en
before = [repr(x) for x in r.asSegments()]
r.asNodelist()
after = [repr(x) for x in r.asSegments()]
print("segments->nodes->segments: %d segments before, %d after (required: identical)" % (len(before), len(after)))
bad |= before != after
print("VIOLATION" if bad else "ok")
sys.exit(1 if bad else 0)
