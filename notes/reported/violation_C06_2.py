"""C06 violation: two quadratics cross transversally (82 degrees) at two points interior to
both, and intersections() returns [] for both operand orders.

  A = (0,0) (-9.9,500) (980.2,1000)     x(t) = 1000 t^2 - 19.8 t,  y(t) = 1000 t
      A's leftmost point is at t* = 0.0099:  x = -0.098
  B = (-300,10.9) (299.9,9.9) (-300,8.9)   a narrow hairpin whose tip (t=0.5) is at (-0.05, 9.9),
      i.e. INSIDE A's nose.

Responsible: Segment.bounds() uses findExtremes(), and QuadraticBezier/CubicBezier.findExtremes
discard extremes with t < 0.01 or t > 0.99.  A's box is therefore computed as x >= 0 although
the curve reaches x = -0.098, B's box ends at x = -0.05, and _curve_curve_intersections_t
returns [] at its very first test "if not self.bounds().overlaps(other.bounds())".
(The penetration depth is small - the discarded protrusion is at most ~1e-4 of the extent -
but the property asks for at least one report near every transversal interior crossing,
and here there is none.)
"""
import sys, math
from fractions import Fraction as F
from beziers.point import Point
from beziers.quadraticbezier import QuadraticBezier

A = [(0.0, 0.0), (-9.9, 500.0), (980.2, 1000.0)]
B = [(-300.0, 10.9), (299.9, 9.9), (-300.0, 8.9)]


def q(P, t):
    t = F(t)
    w = ((1 - t) ** 2, 2 * (1 - t) * t, t * t)
    return (sum(wi * F(p[0]) for wi, p in zip(w, P)), sum(wi * F(p[1]) for wi, p in zip(w, P)))


# A is the graph x = f(y): y = 1000 t exactly (y control values 0,500,1000), so t = y/1000
def g(p):
    """signed 'x-distance' of point p from curve A: p.x - A_x(t) with t = p.y/1000"""
    t = p[1] / 1000
    return p[0] - q(A, t)[0], t


vals = [(s, g(q(B, s))) for s in (F(49, 100), F(1, 2), F(51, 100))]
for s, (v, t) in vals:
    print("B(%s): x-offset from A = %.6f (A parameter there t=%.6f)" % (s, float(v), float(t)))
assert vals[0][1][0] < 0 < vals[1][1][0] and vals[2][1][0] < 0
crossings = []
for lo, hi in ((F(49, 100), F(1, 2)), (F(1, 2), F(51, 100))):
    a, b = lo, hi
    ga = g(q(B, a))[0]
    for _ in range(60):
        m = (a + b) / 2
        if (g(q(B, m))[0] < 0) == (ga < 0):
            a = m
        else:
            b = m
    s = (a + b) / 2
    p = q(B, s)
    t = p[1] / 1000
    # tangents
    h = F(1, 10 ** 8)
    dB = [(u - v) / (2 * h) for u, v in zip(q(B, s + h), q(B, s - h))]
    dA = [(u - v) / (2 * h) for u, v in zip(q(A, t + h), q(A, t - h))]
    cr = float(dA[0] * dB[1] - dA[1] * dB[0])
    ang = math.degrees(math.asin(abs(cr) / (math.hypot(*map(float, dA)) * math.hypot(*map(float, dB)))))
    crossings.append((float(t), float(s), float(p[0]), float(p[1]), ang))
    print("expected crossing: tA=%.6f tB=%.6f point=(%.5f, %.5f) angle=%.1f deg" % crossings[-1])

ca = QuadraticBezier(*[Point(*p) for p in A])
cb = QuadraticBezier(*[Point(*p) for p in B])
print("exact leftmost x of A (t=0.0099):", float(q(A, F(99, 10000))[0]), " B's tip x:", float(q(B, F(1, 2))[0]))
print("library A.bounds():", ca.bounds(), "  B.bounds():", cb.bounds())
r1 = ca.intersections(cb)
r2 = cb.intersections(ca)
print("library A.intersections(B):", r1)
print("library B.intersections(A):", r2)
if not r1 or not r2:
    print("VIOLATION: two transversal interior crossings, nothing reported")
    sys.exit(1)
print("no violation")
