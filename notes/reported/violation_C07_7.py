"""C07 / round(): "Rounds the points of this path to integer coordinates", but
the end points afterwards are not the rounded former end points: Point.rounded
truncates towards zero (int(x)).  (Only a violation if "round" in the property
means round-to-nearest; Point.rounded's own docstring says "truncated".)

Path: open line (0.6,-0.6)->(2.7,3.5).  Nearest integers: (1,-1)->(3,4)
(3.5 -> 4 under half-up or half-even alike).
"""
import sys
from fractions import Fraction
from math import floor
from beziers.path import BezierPath
from beziers.point import Point as P
from beziers.line import Line

pts = [(0.6, -0.6), (2.7, 3.5)]
p = BezierPath.fromSegments([Line(*[P(*q) for q in pts])])
p.closed = False
p.round()
s = p.asSegments()[0]
got = [(s[0].x, s[0].y), (s[1].x, s[1].y)]
want = [tuple(float(floor(Fraction(c) + Fraction(1, 2))) for c in q) for q in pts]
print("library :", got)
print("nearest :", want)
ok = got == want
print("ok" if ok else "VIOLATION (truncation, not rounding)")
sys.exit(0 if ok else 1)
