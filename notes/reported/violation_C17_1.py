"""C17: a cubic at least d long must be divided into more than length/(2d) edges.
A cubic shorter than 1 unit is always flattened to its chord, however small d is.

CubicBezier.flatten -> SampleMixin.regularSampleTValue builds its arc-length table
with parameter step 1/length; for length < 1 the step exceeds 1, the table holds
only t=0, and the result is [0, 1.0]: one edge."""
import math, sys
from beziers.cubicbezier import CubicBezier
from beziers.point import Point

pts = [(0, 0), (0.2, 0.3), (0.5, 0.3), (0.7, 0)]
d = 0.1

# independent length: composite Simpson on |B'(t)| with our own derivative formula
def speed(t):
    dx = dy = 0.0
    for i, b in enumerate([3 * (1 - t) ** 2, 6 * (1 - t) * t, 3 * t * t]):
        dx += b * (pts[i + 1][0] - pts[i][0])
        dy += b * (pts[i + 1][1] - pts[i][1])
    return math.hypot(dx, dy)
N = 20000
L = sum((1 if i in (0, N) else 4 if i % 2 else 2) * speed(i / N) for i in range(N + 1)) / (3 * N)
chord = math.hypot(pts[3][0] - pts[0][0], pts[3][1] - pts[0][1])  # rigorous lower bound on L

c = CubicBezier(*[Point(*p) for p in pts])
before = repr(c)
edges = c.flatten(d)
assert repr(c) == before
print("curve            :", c)
print("step d           :", d)
print("length (Simpson) : %.6f   (chord %.3f is a lower bound)" % (L, chord))
print("required         : more than length/(2d) = %.3f edges, i.e. at least %d" % (L / (2 * d), math.floor(L / (2 * d)) + 1))
print("library returned : %d edge(s): %s" % (len(edges), edges))
if L >= d and not len(edges) > L / (2 * d):
    print("VIOLATION: too few edges")
    sys.exit(1)
print("no violation")
