"""C11: a query point OUTSIDE the bounding box, level with two pass-through
nodes (the x-extreme nodes of a circle, where y goes straight through the
level - they are not y-extrema, no edge is horizontal there), is reported
inside with winding number 1.

Expected value computed without the library: the circle's four cubics lie in
the convex hull of their control points, all of which have |x| <= 100, so the
point (-200, 0) is outside the bounding box: no ray from it to the far left
crosses anything, the ray to the right crosses the outline twice (exact count
below with rational arithmetic), the point is outside and the winding number
must be 0.
"""
import sys
from fractions import Fraction as F

from beziers.path.geometricshapes import Circle
from beziers.point import Point

path = Circle(100)
q = Point(-200, 0)

# ---- independent expectation -------------------------------------------
segs = [[(F(p.x), F(p.y)) for p in s.points] for s in path.asSegments()]
xs = [x for s in segs for x, _ in s]
ys = [y for s in segs for _, y in s]
assert F(q.x) < min(xs), "query is left of every control point"
outside_bbox = not (min(xs) <= q.x <= max(xs) and min(ys) <= q.y <= max(ys))


def y_poly(s, level):
    p0, p1, p2, p3 = [p[1] - level for p in s]
    return [p0, 3 * (p1 - p0), 3 * (p0 - 2 * p1 + p2), -p0 + 3 * p1 - 3 * p2 + p3]


def ev(c, t):
    return sum(ci * t**i for i, ci in enumerate(c))


# crossings of the level y = 0, half-open parameter window (0, 1] per segment
# (each node belongs to the segment that ends there).  For these four quarter
# arcs y(t) is monotone (control ordinates are monotone), so a segment crosses
# the level at most once, and does so in (0,1] iff y(0) and y(1) lie strictly
# on opposite sides, or y(1) == 0.
crossings = 0
for s in segs:
    yy = [p[1] for p in s]
    assert yy == sorted(yy) or yy == sorted(yy, reverse=True)
    c = y_poly(s, F(q.y))
    y0, y1 = ev(c, F(0)), ev(c, F(1))
    if y1 == 0 or y0 * y1 < 0:
        crossings += 1
expected_inside = False  # every crossing is to the right of q; 2 of them
assert crossings == 2 and outside_bbox

# ---- library -----------------------------------------------------------
w = path.windingNumberOfPoint(q)
inside = path.pointIsInside(q)
print("path      : Circle(100)  (4 cubics, nodes at (+-100,0), (0,+-100))")
print("query     :", q, " outside bounding box:", outside_bbox)
print("crossings of the level y=0 right of the query (exact):", crossings, "-> even")
print("library   : windingNumberOfPoint =", w, " pointIsInside =", inside)
print("expected  : windingNumberOfPoint = 0  pointIsInside = False")
if w != 0 or inside != expected_inside:
    print("VIOLATION of C11")
    sys.exit(1)
print("no violation")
