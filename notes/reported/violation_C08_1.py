"""C08: a closed node list given at different rotations of the same contour does
not always yield the same cyclic sequence of segments.

Contour (closed, all on-curve "line" nodes):  A=(0,0), A=(0,0), B=(10,0), C=(10,10)
i.e. two consecutive coincident nodes (a zero-length line piece).  Whatever
rotation the list is given at, the contour has 4 nodes and therefore 4 segments
in the same cyclic order:  L(A,A) L(A,B) L(B,C) L(C,A).

SegmentRepresentation.fromNodelist decides whether a closing segment is needed
by looking at whether the last on-curve point "is" the first one; in the
rotation that puts the two coincident nodes at the two ends of the list it
concludes that the contour is already closed and drops one segment.
"""
import sys
from beziers.path import BezierPath
from beziers.path.representations.Nodelist import Node

A, B, C = (0.0, 0.0), (10.0, 0.0), (10.0, 10.0)
contour = [A, A, B, C]


def expected_cyclic(nodes):
    # by hand: one line per node, from that node to the next one (cyclically)
    n = len(nodes)
    return [("Line", (nodes[i], nodes[(i + 1) % n])) for i in range(n)]


def canon(segs):
    return min(tuple(segs[i:] + segs[:i]) for i in range(len(segs)))


want = canon(expected_cyclic(contour))
bad = False
for rot in range(len(contour)):
    nl = contour[rot:] + contour[:rot]
    p = BezierPath.fromNodelist([Node(x, y, "line") for x, y in nl], closed=True)
    got = [(type(s).__name__, tuple((q.x, q.y) for q in s.points)) for s in p.asSegments()]
    ok = canon(got) == want
    bad |= not ok
    print("rotation %d  nodes %s" % (rot, nl))
    print("   library : %d segments %s" % (len(got), p.asSegments()))
    print("   expected: %d segments (cyclically) %s   -> %s" % (len(want), list(want), "ok" if ok else "VIOLATION"))
sys.exit(1 if bad else 0)
