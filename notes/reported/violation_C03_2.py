"""C03, first sentence: findExtremes reports parameters at which no derivative
changes sign.

Cubic with x control values 0, a^2, a^2 - a*b, a^2 - a*b + b^2 where
a = 1 + 2^-17, b = 1 + 2^-26 (all four are exactly representable doubles) and
y = 0, 1, 2, 3.  Exactly (Fractions, on the doubles actually handed to the
library):

    x'(t) = 3 (a (1-t) - b t)^2        -- a perfect square, discriminant 0

so x' touches zero at t = a/(a+b) but never changes sign, and y' = 3.  The
set of sign changes is empty.  The library evaluates b*b - 4*a*c in floating
point, gets rounding noise > 0, and returns two "extremes" near 0.5.
"""
import sys
from fractions import Fraction as F

from beziers.cubicbezier import CubicBezier
from beziers.point import Point

a = 1 + 2.0**-17
b = 1 + 2.0**-26
xs = [0.0, a * a, a * a - a * b, a * a - a * b + b * b]
ys = [0.0, 1.0, 2.0, 3.0]

# ---- independent, exact --------------------------------------------------
X = [F(v) for v in xs]
d = [3 * (X[1] - X[0]), 3 * (X[2] - X[1]), 3 * (X[3] - X[2])]  # Bernstein coeffs of x'
A = d[0] - 2 * d[1] + d[2]
B = 2 * (d[1] - d[0])
C = d[0]
disc = B * B - 4 * A * C
print("exact discriminant of x'(t):", disc)
assert disc == 0 and A > 0
# A > 0 and disc == 0  =>  x'(t) = A (t - r)^2 >= 0 for all t: no sign change
r = -B / (2 * A)
print("x' = A (t - r)^2 with r =", float(r), " -> never changes sign;  y' = 3 constant")
expected = []

# ---- library ---------------------------------------------------------------
seg = CubicBezier(*[Point(x, y) for x, y in zip(xs, ys)])
found = seg.findExtremes()
print("library findExtremes():", found)
print("expected              :", expected)
if found != expected:
    print("VIOLATION: findExtremes returns parameters where neither derivative changes sign")
    sys.exit(1)
sys.exit(0)
