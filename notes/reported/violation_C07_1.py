"""C07: conversion from a node list, then round(): a closed path that does not
end where it starts, and a later conversion that changes the segments.

Closed node list  A=(1,1)  B=(5,1)  C=(5,5)  D=(0.9999999999,1)   (all "line").
D is a node of its own, 1e-10 away from A.  Required: every closed path ends
where it starts (so the segment list must finish with a closing piece D->A);
after round() (the library truncates: int()) the end points must be the
truncated former end points, and the closed path must still end where it starts.

fromNodelist (SegmentRepresentation.fromNodelist) treats D as "being" A
(math.isclose, rel 1e-9) and adds no closing piece, leaving a closed path whose
last end is D != A.  round() then truncates A to (1,1) and D to (0,1): the
closed path now misses its start by a whole unit.  Converting to a node list
and back afterwards adds a fourth segment, i.e. conversion changes the path.
"""
import sys
from beziers.path import BezierPath
from beziers.path.representations.Nodelist import Node

nodes = [(1.0, 1.0), (5.0, 1.0), (5.0, 5.0), (0.9999999999, 1.0)]
p = BezierPath.fromNodelist([Node(x, y, "line") for x, y in nodes], closed=True)


def ends(path):
    s = path.asSegments()
    return (s[0][0].x, s[0][0].y), (s[-1][-1].x, s[-1][-1].y)


bad = False
st, en = ends(p)
print("after fromNodelist: closed=%s segments=%s" % (p.closed, p.asSegments()))
print("   start %s end %s ; required: end == start (closed path)  -> %s" % (st, en, "ok" if st == en else "VIOLATION"))
bad |= st != en

p.round()
st, en = ends(p)
want_start = (float(int(nodes[0][0])), float(int(nodes[0][1])))
print("after round(): segments=%s" % p.asSegments())
print("   start %s end %s ; required: start == end == %s  -> %s" % (st, en, want_start, "ok" if st == en == want_start else "VIOLATION"))
bad |= not (st == en == want_start)

before = [repr(s) for s in p.asSegments()]
p.asNodelist()
after = [repr(s) for s in p.asSegments()]
print("segments -> node list -> segments:\n   before %s\n   after  %s\n   required identical -> %s" % (before, after, "ok" if before == after else "VIOLATION"))
bad |= before != after
sys.exit(1 if bad else 0)
