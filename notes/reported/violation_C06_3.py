"""C06 violation (scale dependence; SAME ROOT CAUSE as the already known absolute-area stop
rule, but for ordinary, well-curved, non-thin operands whose top-level boxes are far above
the 1e-3 area limit): two quadratics in the unit square crossing at 90 and 69 degrees.

  A = (0,0) (0.5,1) (1,0)          i.e. x = t, y = 2x(1-x)
  B = (0.1,0.9) (0.3,-0.5) (0.9,0.95)

Every reported intersection pairs two points 0.012 .. 0.017 apart, and the nearest report
is 0.009 .. 0.014 from the true crossing, while 0.2 % of the combined extent is 0.0036
(taken generously as the diagonal of the control-point box, 1 x 1.5; the curves' own box is smaller).
_curve_curve_intersections_t stops as soon as both pieces' boxes have AREA < 1e-3, which
for curves of unit size happens after 5-6 halvings (pieces ~0.03 long).
"""
import sys, math
from fractions import Fraction as F
from beziers.point import Point
from beziers.quadraticbezier import QuadraticBezier

A = [(0.0, 0.0), (0.5, 1.0), (1.0, 0.0)]
B = [(0.1, 0.9), (0.3, -0.5), (0.9, 0.95)]


def q(P, t):
    t = F(t)
    w = ((1 - t) ** 2, 2 * (1 - t) * t, t * t)
    return (sum(wi * F(p[0]) for wi, p in zip(w, P)), sum(wi * F(p[1]) for wi, p in zip(w, P)))


def g(p):  # A is the graph y = 2x(1-x), x = t
    return p[1] - 2 * p[0] * (1 - p[0])


true = []
N = 200
for k in range(N):
    lo, hi = F(k, N), F(k + 1, N)
    if g(q(B, lo)) * g(q(B, hi)) < 0:
        a, b = lo, hi
        ga = g(q(B, a))
        for _ in range(60):
            m = (a + b) / 2
            if (g(q(B, m)) < 0) == (ga < 0):
                a = m
            else:
                b = m
        s = (a + b) / 2
        p = q(B, s)
        tA = p[0]
        h = F(1, 10 ** 8)
        dB = [float((u - v) / (2 * h)) for u, v in zip(q(B, s + h), q(B, s - h))]
        dA = [1.0, float(2 - 4 * tA)]
        ang = math.degrees(math.asin(abs(dA[0] * dB[1] - dA[1] * dB[0]) / (math.hypot(*dA) * math.hypot(*dB))))
        true.append((float(tA), float(s), float(p[0]), float(p[1]), ang))
        print("true crossing: tA=%.6f tB=%.6f point=(%.6f, %.6f) angle=%.1f deg" % true[-1])
assert len(true) == 2
tol = 0.002 * math.hypot(1.0, 1.0 + 0.5)  # generous: diagonal of the control-point box
print("tolerance used here (0.2%% of the control-box diagonal): %.4f" % tol)

ca = QuadraticBezier(*[Point(*p) for p in A])
cb = QuadraticBezier(*[Point(*p) for p in B])
print("top-level box areas:", ca.bounds().area, cb.bounds().area)
bad = False
for name, r in (("A.intersections(B)", ca.intersections(cb)), ("B.intersections(A)", cb.intersections(ca))):
    print("library", name)
    pts = []
    for i in r:
        p1 = i.seg1.pointAtTime(i.t1)
        p2 = i.seg2.pointAtTime(i.t2)
        gap = p1.distanceFrom(p2)
        pts.append(p1)
        flag = "  <-- farther apart than the tolerance" if gap > tol else ""
        bad = bad or gap > tol
        print("   t1=%.5f t2=%.5f  seg1 point=%s seg2 point=%s  apart %.4f%s" % (i.t1, i.t2, p1, p2, gap, flag))
    for tr in true:
        dm = min(math.hypot(p.x - tr[2], p.y - tr[3]) for p in pts) if pts else float("inf")
        flag = "  <-- no report within the tolerance" if dm > tol else ""
        bad = bad or dm > tol
        print("   nearest report to the true crossing (%.4f, %.4f): %.4f%s" % (tr[2], tr[3], dm, flag))
if bad:
    print("VIOLATION of C06 (accuracy 0.2% of the extent) for unit-sized curves")
    sys.exit(1)
print("no violation")
