"""C07 / splitAtPoints with the same end-of-range time twice.

Path: open, (0,0)->(10,0)->(10,10).  splitAtPoints([(seg0,1.0),(seg0,1.0)])
(t = 1.0 is a legal time: test_splitatpoints passes regularSampleTValue output,
which ends in 1.0.)  Required: a path from (0,0) to (10,10), still contiguous,
still open.  The library raises ZeroDivisionError in splitAtPoints.mapx
((v - ds) / (1 - ds) with ds == 1.0): no path comes out at all.
The same happens for [(seg,0.5),(seg,1.0),(seg,1.0)].
"""
import sys
from beziers.path import BezierPath
from beziers.point import Point as P
from beziers.line import Line

p = BezierPath.fromSegments([Line(P(0, 0), P(10, 0)), Line(P(10, 0), P(10, 10))])
p.closed = False
s0 = p.asSegments()[0]
try:
    p.splitAtPoints([(s0, 1.0), (s0, 1.0)])
except Exception as e:
    print("library : raised %r" % e)
    print("expected: contiguous open path from (0,0) to (10,10)")
    print("VIOLATION")
    sys.exit(1)
segs = p.asSegments()
print("library :", segs)
ok = all((a[-1].x, a[-1].y) == (b[0].x, b[0].y) for a, b in zip(segs, segs[1:])) and (segs[0][0].x, segs[0][0].y) == (0, 0) and (segs[-1][-1].x, segs[-1][-1].y) == (10, 10)
sys.exit(0 if ok else 1)
