"""C20: curveDistance() returns NaN (not a finite number) for two segments with finite
coordinates whose distance is a finite, representable float: the squared terms
|P|^2 overflow to inf and A_r + B_k - 2*C_rk is inf - inf.  max(nan, 0.0) keeps the nan."""
import sys, math
from fractions import Fraction as F
from beziers.line import Line
from beziers.point import Point
from beziers.utils.curvedistance import curveDistance

c = 1e154   # finite; c*c overflows but every distance between the operands' points is < 3e154
a = Line(Point(c, c), Point(2 * c, c))
b = Line(Point(c, 2 * c), Point(2 * c, 2 * c))
# parallel horizontal segments over the same x range: minimum distance = vertical gap, greatest = diagonal
true_min = float(F(2 * c) - F(c))
true_max = math.hypot(float(F(2 * c) - F(c)), float(F(2 * c) - F(c)))
d, t1, t2 = curveDistance(a, b)
print("library returned:", (d, t1, t2))
print("expected a finite number in [%r, %r]" % (true_min, true_max))
if not (isinstance(d, float) and math.isfinite(d) and d >= 0):
    print("VIOLATION: reported distance is not a finite non-negative number")
    sys.exit(1)
