"""C20: curveDistance() reports a distance SMALLER than the true minimum distance
(it reports 0 for segments that are a whole unit apart) when the operands lie far
from the origin.  S(u,v) is assembled as A_r + B_k - 2*C_rk from dot products of the
raw control points (|P|^2 + |Q|^2 - 2 P.Q), so the squared distance is the small
difference of numbers of size |P|^2; the result is whatever rounding leaves, and
curveDistance() clamps a negative remainder to 0.  The same segments translated to
the origin give the right answer."""
import sys, math
from fractions import Fraction as F
from beziers.line import Line
from beziers.cubicbezier import CubicBezier
from beziers.point import Point
from beziers.utils.curvedistance import curveDistance

def pt_seg2(p, a, b):
    dx, dy = b[0] - a[0], b[1] - a[1]
    L = dx * dx + dy * dy
    t = F(0) if L == 0 else max(F(0), min(F(1), ((p[0] - a[0]) * dx + (p[1] - a[1]) * dy) / L))
    q = (a[0] + t * dx, a[1] + t * dy)
    return (p[0] - q[0]) ** 2 + (p[1] - q[1]) ** 2

def orient(a, b, c):
    return (b[0] - a[0]) * (c[1] - a[1]) - (b[1] - a[1]) * (c[0] - a[0])

def seg_seg2(a, b, c, d):
    """exact squared minimum distance of two straight segments (rationals)"""
    o1, o2, o3, o4 = orient(a, b, c), orient(a, b, d), orient(c, d, a), orient(c, d, b)
    if o1 * o2 < 0 and o3 * o4 < 0:
        return F(0)
    return min(pt_seg2(a, c, d), pt_seg2(b, c, d), pt_seg2(c, a, b), pt_seg2(d, a, b))

rc = 0
cases = [  # (offset, gap): two horizontal segments of length 10, the second `gap` above the first
    (0.0, 1.0), (1e8, 1.0), (1e9, 1.0), (1e6, 0.0078125), (1e7, 0.0078125),
]
for off, gap in cases:
    pa, pb = (off, off), (off + 10, off)
    pc, pd = (off, off + gap), (off + 10, off + gap)
    # every coordinate is exactly representable: check, then do the geometry in rationals
    fa, fb, fc, fd = [(F(x), F(y)) for x, y in (pa, pb, pc, pd)]
    assert fc[1] - fa[1] == F(gap)
    true = math.sqrt(seg_seg2(fa, fb, fc, fd))
    d, t1, t2 = curveDistance(Line(Point(*pa), Point(*pb)), Line(Point(*pc), Point(*pd)))
    # the same two lines written as cubics
    def cub(p, q):
        return CubicBezier(Point(*p), Point(p[0] + 3, p[1]), Point(p[0] + 6, p[1]), Point(*q))
    dc, _, _ = curveDistance(cub(pa, pb), cub(pc, pd))
    flag = ""
    if d < true * 0.99 or dc < true * 0.99:
        flag = "   <-- smaller than the true minimum distance"
        rc = 1
    print("offset %-8g gap %-10g true minimum %-10g library (lines) %-22r library (cubics) %r%s"
          % (off, gap, true, d, dc, flag))
if rc:
    print("VIOLATION: reported distance is below the true minimum distance (property: never smaller)")
sys.exit(rc)
