"""C05 violation: a cubic and a line segment cross transversally twice, well inside
both segments, and the library reports no intersection at all (either receiver).

Cubic  P0=(0,240000) P1=(1000,-80020) P2=(2000,-80020) P3=(3000,240001)
Line   (0,0) -- (3000,0)            (the x axis; alignment transform is the identity)

x(t) = 3000 t exactly, y(t) = 240000 - 960060 t + 960060 t^2 + 1 t^3.
Responsible: CubicBezier._findRoots (Cardano).  After dividing by the tiny cubic
coefficient (a/d = 960060) the discriminant q2*q2 + p3*p3*p3 cancels catastrophically:
it is computed as exactly 0.0 while its true value is -4.9e17, so the "double root"
branch is taken, which yields the midpoint 0.5 of the two real roots; Newton polishing
from that point (where the derivative is ~0) leaves [0,1] and both roots are dropped.
"""
import sys
from fractions import Fraction as F
from beziers.point import Point
from beziers.line import Line
from beziers.cubicbezier import CubicBezier


def check(scale, label):
    P = [(0, 240000), (1000, -80020), (2000, -80020), (3000, 240001)]
    P = [(x * scale, y * scale) for x, y in P]
    L = [(0.0, 0.0), (3000 * scale, 0.0)]
    cubic = CubicBezier(*[Point(x, y) for x, y in P])
    line = Line(*[Point(x, y) for x, y in L])

    # --- independent expectation, exact rational arithmetic -----------------
    ys = [F(p[1]) for p in P]
    xs = [F(p[0]) for p in P]

    def bez(v, t):
        t = F(t)
        return ((1 - t) ** 3 * v[0] + 3 * (1 - t) ** 2 * t * v[1]
                + 3 * (1 - t) * t * t * v[2] + t ** 3 * v[3])

    # sign changes of y(t) (signed distance from the line y = 0)
    brackets = [(F(49, 100), F(1, 2)), (F(1, 2), F(51, 100))]
    crossings = []
    for lo, hi in brackets:
        assert bez(ys, lo) * bez(ys, hi) < 0, "no sign change?"
        a, b = lo, hi
        for _ in range(60):
            m = (a + b) / 2
            if (bez(ys, m) < 0) == (bez(ys, a) < 0):
                a = m
            else:
                b = m
        t = (a + b) / 2
        x = bez(xs, t)
        u = x / F(L[1][0])  # line parameter
        # slope of the curve relative to the line at the crossing
        h = F(1, 10 ** 9)
        dy = (bez(ys, t + h) - bez(ys, t - h)) / (2 * h)
        dx = (bez(xs, t + h) - bez(xs, t - h)) / (2 * h)
        crossings.append((float(t), float(u), float(x), float(dy / dx)))
    depth = float(-bez(ys, F(1, 2)))
    print("== %s" % label)
    print("cubic:", cubic, " line:", line)
    print("exact: y(0.49)=%.4g  y(0.5)=%.4g  y(0.51)=%.4g  -> two sign changes"
          % (float(bez(ys, F(49, 100))), float(bez(ys, F(1, 2))), float(bez(ys, F(51, 100)))))
    for t, u, x, s in crossings:
        print("expected crossing: curve t=%.9f line t=%.9f at x=%.6f, dy/dx there = %.3f"
              % (t, u, x, s))
    print("the curve dips %.4g units below the line; 1e-6 * coordinate magnitude = %.4g"
          % (depth, 1e-6 * abs(P[0][1])))
    r1 = cubic.intersections(line)
    r2 = line.intersections(cubic)
    print("library cubic.intersections(line):", r1)
    print("library line.intersections(cubic):", r2)
    return len(r1) != 2 or len(r2) != 2


bad = check(1, "integer coordinates")
bad = check(1 / 64, "same shape scaled by 1/64 (coordinates below 4000)") or bad
if bad:
    print("VIOLATION: property C05 requires exactly one report per transversal interior crossing (2 here)")
    sys.exit(1)
print("no violation")
