"""C14: 'passes within sqrt(error) of every input point'.

CurveFit._fitCurve accepts a fit when the distance is <= sqrt(error + 1e-9), not
sqrt(error): for small tolerances the returned chain misses input points by more
than sqrt(error).

Input: 6 points on a circle of radius 0.1, error = 1e-10 (so sqrt(error) = 1e-5),
budget = 6 = number of points.
The distance from each input point to the returned chain is computed here with
our own cubic evaluation (Bernstein form) and a dense scan + ternary refinement.
"""
import math, sys
from beziers.path import BezierPath
from beziers.point import Point

def ev(c, t):
    (x0, y0), (x1, y1), (x2, y2), (x3, y3) = c
    m = 1 - t
    return (m*m*m*x0 + 3*m*m*t*x1 + 3*m*t*t*x2 + t*t*t*x3,
            m*m*m*y0 + 3*m*m*t*y1 + 3*m*t*t*y2 + t*t*t*y3)

def dist(c, p, N=4000):
    d = lambda t: math.hypot(ev(c, t)[0] - p[0], ev(c, t)[1] - p[1])
    ds = [d(i / N) for i in range(N + 1)]
    best = min(ds)
    for i in range(N + 1):
        if (i == 0 or ds[i] <= ds[i-1]) and (i == N or ds[i] <= ds[i+1]):
            lo, hi = max(0, (i-1)/N), min(1, (i+1)/N)
            for _ in range(60):
                a, b = lo + (hi-lo)/3, hi - (hi-lo)/3
                if d(a) < d(b): hi = b
                else: lo = a
            best = min(best, d((lo+hi)/2))
    return best

R = 0.1
pts = [(R*math.cos(i*0.25), R*math.sin(i*0.25)) for i in range(6)]
error = 1e-10
budget = len(pts)
path = BezierPath.fromPoints([Point(x, y) for x, y in pts], error=error, maxSegments=budget)
segs = path.asSegments()
chain = [[(p.x, p.y) for p in s.points] for s in segs]
print("input points:", pts)
print("error = %g  -> allowed distance sqrt(error) = %g" % (error, math.sqrt(error)))
print("library returned %d segment(s):" % len(segs))
for s in segs: print("   ", s)
worst = 0
for p in pts:
    d = min(dist(c, p) for c in chain)
    print("   point %r: distance to chain %.3e" % (p, d))
    worst = max(worst, d)
print("worst distance %.3e, required <= %.3e" % (worst, math.sqrt(error)))
if worst > math.sqrt(error) * 1.01:
    print("VIOLATION: an input point is %.1f x sqrt(error) away from the fitted chain"
          % (worst / math.sqrt(error)))
    sys.exit(1)
print("no violation")
