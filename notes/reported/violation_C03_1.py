"""C03, second sentence: after addExtremes a piece backtracks in x by MORE than
0.06% of the extent of the original segment.

Segment: CubicBezier (0,0) (2,1) (-98,2) (0,3), alone in an open path.

  x(t)  = 6 t (1-t)^2 - 294 t^2 (1-t)           (exact, from the control points)
  x'(t) = 2 (300 t^2 - 204 t + 2)
  roots   t0 = (204 - sqrt(39216))/600 = 0.009949...   (inside the first 1%: left alone)
          t1 = (204 + sqrt(39216))/600 = 0.670050...   (cut here)
  y(t) = 3t is monotone.

The piece [0, t1] therefore starts at x = 0, first moves RIGHT up to
x(t0) = 0.0297..., then travels left to x(t1) = -43.11...  The wrong-way
movement 0.0297 is 0.0689% of the x-extent of the original segment (43.144),
0.0687% of the diagonal of its bounding box; the property allows 0.06%.

Everything expected is computed here with Fractions / 60-digit Decimals from
the control points, independently of the library.
"""
import sys
from decimal import Decimal, getcontext
from fractions import Fraction as F

from beziers.cubicbezier import CubicBezier
from beziers.path import BezierPath
from beziers.point import Point

getcontext().prec = 60

PX = [0, 2, -98, 0]
PY = [0, 1, 2, 3]


def bern(p, t):
    s = 1 - t
    return p[0] * s**3 + 3 * p[1] * s * s * t + 3 * p[2] * s * t * t + p[3] * t**3


def dbern(p, t):
    s = 1 - t
    return 3 * ((p[1] - p[0]) * s * s + 2 * (p[2] - p[1]) * s * t + (p[3] - p[2]) * t * t)


# ---- independent analysis -------------------------------------------------
# sign changes of x' (exact rational evaluation)
assert dbern(PX, F(0)) > 0 and dbern(PX, F(1, 100)) < 0  # one sign change inside (0, 0.01)
assert dbern(PX, F(67, 100)) < 0 and dbern(PX, F(6701, 10000)) > 0  # one inside (0.67, 0.6701)
# y' = 3 never changes sign
sq = Decimal(39216).sqrt()
t0 = (Decimal(204) - sq) / 600
t1 = (Decimal(204) + sq) / 600
PXd = [Decimal(v) for v in PX]
x_t0 = bern(PXd, t0)
x_t1 = bern(PXd, t1)
# x over [0,1]: 0 -> up to x(t0) -> down to x(t1) -> up to x(1) = 0
x_extent = x_t0 - x_t1
y_extent = Decimal(3)
diag = (x_extent**2 + y_extent**2).sqrt()
expected_cuts = [t1]  # the only sign change within [0.01, 0.99]

# ---- the library ------------------------------------------------------------
seg = CubicBezier(*[Point(x, y) for x, y in zip(PX, PY)])
found = seg.findExtremes()
path = BezierPath.fromSegments([seg])
path.closed = False
path.addExtremes()
pieces = path.asSegments()

print("findExtremes          :", found, " expected:", [float(t) for t in expected_cuts])
print("pieces after addExtremes:")
for p in pieces:
    print("   ", p)

# measure the wrong-way movement of each library piece, exactly, on the
# piece's own control points (Fractions), over a fine parameter grid
worst = Decimal(0)
N = 20000
for p in pieces:
    cx = [F(pt.x) for pt in p.points]
    xs = [bern(cx, F(i, N)) for i in range(N + 1)]
    direction = 1 if xs[-1] >= xs[0] else -1
    peak = xs[0] * direction
    back = F(0)
    for v in xs:
        v = v * direction
        if v > peak:
            peak = v
        if peak - v > back:
            back = peak - v
    back = Decimal(back.numerator) / Decimal(back.denominator)
    print("    piece x: start %.6f end %.6f  wrong-way movement %.6f" % (xs[0], xs[-1], back))
    worst = max(worst, back)

print("exact x(t0) (turning point in the first 1%%) : %.8f" % x_t0)
print("x-extent of the original segment            : %.6f" % x_extent)
print("bounding-box diagonal of the original       : %.6f" % diag)
r_x = worst / x_extent * 100
r_d = worst / diag * 100
print("library backtrack / x-extent  = %.4f %%   (property allows 0.06 %%)" % r_x)
print("library backtrack / bbox diag = %.4f %%   (property allows 0.06 %%)" % r_d)

if r_x > Decimal("0.06") and r_d > Decimal("0.06"):
    print("VIOLATION: a piece produced by addExtremes backtracks in x by more than 0.06% of the original's extent")
    sys.exit(1)
print("no violation")
sys.exit(0)
