"""C12: union / intersection / difference raise ZeroDivisionError instead of
returning lists of paths.

A = bow-tie (0,0) (100,100) (100,0) (0,100): a closed path that crosses itself
    at X = (50,50); its even-odd interior is the two triangles
    (0,0)(50,50)(0,100) and (100,100)(100,0)(50,50), area 2500 each.
B = triangle (50,200) (50,50) (150,200), with a node at X; its first edge comes
    straight down onto X.

Independent expectation (by hand, checked below with exact arithmetic):
B lies in the wedge  0 <= x-50 <= (y-50)*2/3,  A's interior in |y-50| < |x-50|,
so A and B only share the point X:
    area(A and B) = 0, area(A or B) = 5000 + 7500 = 12500, area(A - B) = 5000.

What happens: clip() only range-checks the parameter on the receiver's segment
(i.t1); both diagonals of A cross B's edge (50,200)->(50,50) at its END, t2 = 1.0
exactly, both go into the split list of that edge, and splitAtPoints' remap
(v - t) / (1 - t) divides by zero.
"""
import sys
import traceback
from fractions import Fraction as F

from beziers.line import Line
from beziers.path import BezierPath
from beziers.point import Point


def poly(verts):
    pts = [Point(*v) for v in verts]
    return BezierPath.fromSegments(
        [Line(pts[i], pts[(i + 1) % len(pts)]) for i in range(len(pts))]
    )


VA = [(0, 0), (100, 100), (100, 0), (0, 100)]
VB = [(50, 200), (50, 50), (150, 200)]


def eo_inside(verts, x, y):
    n = 0
    for i in range(len(verts)):
        (x1, y1), (x2, y2) = verts[i], verts[(i + 1) % len(verts)]
        x1, y1, x2, y2 = F(x1), F(y1), F(x2), F(y2)
        if (y1 > y) != (y2 > y):
            if x1 + (y - y1) * (x2 - x1) / (y2 - y1) < x:
                n += 1
    return n % 2 == 1


# exact check of the expectation on a fine off-grid lattice: no lattice point
# is in both, area estimates agree with the hand computation
step = F(5, 2)
cntA = cntB = cntAB = 0
yy = F(1, 3)
while yy < 210:
    xx = F(1, 7)
    while xx < 160:
        a, b = eo_inside(VA, xx, yy), eo_inside(VB, xx, yy)
        cntA += a
        cntB += b
        cntAB += a and b
        xx += step
    yy += step
print("lattice estimate: area(A) ~ %.0f, area(B) ~ %.0f, area(A and B) ~ %.0f  (by hand: 5000, 7500, 0)"
      % (cntA * step * step, cntB * step * step, cntAB * step * step))
assert cntAB == 0

expected = {"union": 12500.0, "intersection": 0.0, "difference": 5000.0}
failed = False
for op in ("union", "intersection", "difference"):
    A, B = poly(VA), poly(VB)
    try:
        result = getattr(A, op)(B, flat=True)
        area = sum(p.area for p in result)
        ok = abs(area - expected[op]) < 50
        print("A.%s(B, flat=True): %d paths, total area %.1f, expected %.1f  %s"
              % (op, len(result), area, expected[op], "ok" if ok else "WRONG"))
        failed = failed or not ok
    except Exception as e:
        tb = traceback.extract_tb(e.__traceback__)[-1]
        print("A.%s(B, flat=True) raised %s: %s  (%s:%d in %s); expected a list of closed paths of total area %.1f"
              % (op, type(e).__name__, e, tb.filename.split("/src/")[-1], tb.lineno, tb.name, expected[op]))
        failed = True
if failed:
    print("VIOLATION of C12")
    sys.exit(1)
print("no violation")
