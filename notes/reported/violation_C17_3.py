"""C17: a curve shorter than d becomes its chord.
The quadratic (0,0)-(7.995,0)-(0,0) runs out to x = 3.9975 and back: exact length
7.995 < 8.  The library's Gauss-Legendre length (ArcLengthMixin.length) cannot
integrate the kink of |x'(t)| at t = 1/2 and answers 8.00597 >= 8, so
QuadraticBezier.flatten(8) samples the curve instead of returning the chord."""
import sys
from fractions import Fraction as F
from beziers.quadraticbezier import QuadraticBezier
from beziers.point import Point

x0, x1, x2 = F("0"), F("7.995"), F("0")
d = 8
# exact length of a collinear quadratic: out to the turning point and back
ts = (x0 - x1) / (x0 - 2 * x1 + x2)
assert 0 < ts < 1
xs = (1 - ts) ** 2 * x0 + 2 * (1 - ts) * ts * x1 + ts * ts * x2
L = abs(xs - x0) + abs(x2 - xs)

q = QuadraticBezier(Point(float(x0), 0), Point(float(x1), 0), Point(float(x2), 0))
edges = q.flatten(d)
print("curve            :", q)
print("step d           :", d)
print("exact length     :", float(L), "(turning point x = %s at t = %s)" % (float(xs), ts))
print("library length   :", q.length)
print("required         : length < d, so exactly one edge, the chord (0,0)--(0,0)")
print("library returned : %d edges: %s" % (len(edges), edges))
if L < d and len(edges) != 1:
    print("VIOLATION: a curve shorter than d was not returned as its chord")
    sys.exit(1)
print("no violation")
