"""C05 violation: phantom intersections between a cubic and a line segment that do not
meet at all; the reported points are ~247 units away from the line.

Cubic  P0=(0,210000) P1=(1000,-69998) P2=(2000,-69998) P3=(3000,210001)
Line   (0,0) -- (3000,0)

y(t) = 210000 - 839994 t + 839994 t^2 + t^3 >= 1.5 on [0,1] (shown exactly below), so the
curve stays strictly above the line.  Responsible: CubicBezier._findRoots: the Cardano
discriminant is computed with the wrong sign (cancellation, a/d = 839994), the closed form
produces two bogus roots, and _polishRoots appends whatever the 4 Newton steps end on
without checking that the polynomial is (nearly) zero there.
"""
import sys
from fractions import Fraction as F
from beziers.point import Point
from beziers.line import Line
from beziers.cubicbezier import CubicBezier

P = [(0, 210000), (1000, -69998), (2000, -69998), (3000, 210001)]
L = [(0, 0), (3000, 0)]
cubic = CubicBezier(*[Point(x, y) for x, y in P])
line = Line(*[Point(x, y) for x, y in L])

# exact power-basis coefficients of y(t)
y0, y1, y2, y3 = [F(p[1]) for p in P]
c = y0
b = 3 * (y1 - y0)
a = 3 * y0 - 6 * y1 + 3 * y2
d = -y0 + 3 * y1 - 3 * y2 + y3
print("y(t) = %s + %s t + %s t^2 + %s t^3" % (c, b, a, d))
assert d > 0 and a > 0
# for t >= 0: y(t) >= c + b t + a t^2 >= c - b^2/(4a)
lower = c - b * b / (4 * a)
print("exact lower bound of y(t) on [0,1]: c - b^2/(4a) =", lower, "> 0  -> curve never reaches the line y=0")
assert lower > 0

tol = 1e-6 * 210001
bad = False
for name, res in (("cubic.intersections(line)", cubic.intersections(line)),
                  ("line.intersections(cubic)", line.intersections(cubic))):
    print("library", name, "->", res)
    for i in res:
        pt = i.point
        print("   reported t1=%.9f t2=%.9f point=%s : distance from the line = %.4f (allowed %.4f)"
              % (i.t1, i.t2, pt, abs(pt.y), tol))
        bad = True
print("expected: no intersection")
if bad:
    print("VIOLATION: property C05 - intersections reported where the segments do not cross; points not on the line")
    sys.exit(1)
print("no violation")
