"""C04 at extreme sizes: "a line's length is its Euclidean length", and curve
lengths within 2%.

All coordinates below are ordinary finite doubles and the true lengths are
ordinary finite doubles too, but Point.distanceFrom / ArcLengthMixin.length
square the coordinates first, which overflows to inf above ~1.3e154 and
underflows to 0 below ~1e-162.
"""
import sys
from fractions import Fraction as F

from beziers.cubicbezier import CubicBezier
from beziers.line import Line
from beziers.path import BezierPath
from beziers.point import Point
from beziers.quadraticbezier import QuadraticBezier


def exact_dist(p, q):
    """Euclidean distance, exact: for a 3-4-5 triangle the root is rational."""
    dx = F(q[0]) - F(p[0])
    dy = F(q[1]) - F(p[1])
    sq = dx * dx + dy * dy
    # integer square root of the rational (exact here because the inputs are 3-4-5 multiples or axis-parallel)
    import math

    n, d = sq.numerator, sq.denominator
    rn, rd = math.isqrt(n), math.isqrt(d)
    assert rn * rn == n and rd * rd == d
    return F(rn, rd)


bad = False


def check(name, got, expected, tol):
    global bad
    expected = float(expected)
    ok = abs(got - expected) <= tol * expected
    print("%-55s library %-12r expected %r %s" % (name, got, expected, "" if ok else "  <-- VIOLATION"))
    if not ok:
        bad = True


for k in (3e200, 3e-200):
    a, b = (0.0, 0.0), (k, k / 3 * 4)  # 3-4-5 triangle
    check("Line (0,0)-(%g,%g).length" % b, Line(Point(*a), Point(*b)).length, exact_dist(a, b), 1e-12)
    p = BezierPath.fromSegments([Line(Point(*a), Point(*b))])
    p.closed = False
    check("  same line as a one-segment path, path.length", p.length, exact_dist(a, b), 1e-12)
    # straight, uniformly parametrised curves along the x axis: true arc length = chord = k
    c = CubicBezier(Point(0, 0), Point(k / 3, 0), Point(k / 3 * 2, 0), Point(k, 0))
    check("straight uniform cubic of chord %g" % k, c.length, F(k), 1e-4)
    q = QuadraticBezier(Point(0, 0), Point(k / 2, 0), Point(k, 0))
    check("straight uniform quadratic of chord %g" % k, q.length, F(k), 1e-4)

if bad:
    sys.exit(1)
sys.exit(0)
