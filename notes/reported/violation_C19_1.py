"""C19: the sweep-line pairing drops a pair whose boxes overlap when the same
collection holds two Segments that compare == (Point.__eq__ is a 1e-9 relative
comparison, Segment.__eq__/__ne__ compare point by point).  remove_from()
filters the active list with `i[0] != o`, so retiring one segment at its right
edge also retires its near-twin, whose box reaches further right."""
import sys
from beziers.line import Line
from beziers.point import Point
from beziers.utils.linesweep import bbox_intersections

def make():
    s1 = Line(Point(0, 0), Point(1000, 10))
    s2 = Line(Point(0, 0), Point(1000.0000005, 10))   # a different shape; box reaches 5e-7 further right
    b = Line(Point(1000.0000003, 0), Point(2000, 10))
    return s1, s2, b

def box(line):  # independent: a straight line's box is spanned by its two end points
    xs = [line[0].x, line[1].x]; ys = [line[0].y, line[1].y]
    return min(xs), max(xs), min(ys), max(ys)

def closed_overlap(p, q):
    return max(p[0], q[0]) <= min(p[1], q[1]) and max(p[2], q[2]) <= min(p[3], q[3])

s1, s2, b = make()
names = {id(s1): "s1", id(s2): "s2", id(b): "b"}
expected = sorted(
    tuple(sorted((names[id(x)], names[id(y)])))
    for x in (s1, s2) for y in (b,) if closed_overlap(box(x), box(y))
)
got = sorted(tuple(sorted((names[id(x)], names[id(y)]))) for x, y in bbox_intersections([s1, s2], [b]))
print("boxes (xmin,xmax,ymin,ymax): s1", box(s1), " s2", box(s2), " b", box(b))
print("library BoundingBox.overlaps(s2,b):", s2.bounds().overlaps(b.bounds()),
      " overlaps(s1,b):", s1.bounds().overlaps(b.bounds()))
print("expected pairs :", expected)
print("library returned:", got)
# same shapes, s2 alone: the pair is found, so it is the presence of s1 that loses it
print("library with s2 alone:", [tuple(sorted((names[id(x)], names[id(y)]))) for x, y in bbox_intersections([s2], [b])])
if got != expected:
    print("VIOLATION: pair (s2,b) has overlapping boxes but is not returned")
    sys.exit(1)
