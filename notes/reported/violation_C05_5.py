"""C05 violation (extreme input): a segment whose x-run is subnormal but non-zero, next to the
y axis.  isclose(0, 1e-310) is False (relative tolerance only), so _line_line_intersections
takes the general branch, slope12 = 1/1e-310 overflows to inf, x becomes nan, every comparison
with nan is False, and an Intersection with t1 = t2 = nan and point (nan, nan) is returned -
even against a segment that is 5 units away.  withinRange(nan) is True.
"""
import sys, math
from beziers.point import Point
from beziers.line import Line

l1 = Line(Point(0, 0), Point(1e-310, 1))       # practically the segment x=0, 0<=y<=1
far = Line(Point(5, 0.5), Point(7, 0.5))       # x in [5,7]: cannot meet l1 (independent: 5 > 1e-310)
near = Line(Point(-1, 0.5), Point(1, 0.5))     # crosses l1 at (5e-311, 0.5), t1 = 0.5, t2 = 0.5
bad = False
for name, other, expected in (("far", far, "no intersection"), ("near", near, "one intersection, t1=0.5 t2=0.5")):
    for recv, arg, label in ((l1, other, "l1.intersections(%s)" % name), (other, l1, "%s.intersections(l1)" % name)):
        r = recv.intersections(arg)
        print(label, "->", [(i.t1, i.t2, i.point) for i in r], " expected:", expected)
        if any(math.isnan(i.t1) or math.isnan(i.t2) for i in r):
            bad = True
if bad:
    print("VIOLATION: reported parameters are NaN (not in (0,1]); phantom report for disjoint segments")
    sys.exit(1)
