"""C03 at extreme sizes: a large (or tiny) cubic loses all its extremes, and
addExtremes leaves a segment that is wildly non-monotone.

Cubic k * [(0,0), (1,1), (-1,2), (0.5,3)].  For k = 1 the library finds the
two turning points of x (t = 0.218..., 0.704...).  For k = 1e155 (and for
k = 1e-165) the curve is the same shape, the control points are ordinary finite
doubles, but quadraticRoots computes b*b - 4*a*c = inf - inf = nan
(respectively 0 - 0 = 0), takes `disc > 0` to be false and reports no root.
"""
import sys
from fractions import Fraction as F

from beziers.cubicbezier import CubicBezier
from beziers.path import BezierPath
from beziers.point import Point

base = [(0, 0), (1, 1), (-1, 2), (0.5, 3)]
bad = False
for k in (1.0, 1e155, 1e-165):
    pts = [(x * k, y * k) for x, y in base]
    X = [F(p[0]) for p in pts]

    def dx(t):
        s = 1 - t
        return 3 * ((X[1] - X[0]) * s * s + 2 * (X[2] - X[1]) * s * t + (X[3] - X[2]) * t * t)

    def x(t):
        s = 1 - t
        return X[0] * s**3 + 3 * X[1] * s * s * t + 3 * X[2] * s * t * t + X[3] * t**3

    # exact signs of x' : + at 0.1, - at 0.5, + at 0.9  -> two sign changes inside [0.1, 0.9]
    signs = [dx(F(1, 10)) > 0, dx(F(1, 2)) > 0, dx(F(9, 10)) > 0]
    assert signs == [True, False, True]
    seg = CubicBezier(*[Point(*p) for p in pts])
    found = seg.findExtremes()
    path = BezierPath.fromSegments([seg])
    path.closed = False
    path.addExtremes()
    n = len(path.asSegments())
    # backtrack of x on the untouched segment, exact: x rises to x(0.1)>x(0), falls to x(0.5), rises again
    extent = max(x(F(i, 100)) for i in range(101)) - min(x(F(i, 100)) for i in range(101))
    back = x(F(2, 10)) - x(F(7, 10))  # x falls by at least this much while the net movement is to the right
    print("k = %g" % k)
    print("   exact: x' is +,-,+ at t = 0.1, 0.5, 0.9 -> two sign changes in [0.01,0.99]; expected 2 x-extremes, 3 pieces")
    print("   library findExtremes():", found, "  pieces after addExtremes:", n)
    if len(found) != 2 or n != 3:
        print("   the single remaining piece backtracks in x by %.1f %% of the segment's x-extent" % float(100 * back / extent))
        bad = True
if bad:
    print("VIOLATION: extremes missed, resulting segment not monotone")
    sys.exit(1)
sys.exit(0)
