"""C13, sentence 2 (region semantics equal to polygon mode within 1 unit, transversal crossing).

A: a smooth blob of 6 cubics, B: a smooth blob of 3 quadratics (found by a random search
over such blobs; about 1 pair in 400 shows this).  The outlines cross twice, at about
84 and 60 degrees.  B's node N = (-17.034, -15.121) lies deep inside A.

Independent expectation: the outline of A u B contains no point that is inside A and
more than 1 unit from A's outline.  Below, with our own evaluation of A's cubics
(sampled every ~0.02 units), N is inside A (even-odd ray casting) and about 29 units
from A's outline; the polygon-mode union indeed stays clear of it.

The library: QuadraticBezier.flatten() (via sample()) ends each flattened piece with
whatever is left over, here an edge only ~0.01 long ending at the split point; clip()'s
reconstruction table is keyed by the end points truncated to the 0.01 grid, and the
little connecting edge that pyclipper produces between A's and B's (slightly different)
split points gets the same key as that left-over edge - so the whole piece of B from N
to the crossing, which is interior to A, is put into the union's outline.
"""
import math, sys
from beziers.path import BezierPath
from beziers.cubicbezier import CubicBezier
from beziers.quadraticbezier import QuadraticBezier
from beziers.point import Point

Ac = [[(16.40323945041007,-40.66104240581697),(22.382710098471037,-30.770086577101473),(23.040774280291124,-7.644789840274466),(16.862343183641904,1.523049811156536)],
      [(16.862343183641904,1.523049811156536),(10.683912086992684,10.690889462587538),(-7.790048970034805,14.371940548086613),(-20.667347129485247,14.34599550276904)],
      [(-20.667347129485247,14.34599550276904),(-33.54464528893569,14.320050457451465),(-54.33779628495608,10.99789794045905),(-60.40144577306075,1.3673795392510932)],
      [(-60.40144577306075,1.3673795392510932),(-66.46509526116543,-8.263138861956863),(-63.94707156950277,-33.57210412108077),(-57.04924405811329,-43.43711490447869)],
      [(-57.04924405811329,-43.43711490447869),(-50.15141654672381,-53.30212568787661),(-31.256561289477787,-58.285363910913404),(-19.014480704723894,-57.82268516113645)],
      [(-19.014480704723894,-57.82268516113645),(-6.772400119970001,-57.36000641135949),(10.423768802349102,-50.55199823453247),(16.40323945041007,-40.66104240581697)]]
Bq = [[(27.865963916063805,13.218422135915109),(-1.5795524810787125,8.64394419729016),(-17.03407106993008,-15.121393684145378)],
      [(-17.03407106993008,-15.121393684145378),(3.260928377058475,-37.33873012390484),(33.39794203964916,-39.333205659736315)],
      [(33.39794203964916,-39.333205659736315),(42.548458989803116,-12.54139128135191),(27.865963916063805,13.218422135915109)]]
A = BezierPath.fromSegments([CubicBezier(*[Point(*p) for p in c]) for c in Ac])
B = BezierPath.fromSegments([QuadraticBezier(*[Point(*p) for p in c]) for c in Bq])

def ev(c, t):                      # de Casteljau, any degree
    p = list(c)
    while len(p) > 1:
        p = [((1-t)*a[0] + t*b[0], (1-t)*a[1] + t*b[1]) for a, b in zip(p, p[1:])]
    return p[0]
ringA = [ev(c, i / 3000) for c in Ac for i in range(3000)]
def inside(p, ring):
    x, y = p; ins = False
    for (x1, y1), (x2, y2) in zip(ring, ring[1:] + ring[:1]):
        if (y1 > y) != (y2 > y) and x < x1 + (y - y1) * (x2 - x1) / (y2 - y1): ins = not ins
    return ins
def depth(p, ring):
    return min(math.hypot(p[0]-q[0], p[1]-q[1]) for q in ring)

N = Bq[1][0]
print("B's node N = %r: inside A: %s, distance to A's outline: %.2f" % (N, inside(N, ringA), depth(N, ringA)))
assert inside(N, ringA) and depth(N, ringA) > 25

def oncurve(paths):
    return [(q.x, q.y) for p in paths for sg in p.asSegments() for q in (sg.start, sg.end)]
flat = A.union(B, flat=True)
curve = A.union(B)
dflat = min(math.hypot(N[0]-x, N[1]-y) for x, y in oncurve(flat))
print("polygon mode    : %d path(s); nearest vertex to N is %.2f units away" % (len(flat), dflat))
print("curve-preserving: %d path(s):" % len(curve))
bad = []
for p in curve:
    for sg in p.asSegments():
        pts = [(q.x, q.y) for q in sg.points]
        mid = ev(pts, 0.5)
        d = depth(mid, ringA) if inside(mid, ringA) else 0.0
        flag = "   <-- its midpoint is %.1f units inside A" % d if d > 1 else ""
        if d > 1: bad.append((sg, d))
        print("    %s%s" % (sg, flag))
near = min(math.hypot(N[0]-x, N[1]-y) for x, y in oncurve(curve))
print("distance from N to the nearest on-curve point of the curve-preserving union: %.3g" % near)
if bad or near < 1:
    print("the union's outline runs through the interior of A, up to %.1f units deep (allowed: 1)" % max([depth(N, ringA)] + [d for _, d in bad]))
    print("VIOLATION")
    sys.exit(1)
