"""C13, sentence 2 (region semantics equal to polygon mode within 1 unit, transversal crossing).

A: the region to the right of the cubic (0,0) (-15,500) (1485,600) (1500,1000), closed by
   the lines (1500,1000)-(1500,0)-(0,0).  The cubic first swings LEFT of x=0: its x
   coordinate is minimal (-0.112) at t = 0.005 and is negative for 0 < t < 0.00995.
B: a pentagon-like shape whose first side is a cubic coming in from the left,
   (-300,5.98) (-200,30) (-100,-20) (-0.04,5.98): it crosses A's cubic almost at right
   angles near (-0.107, 5.98) and ends at a node 0.067 units inside A; B continues with
   straight lines to (400,50), (400,-300), (-300,-300) and back.

Independent expectation: A n B is part of B, and every control point of B has
x <= 400 and y <= 50, so no point of A n B may have x > 400 or y > 50 (+1 unit).
(That the crossing exists is checked below with our own evaluation of A's cubic:
 at the height of B's last node A's outline is at x = -0.107 < -0.04.)

The library: Segment.bounds() only uses extremes with 0.01 <= t <= 0.99, so the bounding
box of A's cubic starts at x = 0; B's cubic has bounds x <= -0.04; the bounding-box
pre-test of _curve_curve_intersections_t says 'no overlap', the crossing is never found,
clip() does not split A's cubic, and the reconstruction maps a 2-unit flattened edge of
it back to the WHOLE cubic, which runs to (1500,1000).
"""
import sys
from beziers.path import BezierPath
from beziers.cubicbezier import CubicBezier
from beziers.line import Line
from beziers.point import Point

def P(x, y): return Point(x, y)
def ev(c, t):
    m = 1 - t
    return tuple(m*m*m*c[0][i] + 3*m*m*t*c[1][i] + 3*m*t*t*c[2][i] + t*t*t*c[3][i] for i in (0, 1))

Ac = [(0, 0), (-15, 500), (1485, 600), (1500, 1000)]
xN, yN = -0.04, ev(Ac, 0.004)[1]
print("A's cubic at t=0.004: (%.4f, %.4f); B's node N = (%.4f, %.4f) is to its right, i.e. inside A" % (ev(Ac, 0.004) + (xN, yN)))
assert ev(Ac, 0.004)[0] < xN < 0
Bc = [(-300, yN), (-200, 30), (-100, -20), (xN, yN)]
A = BezierPath.fromSegments([CubicBezier(*[P(*p) for p in Ac]), Line(P(1500, 1000), P(1500, 0)), Line(P(1500, 0), P(0, 0))])
B = BezierPath.fromSegments([CubicBezier(*[P(*p) for p in Bc]), Line(P(xN, yN), P(400, 50)), Line(P(400, 50), P(400, -300)),
                             Line(P(400, -300), P(-300, -300)), Line(P(-300, -300), P(-300, yN))])
bx = max(p[0] for p in Bc + [(400, 50), (400, -300), (-300, -300)])
by = max(p[1] for p in Bc + [(400, 50), (400, -300), (-300, -300)])
print("B (hence A n B) lies in x <= %g, y <= %g" % (bx, by))
print("library: bounds of A's cubic:", A.asSegments()[0].bounds(), " bounds of B's cubic:", B.asSegments()[0].bounds())
print("library: intersections of the two cubics:", A.asSegments()[0].intersections(B.asSegments()[0]))

def extent(paths):
    xs, ys = [], []
    for p in paths:
        for sg in p.asSegments():
            xs += [sg.start.x, sg.end.x]; ys += [sg.start.y, sg.end.y]
    return max(xs), max(ys)
flat = A.intersection(B, flat=True)
curve = A.intersection(B)
print("polygon mode    : %d path(s), max on-curve x, y = %.2f, %.2f" % ((len(flat),) + extent(flat)))
print("curve-preserving: %d path(s), max on-curve x, y = %.2f, %.2f" % ((len(curve),) + extent(curve)))
for p in curve:
    for sg in p.asSegments(): print("    ", sg)
mx, my = extent(curve)
over = max(mx - bx, my - by)
print("curve-preserving intersection has an on-curve point %.1f units outside B (allowed: 1)" % over)
if over > 1.0:
    print("VIOLATION")
    sys.exit(1)
