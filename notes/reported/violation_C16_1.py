"""C16: "Regular sampling with n samples returns strictly increasing parameters
from exactly 0 to exactly 1 ... None of these queries fails for any valid t, n
or path length."

For a segment or path of length 0 (a line whose two ends coincide, a path made
of such pieces) regularSampleTValue returns the EMPTY list (early
`if length == 0: return []`), and regularSample returns no points at all,
while every other query of C16 (pointAtTime, lengthAtTime, sample) works on
the same object.  DEGENERATE input: whether length 0 is a "valid path length"
is the property owner's call.
"""
import sys
from beziers.point import Point
from beziers.line import Line
from beziers.cubicbezier import CubicBezier
from beziers.path import BezierPath

objs = [Line(Point(3, 4), Point(3, 4)),
        CubicBezier(Point(1, 1), Point(1, 1), Point(1, 1), Point(1, 1)),
        BezierPath.fromSegments([Line(Point(3, 4), Point(3, 4)), Line(Point(3, 4), Point(3, 4))])]
bad = 0
for o in objs:
    n = 5
    ts = o.regularSampleTValue(n)
    pts = o.regularSample(n)
    print("%r: length=%r  lengthAtTime(0)=%r lengthAtTime(1)=%r  pointAtTime(.5)=%r  sample(2)=%r"
          % (o.asSegments() if isinstance(o, BezierPath) else o, o.length, o.lengthAtTime(0),
             o.lengthAtTime(1), o.pointAtTime(0.5), o.sample(2)))
    print("   regularSampleTValue(%d) = %r, regularSample -> %d points ; expected a list starting "
          "with 0 and ending with 1 (at least [0, 1.0])" % (n, ts, len(pts)))
    if not ts or ts[0] != 0 or ts[-1] != 1:
        bad += 1
if bad:
    print("VIOLATION C16 (degenerate): no parameters returned for zero-length objects (%d)" % bad)
    sys.exit(1)
print("no violation")
