"""C14, extreme sizes: 'every control point is finite' / no exception.

(a) Finite points of magnitude 1e154: squared distances overflow to inf inside
    chordLengthParameterize / estimateLengths, the control points become nan, and
    computeMaxError's comparisons with nan are all False, so the nan fit is
    accepted as a perfect one.
(b) Distinct points 1e-170 apart: squareDistanceFrom underflows to 0, the chord
    length is 0 and chordLengthParameterize divides by it.
Expected (independent of the library): the inputs are finite and contain at least
two distinct points, so the property requires a finite chain from first to last point.
"""
import math, sys
from beziers.path import BezierPath
from beziers.point import Point
bad = False
s = 1e154
pts = [(0, 0), (s, 0), (s, s), (0, s), (s/2, s/2)]
assert all(math.isfinite(v) for p in pts for v in p) and len(set(pts)) >= 2
path = BezierPath.fromPoints([Point(*p) for p in pts], error=50.0, maxSegments=len(pts))
segs = path.asSegments()
print("(a) input:", pts)
print("    library returned:", segs)
nonfinite = [s_ for s_ in segs for p in s_.points if not (math.isfinite(p.x) and math.isfinite(p.y))]
print("    expected: all control points finite; non-finite segments found:", len(nonfinite))
if nonfinite: bad = True
t = 1e-170
pts = [(0, 0), (t, 0), (0, t)]
assert len(set(pts)) == 3
print("(b) input:", pts)
try:
    path = BezierPath.fromPoints([Point(*p) for p in pts], error=50.0, maxSegments=len(pts))
    print("    library returned:", path.asSegments())
except Exception as e:
    print("    library raised %s: %s ; expected a chain from %r to %r" % (type(e).__name__, e, pts[0], pts[-1]))
    bad = True
if bad:
    print("VIOLATION")
    sys.exit(1)
