"""C13, sentence 1, for a shape whose last segment does not return to the start
(BezierPath.fromSegments leaves closed=True; the contour is closed implicitly, as
asSVGPath's 'Z' does).  Domain-dependent: only counts if such a path is an admissible 'shape'.

A = three sides of the square (0,0)-(100,0)-(100,100)-(0,100); implicit closing side
    (0,100)-(0,0).   B = the rectangle [-10,50] x [20,80].
Independent expectation: A n B is the rectangle [0,50] x [20,80]; its outline consists
of pieces of the lines x=0 (A's closing side), x=50, y=20, y=80 (B).  In particular every
vertex and every edge midpoint of the result must lie on one of those four lines (to 0.01).

The library: clip() builds the polygon it hands to pyclipper from the START points of
the flattened segments only, so A's last vertex (0,100) is dropped and A becomes the
triangle (0,0),(100,0),(100,100): the result has an edge along the diagonal y = x,
which is no part of either input's outline.
"""
import sys
from beziers.path import BezierPath
from beziers.line import Line
from beziers.point import Point
P = Point
A = BezierPath.fromSegments([Line(P(0, 0), P(100, 0)), Line(P(100, 0), P(100, 100)), Line(P(100, 100), P(0, 100))])
B = BezierPath.fromSegments([Line(P(-10, 20), P(50, 20)), Line(P(50, 20), P(50, 80)), Line(P(50, 80), P(-10, 80)), Line(P(-10, 80), P(-10, 20))])
print("A.closed =", A.closed, " A as SVG:", A.asSVGPath())
res = A.intersection(B)
bad = []
for p in res:
    for sg in p.asSegments():
        print("   ", sg)
        for q in (sg.start, P((sg.start.x + sg.end.x) / 2, (sg.start.y + sg.end.y) / 2), sg.end):
            if min(abs(q.x), abs(q.x - 50), abs(q.y - 20), abs(q.y - 80)) > 0.011:
                bad.append(q)
print("expected vertices: (0,20) (50,20) (50,80) (0,80)")
if bad:
    print("result vertices / edge midpoints on none of the lines x=0, x=50, y=20, y=80:", bad)
    print("VIOLATION")
    sys.exit(1)
