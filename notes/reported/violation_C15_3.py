"""C15, last sentence: "For a line, a point that is farther than 1e-6 of the
line's length away from the line's carrier yields -1."

Line.tOfPoint accepts a point when it is within a FIXED 2e-7 of the point it
reconstructs, regardless of the line's length.  For any line shorter than
0.2 units, 1e-6*length < 2e-7, so points that are off the carrier by more than
the property allows are still given a parameter.
"""
import sys
from fractions import Fraction as F

from beziers.point import Point
from beziers.line import Line

cases = [
    # start, end, query point
    ((0.0, 0.0), (0.1, 0.0), (0.05, 1.5e-7)),
    ((0.0, 0.0), (0.01, 0.0), (0.005, 1e-7)),
    ((100.0, 200.0), (100.03, 200.04), (100.015 - 0.8e-7, 200.02 + 0.6e-7)),
]
bad = 0
for s, e, p in cases:
    dx, dy = F(e[0]) - F(s[0]), F(e[1]) - F(s[1])
    length = float(dx * dx + dy * dy) ** 0.5
    cross = (F(p[0]) - F(s[0])) * dy - (F(p[1]) - F(s[1])) * dx
    dist = abs(float(cross)) / length            # exact distance from the carrier
    r = Line(Point(*s), Point(*e)).tOfPoint(Point(*p))
    required = "-1" if dist > 1e-6 * length else "a parameter"
    print("Line %s -> %s  length=%.4g  point=%s  distance from carrier=%.3g  1e-6*length=%.3g"
          % (s, e, length, p, dist, 1e-6 * length))
    print("   library returned %r ; property requires %s" % (r, required))
    if dist > 1e-6 * length and r != -1:
        bad += 1
if bad:
    print("VIOLATION C15: off-carrier points accepted on short lines (%d cases)" % bad)
    sys.exit(1)
print("no violation")
