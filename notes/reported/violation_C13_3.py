"""C13: 'an empty intersection yields no paths'.

Two triangles on opposite sides of the diagonal x + y = const, separated by a gap:
  A = (-50, 49.995) (49.995, -50) (50, 50)      -> all of A satisfies x + y >= -0.005
  B = (-50.009, 50) (50, -50.009) (-50, -50)    -> all of B satisfies x + y <= -0.009
(x + y is linear, so its extreme values over a triangle are at the vertices; computed
below with exact fractions.)  The regions are disjoint: A n B is empty.

The library: clip() hands pyclipper the coordinates * 100 truncated TOWARDS ZERO
(49.995 -> 4999, -50.009 -> -5000), which moves A's diagonal side to x+y = -0.01 and
B's to x+y = 0: the truncated triangles overlap in a strip 100*sqrt(2) long, and the
'intersection' is returned as a path.
"""
import sys
from fractions import Fraction as F
from beziers.path import BezierPath
from beziers.line import Line
from beziers.point import Point

def poly(pts):
    return BezierPath.fromSegments([Line(Point(*pts[i]), Point(*pts[(i + 1) % len(pts)])) for i in range(len(pts))])
Ap = [("-50", "49.995"), ("49.995", "-50"), ("50", "50")]
Bp = [("-50.009", "50"), ("50", "-50.009"), ("-50", "-50")]
minA = min(F(x) + F(y) for x, y in Ap)
maxB = max(F(x) + F(y) for x, y in Bp)
print("min of x+y over A = %s ; max of x+y over B = %s" % (float(minA), float(maxB)))
assert maxB < minA
print("=> A and B are disjoint (gap %.5f units): the intersection is empty, expected result: []" % (float(minA - maxB) / 2 ** 0.5))
A = poly([(float(x), float(y)) for x, y in Ap])
B = poly([(float(x), float(y)) for x, y in Bp])
res = A.intersection(B)
print("library returned %d path(s):" % len(res))
for p in res:
    print("   ", p.asSegments())
if len(res) != 0:
    print("VIOLATION")
    sys.exit(1)
