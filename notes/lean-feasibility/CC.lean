import Mathlib.Algebra.Order.Field.Basic
import Mathlib.Tactic.Linarith
import Mathlib.Tactic.Ring
import Mathlib.Tactic.FieldSimp

/-! Feasibility spike for C06: completeness of the recursive curve/curve subdivision
    for ANY box function that encloses its piece. -/

variable {K : Type} [Field K] [LinearOrder K] [IsStrictOrderedRing K]
variable {Cv Pt Bx : Type}

structure CCEnv (K Cv Pt Bx : Type) where
  pt      : Cv → K → Pt
  split   : Cv → Cv × Cv
  box     : Cv → Bx
  inBox   : Pt → Bx → Prop
  overlap : Bx → Bx → Bool
  small   : Bx → Bool

structure CCEnv.OK [Field K] [LinearOrder K] (E : CCEnv K Cv Pt Bx) : Prop where
  split_l : ∀ c s, E.pt (E.split c).1 s = E.pt c (s / 2)
  split_r : ∀ c s, E.pt (E.split c).2 s = E.pt c ((1 + s) / 2)
  encl    : ∀ c s, 0 ≤ s → s ≤ 1 → E.inBox (E.pt c s) (E.box c)
  ov      : ∀ p b1 b2, E.inBox p b1 → E.inBox p b2 → E.overlap b1 b2 = true

/-- `_curve_curve_intersections_t` without the duplicate filter; ranges are (lo, hi) -/
def cc (E : CCEnv K Cv Pt Bx) : Nat → Cv → K × K → Cv → K × K → Option (List (K × K))
  | 0, _, _, _, _ => none
  | fuel + 1, a, ra, b, rb =>
    if !E.overlap (E.box a) (E.box b) then some []
    else if E.small (E.box a) && E.small (E.box b) then some [((ra.1 + ra.2) / 2, (rb.1 + rb.2) / 2)]
    else
      let ma := (ra.1 + ra.2) / 2
      let mb := (rb.1 + rb.2) / 2
      let a1 := (E.split a).1; let a2 := (E.split a).2
      let b1 := (E.split b).1; let b2 := (E.split b).2
      let go (x : Cv) (rx : K × K) (y : Cv) (ry : K × K) : Option (List (K × K)) :=
        if E.overlap (E.box x) (E.box y) then cc E fuel x rx y ry else some []
      do
        let r11 ← go a1 (ra.1, ma) b1 (rb.1, mb)
        let r12 ← go a1 (ra.1, ma) b2 (mb, rb.2)
        let r21 ← go a2 (ma, ra.2) b1 (rb.1, mb)
        let r22 ← go a2 (ma, ra.2) b2 (mb, rb.2)
        pure (r11 ++ r12 ++ r21 ++ r22)

/-- parameter `t'` of the whole curve lies within half the current range of the image of local `s` -/
def Near (r : K × K) (s t' : K) : Prop := |t' - (r.1 + s * (r.2 - r.1))| ≤ (r.2 - r.1) / 2

theorem near_mid (r : K × K) (s : K) (h : r.1 ≤ r.2) (h0 : 0 ≤ s) (h1 : s ≤ 1) :
    Near r s ((r.1 + r.2) / 2) := by
  unfold Near
  rw [abs_le]
  constructor <;> nlinarith

theorem near_left (r : K × K) (s t' : K) (h : Near (r.1, (r.1 + r.2) / 2) (2 * s) t') : Near r s t' := by
  unfold Near at *
  simp only at h
  have e : r.1 + 2 * s * ((r.1 + r.2) / 2 - r.1) = r.1 + s * (r.2 - r.1) := by ring
  rw [e] at h
  have : ((r.1 + r.2) / 2 - r.1) / 2 ≤ (r.2 - r.1) / 2 ∨ True := Or.inr trivial
  rw [abs_le] at *
  by_cases hr : r.1 ≤ r.2
  · constructor <;> nlinarith [h.1, h.2]
  · push_neg at hr
    exfalso
    have := h.1; have := h.2
    nlinarith

theorem near_right (r : K × K) (s t' : K) (h : Near ((r.1 + r.2) / 2, r.2) (2 * s - 1) t') : Near r s t' := by
  unfold Near at *
  simp only at h
  have e : (r.1 + r.2) / 2 + (2 * s - 1) * (r.2 - (r.1 + r.2) / 2) = r.1 + s * (r.2 - r.1) := by ring
  rw [e] at h
  rw [abs_le] at *
  by_cases hr : r.1 ≤ r.2
  · constructor <;> nlinarith [h.1, h.2]
  · push_neg at hr
    exfalso
    have := h.1; have := h.2
    nlinarith

theorem cc_complete (E : CCEnv K Cv Pt Bx) (hE : E.OK) :
    ∀ fuel a ra b rb out s u, ra.1 ≤ ra.2 → rb.1 ≤ rb.2 → 0 ≤ s → s ≤ 1 → 0 ≤ u → u ≤ 1 →
      E.pt a s = E.pt b u → cc E fuel a ra b rb = some out →
      ∃ p ∈ out, Near ra s p.1 ∧ Near rb u p.2 := by
  intro fuel
  induction fuel with
  | zero => intro a ra b rb out s u _ _ _ _ _ _ _ h; simp [cc] at h
  | succ fuel ih =>
    intro a ra b rb out s u hra hrb hs0 hs1 hu0 hu1 hpt h
    have hov : E.overlap (E.box a) (E.box b) = true :=
      hE.ov (E.pt a s) _ _ (hE.encl a s hs0 hs1) (by rw [hpt]; exact hE.encl b u hu0 hu1)
    unfold cc at h
    simp only [hov, Bool.not_true, Bool.false_eq_true, if_false] at h
    split at h
    · -- both small: midpoint reported
      simp at h; subst h
      exact ⟨_, List.mem_singleton.mpr rfl, near_mid ra s hra hs0 hs1, near_mid rb u hrb hu0 hu1⟩
    · -- subdivide: pick the halves containing s and u
      -- generic step for a chosen pair of halves
      have key : ∀ (x y : Cv) (rx ry : K × K) (s' u' : K), rx.1 ≤ rx.2 → ry.1 ≤ ry.2 →
          0 ≤ s' → s' ≤ 1 → 0 ≤ u' → u' ≤ 1 → E.pt x s' = E.pt y u' →
          ∀ r, (if E.overlap (E.box x) (E.box y) then cc E fuel x rx y ry else some []) = some r →
          ∃ p ∈ r, Near rx s' p.1 ∧ Near ry u' p.2 := by
        intro x y rx ry s' u' h1 h2 h3 h4 h5 h6 h7 r hr
        have hov' : E.overlap (E.box x) (E.box y) = true :=
          hE.ov (E.pt x s') _ _ (hE.encl x s' h3 h4) (by rw [h7]; exact hE.encl y u' h5 h6)
        rw [if_pos hov'] at hr
        exact ih x rx y ry r s' u' h1 h2 h3 h4 h5 h6 h7 hr
      -- name the four recursive results
      generalize h11 : (if E.overlap (E.box (E.split a).1) (E.box (E.split b).1) then
          cc E fuel (E.split a).1 (ra.1, (ra.1 + ra.2) / 2) (E.split b).1 (rb.1, (rb.1 + rb.2) / 2) else some []) = o11 at h
      generalize h12 : (if E.overlap (E.box (E.split a).1) (E.box (E.split b).2) then
          cc E fuel (E.split a).1 (ra.1, (ra.1 + ra.2) / 2) (E.split b).2 ((rb.1 + rb.2) / 2, rb.2) else some []) = o12 at h
      generalize h21 : (if E.overlap (E.box (E.split a).2) (E.box (E.split b).1) then
          cc E fuel (E.split a).2 ((ra.1 + ra.2) / 2, ra.2) (E.split b).1 (rb.1, (rb.1 + rb.2) / 2) else some []) = o21 at h
      generalize h22 : (if E.overlap (E.box (E.split a).2) (E.box (E.split b).2) then
          cc E fuel (E.split a).2 ((ra.1 + ra.2) / 2, ra.2) (E.split b).2 ((rb.1 + rb.2) / 2, rb.2) else some []) = o22 at h
      cases o11 with
      | none => simp [bind, Option.bind] at h
      | some r11 =>
      cases o12 with
      | none => simp [bind, Option.bind] at h
      | some r12 =>
      cases o21 with
      | none => simp [bind, Option.bind] at h
      | some r21 =>
      cases o22 with
      | none => simp [bind, Option.bind] at h
      | some r22 =>
      simp only [bind, Option.bind, pure, Option.some.injEq] at h
      subst h
      have hma : ra.1 ≤ (ra.1 + ra.2) / 2 ∧ (ra.1 + ra.2) / 2 ≤ ra.2 := by constructor <;> linarith
      have hmb : rb.1 ≤ (rb.1 + rb.2) / 2 ∧ (rb.1 + rb.2) / 2 ≤ rb.2 := by constructor <;> linarith
      rcases le_total s (1 / 2) with hsl | hsr <;> rcases le_total u (1 / 2) with hul | hur
      · obtain ⟨p, hp, n1, n2⟩ := key _ _ (ra.1, (ra.1 + ra.2) / 2) (rb.1, (rb.1 + rb.2) / 2) (2 * s) (2 * u)
          hma.1 hmb.1 (by linarith) (by linarith) (by linarith) (by linarith)
          (by rw [hE.split_l, hE.split_l]; simpa using hpt) r11 h11
        exact ⟨p, by simp [hp], near_left ra s p.1 n1, near_left rb u p.2 n2⟩
      · obtain ⟨p, hp, n1, n2⟩ := key _ _ (ra.1, (ra.1 + ra.2) / 2) ((rb.1 + rb.2) / 2, rb.2) (2 * s) (2 * u - 1)
          hma.1 hmb.2 (by linarith) (by linarith) (by linarith) (by linarith)
          (by rw [hE.split_l, hE.split_r]; have : (1 + (2 * u - 1)) / 2 = u := by ring
              rw [this]; simpa using hpt) r12 h12
        exact ⟨p, by simp [hp], near_left ra s p.1 n1, near_right rb u p.2 n2⟩
      · obtain ⟨p, hp, n1, n2⟩ := key _ _ ((ra.1 + ra.2) / 2, ra.2) (rb.1, (rb.1 + rb.2) / 2) (2 * s - 1) (2 * u)
          hma.2 hmb.1 (by linarith) (by linarith) (by linarith) (by linarith)
          (by rw [hE.split_r, hE.split_l]; have : (1 + (2 * s - 1)) / 2 = s := by ring
              rw [this]; simpa using hpt) r21 h21
        exact ⟨p, by simp [hp], near_right ra s p.1 n1, near_left rb u p.2 n2⟩
      · obtain ⟨p, hp, n1, n2⟩ := key _ _ ((ra.1 + ra.2) / 2, ra.2) ((rb.1 + rb.2) / 2, rb.2) (2 * s - 1) (2 * u - 1)
          hma.2 hmb.2 (by linarith) (by linarith) (by linarith) (by linarith)
          (by rw [hE.split_r, hE.split_r]
              have e1 : (1 + (2 * s - 1)) / 2 = s := by ring
              have e2 : (1 + (2 * u - 1)) / 2 = u := by ring
              rw [e1, e2]; exact hpt) r22 h22
        exact ⟨p, by simp [hp], near_right ra s p.1 n1, near_right rb u p.2 n2⟩
#print axioms cc_complete
