-- Feasibility spike for C07: heap model with object identities; clone independence as a frame property.
-- Core Lean only.
abbrev OId := Nat

structure SegObj (P : Type) where
  pts : List P          -- 2, 3 or 4 control points; the Python attribute `points`

structure Heap (P : Type) where
  lists : OId → Option (List OId)      -- Python list objects holding segment references
  segs  : OId → Option (SegObj P)     -- segment objects
  next  : OId                          -- allocation pointer: every id ≥ next is free

structure Path where
  rep : OId              -- id of the list object inside the active SegmentRepresentation
  closed : Bool

variable {P : Type}

namespace Heap
def Fresh (h : Heap P) : Prop :=
  (∀ i, h.next ≤ i → h.lists i = none) ∧ (∀ i, h.next ≤ i → h.segs i = none) ∧
  (∀ l ids, h.lists l = some ids → ∀ s ∈ ids, s < h.next ∧ (h.segs s).isSome)

/-- allocate one segment object -/
def allocSeg (h : Heap P) (o : SegObj P) : Heap P × OId :=
  ({ h with segs := fun i => if i = h.next then some o else h.segs i, next := h.next + 1 }, h.next)

/-- allocate a list object -/
def allocList (h : Heap P) (ids : List OId) : Heap P × OId :=
  ({ h with lists := fun i => if i = h.next then some ids else h.lists i, next := h.next + 1 }, h.next)

/-- allocate copies (by a point map f) of the segment objects `ids`, returning the new ids -/
def allocMap (f : P → P) : Heap P → List OId → Heap P × List OId
  | h, [] => (h, [])
  | h, s :: rest =>
    match h.segs s with
    | none => allocMap f h rest        -- dangling id: cannot happen under Fresh
    | some o =>
      let (h1, n) := h.allocSeg ⟨o.pts.map f⟩
      let (h2, ns) := allocMap f h1 rest
      (h2, n :: ns)

/-- observation: the value of a path (list of control-point lists) -/
def obs (h : Heap P) (p : Path) : Option (List (List P)) :=
  (h.lists p.rep).map (fun ids => ids.filterMap (fun s => (h.segs s).map (·.pts)))

/-- `BezierPath.translate`-like operations: new segment objects, new list object -/
def mapOp (f : P → P) (h : Heap P) (p : Path) : Heap P × Path :=
  match h.lists p.rep with
  | none => (h, p)
  | some ids =>
    let (h1, ns) := allocMap f h ids
    let (h2, l) := h1.allocList ns
    (h2, { p with rep := l })

/-- `BezierPath.round`: mutate every segment object in place, keep the same list object -/
def roundOp (r : P → P) (h : Heap P) (p : Path) : Heap P :=
  match h.lists p.rep with
  | none => h
  | some ids =>
    { h with segs := fun i => if i ∈ ids then (h.segs i).map (fun o => ⟨o.pts.map r⟩) else h.segs i }

/-- clone as on the PINNED tree: a new path sharing the same list object -/
def clonePinned (h : Heap P) (p : Path) : Heap P × Path := (h, { rep := p.rep, closed := p.closed })

/-- clone after F6: new list, new segment objects -/
def cloneFixed (h : Heap P) (p : Path) : Heap P × Path := mapOp id h p

def segIds (h : Heap P) (p : Path) : List OId := (h.lists p.rep).getD []

/-- separation of two paths -/
def Sep (h : Heap P) (p q : Path) : Prop :=
  p.rep ≠ q.rep ∧ ∀ s, s ∈ h.segIds p → s ∉ h.segIds q
end Heap

open Heap

theorem filterMap_congr' {α β : Type} {f g : α → Option β} :
    ∀ l : List α, (∀ a ∈ l, f a = g a) → l.filterMap f = l.filterMap g := by
  intro l
  induction l with
  | nil => intro _; rfl
  | cons a l ih =>
    intro h
    have ha := h a (by simp)
    have hl := ih (fun b hb => h b (by simp [hb]))
    simp [List.filterMap_cons, ha, hl]

/-- frame property of `round`: a path separated from the receiver is not affected -/
theorem round_frame (r : P → P) (h : Heap P) (p q : Path) (hsep : Sep h p q) :
    obs (roundOp r h p) q = obs h q := by
  unfold roundOp
  cases hl : h.lists p.rep with
  | none => simp
  | some ids =>
    simp only [obs]
    cases hq : h.lists q.rep with
    | none => simp
    | some qids =>
      simp only [Option.map_some]
      congr 1
      apply filterMap_congr'
      intro s hs
      have : s ∉ ids := by
        intro hin
        have h1 : s ∈ h.segIds p := by simp [segIds, hl, hin]
        have h2 : s ∈ h.segIds q := by simp [segIds, hq, hs]
        exact hsep.2 s h1 h2
      simp [this]

/-- the pinned clone is NOT independent: concrete witness on a two-point "segment" over Int -/
def h0 : Heap Int := { lists := fun i => if i = 0 then some [1] else none,
                       segs := fun i => if i = 1 then some ⟨[15, 25]⟩ else none, next := 2 }
def p0 : Path := { rep := 0, closed := false }
example : let (h1, c) := clonePinned h0 p0
          obs (roundOp (fun x => x / 10 * 10) h1 c) p0 ≠ obs h1 p0 := by decide
#print axioms round_frame
