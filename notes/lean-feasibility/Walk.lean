import Mathlib.Algebra.Order.Field.Basic
import Mathlib.Tactic.Linarith

/-! Feasibility spike for C16: regularSampleTValue with the float stepping as a DEMONIC parameter.
    `lut` is any list of (t, length-so-far) with first entry (0, 0); `targets` any list of desired
    lengths starting at 0. -/
variable {K : Type} [Field K] [LinearOrder K] [IsStrictOrderedRing K]

/-- the inner `while len(lut) > 0 and lut[0][1] < desiredLength: lut.pop(0)` -/
def popWhile (d : K) : List (K × K) → List (K × K)
  | [] => []
  | e :: rest => if e.2 < d then popWhile d rest else e :: rest

/-- the outer `while desiredLength < length` loop over an arbitrary target sequence -/
def walk : List (K × K) → List K → List K
  | _, [] => []
  | lut, d :: ds =>
    match popWhile d lut with
    | [] => []                       -- `if len(lut) == 0: break`
    | e :: rest => e.1 :: walk (e :: rest) ds

/-- final step: `if rSamples[-1] != 1.0: rSamples.append(1.0)`; `none` models the IndexError on [] -/
def finish (r : List K) : Option (List K) :=
  match r.getLast? with
  | none => none
  | some l => if l = 1 then some r else some (r ++ [1])

def regular (lut : List (K × K)) (targets : List K) : Option (List K) := finish (walk lut targets)

theorem popWhile_suffix (d : K) (l : List (K × K)) : popWhile d l <:+ l := by
  induction l with
  | nil => simp [popWhile]
  | cons e rest ih =>
    simp only [popWhile]
    split
    · exact ih.trans (List.suffix_cons e rest)
    · exact List.suffix_refl _

/-- every selected parameter is a LUT parameter -/
theorem walk_mem (lut : List (K × K)) (ts : List K) : ∀ t ∈ walk lut ts, ∃ e ∈ lut, e.1 = t := by
  induction ts generalizing lut with
  | nil => simp [walk]
  | cons d ds ih =>
    intro t ht
    simp only [walk] at ht
    have hsuf := popWhile_suffix d lut
    cases hp : popWhile d lut with
    | nil => simp [hp] at ht
    | cons e rest =>
      rw [hp] at hsuf
      simp only [hp, List.mem_cons] at ht
      rcases ht with rfl | ht
      · exact ⟨e, hsuf.subset (by simp), rfl⟩
      · obtain ⟨e', he', h⟩ := ih (e :: rest) t ht
        exact ⟨e', hsuf.subset he', h⟩

/-- selected parameters are non-decreasing when the LUT parameters are -/
theorem walk_sorted (lut : List (K × K)) (ts : List K) (hs : (lut.map (·.1)).Pairwise (· ≤ ·)) :
    (walk lut ts).Pairwise (· ≤ ·) := by
  induction ts generalizing lut with
  | nil => simp [walk]
  | cons d ds ih =>
    simp only [walk]
    have hsuf := popWhile_suffix d lut
    cases hp : popWhile d lut with
    | nil => simp
    | cons e rest =>
      rw [hp] at hsuf
      have hs' : ((e :: rest).map (·.1)).Pairwise (· ≤ ·) :=
        List.Pairwise.sublist ((List.IsSuffix.map _ hsuf).sublist) hs
      simp only [List.pairwise_cons]
      refine ⟨?_, ih (e :: rest) hs'⟩
      intro t ht
      obtain ⟨e', he', rfl⟩ := walk_mem (e :: rest) ds t ht
      simp only [List.map_cons, List.pairwise_cons] at hs'
      rcases List.mem_cons.mp he' with rfl | h
      · exact le_refl _
      · exact hs'.1 _ (List.mem_map_of_mem h)

/-- no IndexError, first sample is exactly 0, last is exactly 1 — for every stepping behaviour -/
theorem regular_total (rest : List (K × K)) (ds : List K) :
    ∃ r, regular ((0, 0) :: rest) (0 :: ds) = some r ∧ r.head? = some 0 ∧ r.getLast? = some 1 := by
  have h0 : popWhile (0 : K) ((0, 0) :: rest) = (0, 0) :: rest := by simp [popWhile]
  have hw : walk ((0, 0) :: rest) (0 :: ds) = 0 :: walk ((0, 0) :: rest) ds := by simp [walk, h0]
  unfold regular finish
  rw [hw]
  cases hl : (0 :: walk ((0, 0) :: rest) ds).getLast? with
  | none => simp at hl
  | some l =>
    simp only
    split
    · rename_i h1; subst h1; exact ⟨_, rfl, by simp, hl⟩
    · refine ⟨_, rfl, by simp, ?_⟩
      exact List.getLast?_concat (l := 0 :: walk ((0, 0) :: rest) ds) (a := 1)
#print axioms regular_total
#print axioms walk_sorted
