-- Feasibility spike for C08: segments <-> node list (hand model H), core Lean only
inductive NType | line | curve | offcurve
deriving DecidableEq, Repr

structure Node (P : Type) where
  p : P
  ty : NType
deriving Repr

inductive Seg (P : Type)
  | line (a b : P)
  | quad (a c b : P)
  | cubic (a c1 c2 b : P)
deriving Repr, DecidableEq

namespace Seg
variable {P : Type}
def start : Seg P → P
  | line a _ => a | quad a _ _ => a | cubic a _ _ _ => a
def «end» : Seg P → P
  | line _ b => b | quad _ _ b => b | cubic _ _ _ b => b
/-- nodes contributed by a segment after its start (Segment.py:29-38) -/
def tailNodes : Seg P → List (Node P)
  | line _ b => [⟨b, .line⟩]
  | quad _ c b => [⟨c, .offcurve⟩, ⟨b, .curve⟩]
  | cubic _ c1 c2 b => [⟨c1, .offcurve⟩, ⟨c2, .offcurve⟩, ⟨b, .curve⟩]
def firstType : Seg P → NType
  | line _ _ => .line | _ => .curve
end Seg

variable {P : Type}

/-- SegmentRepresentation.toNodelist -/
def toNodelist : List (Seg P) → Option (List (Node P))
  | [] => none   -- IndexError in Python
  | s :: rest => some (⟨s.start, s.firstType⟩ :: (s :: rest).flatMap Seg.tailNodes)

/-- appendSegment: 2,3,4 points -> segment, else ValueError -/
def mkSeg : List P → Option (Seg P)
  | [a, b] => some (.line a b)
  | [a, c, b] => some (.quad a c b)
  | [a, c1, c2, b] => some (.cubic a c1 c2 b)
  | _ => none

/-- the scanning loop of fromNodelist: `buf` is the pending point list (Segment.py:62-68) -/
def scan : List P → List (Node P) → Option (List (Seg P) × List P)
  | buf, [] => some ([], buf)
  | buf, n :: ns =>
    match n.ty with
    | .offcurve => scan (buf ++ [n.p]) ns
    | _ => do
        let s ← mkSeg (buf ++ [n.p])
        let (ss, b) ← scan [n.p] ns
        pure (s :: ss, b)

/-- open-path fromNodelist when the first node is on-curve -/
def fromNodelistOpen : List (Node P) → Option (List (Seg P))
  | [] => none
  | n :: ns => if n.ty = .offcurve then none else (scan [n.p] ns).map (·.1)

def Chain : List (Seg P) → Prop
  | [] => True
  | [_] => True
  | a :: b :: rest => a.end = b.start ∧ Chain (b :: rest)

theorem scan_tail (s : Seg P) (ns : List (Node P)) :
    scan [s.start] (s.tailNodes ++ ns) = (scan [s.end] ns).map (fun r => (s :: r.1, r.2)) := by
  cases s <;> simp [Seg.tailNodes, scan, mkSeg, Seg.start, Seg.end, Option.map, bind, Option.bind] <;>
    cases scan _ ns <;> simp

theorem scan_chain : ∀ (segs : List (Seg P)) (p : P), Chain segs → (∀ s, segs.head? = some s → s.start = p) →
    scan [p] (segs.flatMap Seg.tailNodes) = some (segs, [match segs.getLast? with | some s => s.end | none => p]) := by
  intro segs
  induction segs with
  | nil => intro p _ _; simp [scan]
  | cons s rest ih =>
    intro p hc hs
    have hp : s.start = p := hs s rfl
    subst hp
    simp only [List.flatMap_cons]
    rw [scan_tail]
    have hc' : Chain rest := by
      cases rest with
      | nil => trivial
      | cons b r => exact hc.2
    have hs' : ∀ t, rest.head? = some t → t.start = s.end := by
      intro t ht
      cases rest with
      | nil => simp at ht
      | cons b r => simp at ht; subst ht; exact hc.1.symm
    rw [ih s.end hc' hs']
    cases rest with
    | nil => simp
    | cons b r =>
      have hl : (b :: r).getLast? = some ((b :: r).getLast (by simp)) := List.getLast?_eq_some_getLast (by simp)
      simp [List.getLast?_cons_cons, hl]

theorem roundtrip_open (segs : List (Seg P)) (hne : segs ≠ []) (hc : Chain segs) :
    (toNodelist segs).bind fromNodelistOpen = some segs := by
  cases segs with
  | nil => exact absurd rfl hne
  | cons s rest =>
    have h := scan_chain (s :: rest) s.start hc (by intro t ht; simp at ht; subst ht; rfl)
    simp only [toNodelist, Option.bind, fromNodelistOpen]
    have : (s.firstType = NType.offcurve) = False := by cases s <;> simp [Seg.firstType]
    simp only [this, if_false]
    rw [h]; rfl
#print axioms roundtrip_open
