-- Feasibility spike for C12: rebuilding a closed contour from a clipper polygon (after F10).
variable {V : Type}

/-- `pairwise(points)`: consecutive pairs -/
def edges : List V → List (V × V)
  | a :: b :: rest => (a, b) :: edges (b :: rest)
  | _ => []

/-- after F10: `pairwise(list(p) + [p[0]])`; the pinned code is `edges p` -/
def recon : List V → List (V × V)
  | [] => []
  | a :: rest => edges (a :: rest ++ [a])

def Chain : List (V × V) → Prop
  | [] => True
  | [_] => True
  | e :: f :: rest => e.2 = f.1 ∧ Chain (f :: rest)

theorem edges_length : ∀ (a : V) (l : List V), (edges (a :: l)).length = l.length
  | _, [] => rfl
  | a, b :: l => by simp [edges, edges_length b l]

theorem edges_chain : ∀ (l : List V), Chain (edges l)
  | [] => trivial
  | [_] => trivial
  | [_, _] => trivial
  | a :: b :: c :: l => by
    have := edges_chain (b :: c :: l)
    simp only [edges, Chain] at this ⊢
    exact ⟨trivial, this⟩

theorem edges_head (a b : V) (l : List V) : (edges (a :: b :: l)).head? = some (a, b) := rfl

theorem edges_last : ∀ (a : V) (l : List V) (z : V), ((edges (a :: l ++ [z])).getLast?).map (·.2) = some z
  | a, [], z => rfl
  | a, b :: l, z => by
    have ih := edges_last b l z
    simp only [List.cons_append, edges] at ih ⊢
    cases h : edges (b :: (l ++ [z])) with
    | nil =>
      cases l <;> simp [edges] at h
    | cons e es =>
      rw [h] at ih
      simpa [List.getLast?_cons_cons] using ih

/-- every rebuilt contour has one edge per vertex, is connected, starts at the first vertex and
    its last edge returns there: the closing edge is present -/
theorem recon_closed (a : V) (rest : List V) :
    (recon (a :: rest)).length = (a :: rest).length ∧ Chain (recon (a :: rest)) ∧
    ((recon (a :: rest)).head?).map (·.1) = some a ∧ ((recon (a :: rest)).getLast?).map (·.2) = some a := by
  refine ⟨?_, edges_chain _, ?_, ?_⟩
  · simp [recon, edges_length]
  · cases rest with
    | nil => rfl
    | cons b l => rfl
  · exact edges_last a rest a

/-- the pinned code (no wrap-around) loses the closing edge: a triangle gets 2 edges -/
example : (edges [1, 2, 3]).length = 2 ∧ ((edges [1, 2, 3]).getLast?).map (·.2) ≠ some 1 := by decide
#print axioms recon_closed
