-- Feasibility spike for C19: the event loop of bbox_intersections, abstract event order.
-- Core Lean only.
structure Obj where
  side : Bool     -- false = from seta, true = from setb
  idx : Nat
deriving DecidableEq, Repr

inductive Ev
  | add (o : Obj)
  | rem (o : Obj)
deriving DecidableEq, Repr

structure St where
  actA : List Obj
  actB : List Obj
  out : List (Obj × Obj)

variable (ov : Obj → Obj → Bool)

/-- one instruction of the loop at linesweep.py:39-40 (add_to / remove_from) -/
def step (s : St) : Ev → St
  | .add o =>
    if o.side = false then
      { actA := s.actA ++ [o], actB := s.actB,
        out := s.out ++ (s.actB.filter (fun o2 => ov o o2)).map (fun o2 => (o, o2)) }
    else
      { actA := s.actA, actB := s.actB ++ [o],
        out := s.out ++ (s.actA.filter (fun o2 => ov o o2)).map (fun o2 => (o, o2)) }
  | .rem o =>
    if o.side = false then { s with actA := s.actA.filter (· ≠ o) }
    else { s with actB := s.actB.filter (· ≠ o) }

def run (evs : List Ev) : St := evs.foldl (step ov) ⟨[], [], []⟩

/-- `x` occurs strictly before `y` in `l` -/
def Before (x y : Ev) (l : List Ev) : Prop := ∃ l1 l2 l3, l = l1 ++ x :: l2 ++ y :: l3

theorem foldl_step_out_mono (s : St) (evs : List Ev) (p : Obj × Obj) (h : p ∈ s.out) :
    p ∈ (evs.foldl (step ov) s).out := by
  induction evs generalizing s with
  | nil => exact h
  | cons e es ih =>
    apply ih
    cases e with
    | add o => simp only [step]; split <;> simp [h]
    | rem o => simp only [step]; split <;> exact h

/-- soundness: every emitted pair overlaps and joins the two sides -/
theorem sound (evs : List Ev) :
    ∀ s : St, (∀ o ∈ s.actA, o.side = false) → (∀ o ∈ s.actB, o.side = true) →
      (∀ p ∈ s.out, ov p.1 p.2 = true ∧ p.1.side ≠ p.2.side) →
      ∀ p ∈ (evs.foldl (step ov) s).out, ov p.1 p.2 = true ∧ p.1.side ≠ p.2.side := by
  induction evs with
  | nil => intro s _ _ h; exact h
  | cons e es ih =>
    intro s hA hB hout
    apply ih
    · cases e with
      | add o => simp only [step]; split
                 · rename_i hs; intro x hx; simp at hx; rcases hx with hx | hx; exact hA x hx; subst hx; exact hs
                 · exact hA
      | rem o => simp only [step]; split
                 · intro x hx; simp at hx; exact hA x hx.1
                 · exact hA
    · cases e with
      | add o => simp only [step]; split
                 · exact hB
                 · rename_i hs; intro x hx; simp at hx; rcases hx with hx | hx; exact hB x hx; subst hx; simpa using hs
      | rem o => simp only [step]; split
                 · exact hB
                 · intro x hx; simp at hx; exact hB x hx.1
    · cases e with
      | add o =>
        simp only [step]; split
        · rename_i hs
          intro p hp; simp at hp
          rcases hp with hp | ⟨o2, ⟨ho2, hov⟩, rfl⟩
          · exact hout p hp
          · exact ⟨hov, by simp [hs, hB o2 ho2]⟩
        · rename_i hs
          intro p hp; simp at hp
          rcases hp with hp | ⟨o2, ⟨ho2, hov⟩, rfl⟩
          · exact hout p hp
          · have : o.side = true := by simpa using hs
            exact ⟨hov, by simp [this, hA o2 ho2]⟩
      | rem o => simp only [step]; split <;> exact hout
#print axioms sound

def active (s : St) (o : Obj) : Prop := if o.side = false then o ∈ s.actA else o ∈ s.actB

theorem active_after_add (s : St) (o : Obj) : active (step ov s (.add o)) o := by
  unfold active step
  by_cases h : o.side = false <;> simp [h]

theorem active_preserved (s : St) (o : Obj) (e : Ev) (he : e ≠ .rem o) (h : active s o) :
    active (step ov s e) o := by
  unfold active at *
  cases e with
  | add o' =>
    simp only [step]
    by_cases h1 : o.side = false <;> by_cases h2 : o'.side = false <;> simp_all
  | rem o' =>
    have hne : o ≠ o' := by intro hh; apply he; rw [hh]
    simp only [step]
    by_cases h1 : o.side = false <;> by_cases h2 : o'.side = false <;> simp_all

theorem active_foldl (l : List Ev) (o : Obj) (hl : Ev.rem o ∉ l) :
    ∀ s, active s o → active (l.foldl (step ov) s) o := by
  induction l with
  | nil => intro s h; exact h
  | cons e es ih =>
    intro s h
    simp only [List.foldl_cons]
    apply ih (by intro hh; exact hl (by simp [hh]))
    exact active_preserved ov s o e (by intro hh; exact hl (by simp [hh])) h

/-- completeness core: if `x` is added, not removed during `l2`, and then `y` from the other side is
added while their boxes overlap, the pair is reported -/
theorem complete_core (l1 l2 l3 : List Ev) (x y : Obj) (hside : x.side ≠ y.side)
    (hov : ov y x = true) (hnr : Ev.rem x ∉ l2) :
    (y, x) ∈ (run ov (l1 ++ Ev.add x :: l2 ++ Ev.add y :: l3)).out := by
  unfold run
  rw [List.foldl_append, List.foldl_cons, List.foldl_append, List.foldl_cons]
  apply foldl_step_out_mono
  generalize l1.foldl (step ov) ⟨[], [], []⟩ = s1
  have hact : active (l2.foldl (step ov) (step ov s1 (.add x))) x :=
    active_foldl ov l2 x hnr _ (active_after_add ov s1 x)
  generalize l2.foldl (step ov) (step ov s1 (.add x)) = s2 at hact ⊢
  unfold active at hact
  simp only [step]
  by_cases hy : y.side = false
  · have hx : x.side = true := by
      cases hxs : x.side with
      | true => rfl
      | false => exact absurd (hxs.trans hy.symm) hside
    simp [hy, hx] at hact ⊢
    right; exact ⟨hact, hov⟩
  · have hy' : y.side = true := by simpa using hy
    have hx : x.side = false := by
      cases hxs : x.side with
      | false => rfl
      | true => exact absurd (hxs.trans hy'.symm) hside
    simp [hy, hx] at hact ⊢
    right; exact ⟨hact, hov⟩
#print axioms complete_core
