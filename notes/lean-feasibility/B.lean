import Mathlib.Tactic.Ring
import Mathlib.Tactic.Linarith
import Mathlib.Tactic.LinearCombination
import Mathlib.Tactic.FieldSimp
import Mathlib.Analysis.SpecialFunctions.Sqrt

noncomputable def qroots (a b c : ℝ) : List ℝ :=
  if a ≠ 0 ∧ b * b - 4 * a * c > 0 then
    let x := -b / (2 * a)
    let y := Real.sqrt (b * b - 4 * a * c) / (2 * a)
    (if 0 ≤ x - y ∧ x - y ≤ 1 then [x - y] else []) ++ (if 0 ≤ x + y ∧ x + y ≤ 1 then [x + y] else [])
  else []

theorem root_minus (a b c s : ℝ) (ha : a ≠ 0) (hs : s * s = b * b - 4 * a * c) :
    a * (-b / (2 * a) - s / (2 * a)) * (-b / (2 * a) - s / (2 * a)) + b * (-b / (2 * a) - s / (2 * a)) + c = 0 := by
  field_simp
  linear_combination hs

theorem root_plus (a b c s : ℝ) (ha : a ≠ 0) (hs : s * s = b * b - 4 * a * c) :
    a * (-b / (2 * a) + s / (2 * a)) * (-b / (2 * a) + s / (2 * a)) + b * (-b / (2 * a) + s / (2 * a)) + c = 0 := by
  field_simp
  linear_combination hs

theorem qroots_sound (a b c t : ℝ) (h : t ∈ qroots a b c) : a * t * t + b * t + c = 0 ∧ 0 ≤ t ∧ t ≤ 1 := by
  unfold qroots at h
  split_ifs at h with h1
  · obtain ⟨ha, hd⟩ := h1
    have hs := Real.mul_self_sqrt (le_of_lt hd)
    simp only [List.mem_append] at h
    rcases h with h | h
    · split_ifs at h with h2
      · simp at h; subst h
        exact ⟨root_minus a b c _ ha hs, h2.1, h2.2⟩
      · simp at h
    · split_ifs at h with h2
      · simp at h; subst h
        exact ⟨root_plus a b c _ ha hs, h2.1, h2.2⟩
      · simp at h
  · simp at h

-- completeness: any root in [0,1] with a ≠ 0 and disc > 0 is found
theorem qroots_complete (a b c t : ℝ) (ha : a ≠ 0) (hd : b * b - 4 * a * c > 0)
    (ht : a * t * t + b * t + c = 0) (h0 : 0 ≤ t) (h1 : t ≤ 1) : t ∈ qroots a b c := by
  have hs := Real.mul_self_sqrt (le_of_lt hd)
  set s := Real.sqrt (b * b - 4 * a * c) with hsdef
  -- (2 a t + b)^2 = s^2
  have hsq : (2 * a * t + b) * (2 * a * t + b) = s * s := by rw [hs]; linear_combination 4 * a * ht
  have hcases : 2 * a * t + b = s ∨ 2 * a * t + b = -s := by
    have := mul_self_eq_mul_self_iff.mp hsq
    exact this
  unfold qroots
  rw [if_pos ⟨ha, hd⟩]
  simp only [List.mem_append]
  rcases hcases with h | h
  · right
    have : t = -b / (2 * a) + s / (2 * a) := by field_simp; linear_combination h
    rw [← hsdef, ← this, if_pos ⟨h0, h1⟩]; simp
  · left
    have : t = -b / (2 * a) - s / (2 * a) := by field_simp; linear_combination h
    rw [← hsdef, ← this, if_pos ⟨h0, h1⟩]; simp
#print axioms qroots_sound
#print axioms qroots_complete
