import Mathlib.Analysis.Calculus.LocalExtr.Basic
import Mathlib.Topology.Order.Compact

open Set

/-- On [0,1] a differentiable function is bounded above by its value at an end point or at an
interior critical point. (Feasibility spike for C02 `enclosure_exact`.) -/
theorem le_end_or_critical (f f' : ℝ → ℝ) (hd : ∀ x, HasDerivAt f (f' x) x) (t : ℝ) (ht : t ∈ Icc (0:ℝ) 1) :
    ∃ e ∈ Icc (0:ℝ) 1, (e = 0 ∨ e = 1 ∨ f' e = 0) ∧ f t ≤ f e := by
  have hcont : ContinuousOn f (Icc 0 1) := fun x _ => (hd x).continuousAt.continuousWithinAt
  obtain ⟨m, hm, hmax⟩ := isCompact_Icc.exists_isMaxOn ⟨t, ht⟩ hcont
  refine ⟨m, hm, ?_, hmax ht⟩
  by_cases h0 : m = 0
  · exact Or.inl h0
  by_cases h1 : m = 1
  · exact Or.inr (Or.inl h1)
  right; right
  have hlt : 0 < m := lt_of_le_of_ne hm.1 (Ne.symm h0)
  have hlt1 : m < 1 := lt_of_le_of_ne hm.2 h1
  have hnhds : Icc (0:ℝ) 1 ∈ nhds m := Icc_mem_nhds hlt hlt1
  have hloc : IsLocalMax f m := hmax.isLocalMax hnhds
  exact hloc.hasDerivAt_eq_zero (hd m)
#print axioms le_end_or_critical
