import Mathlib.Tactic.Ring
import Mathlib.Tactic.FieldSimp
import Mathlib.Algebra.Field.Basic
variable {K : Type} [Field K] [Inhabited K]

def invert (m00 m01 m02 m10 m11 m12 m20 m21 m22 : K) : List K :=
  let v0 := m11 * m22
  let v1 := m21 * m12
  let v2 := v0 - v1
  let v3 := m12 * m21
  let v4 := v0 - v3
  let v5 := m00 * v4
  let v6 := m10 * m22
  let v7 := m12 * m20
  let v8 := v6 - v7
  let v9 := m01 * v8
  let v10 := v5 - v9
  let v11 := m10 * m21
  let v12 := m11 * m20
  let v13 := v11 - v12
  let v14 := m02 * v13
  let v15 := v10 + v14
  let v16 := v2 / v15
  let v17 := m21 * m02
  let v18 := m01 * m22
  let v19 := v17 - v18
  let v20 := v19 / v15
  let v21 := m01 * m12
  let v22 := m11 * m02
  let v23 := v21 - v22
  let v24 := v23 / v15
  let v25 := v7 - v6
  let v26 := v25 / v15
  let v27 := m00 * m22
  let v28 := m02 * m20
  let v29 := v27 - v28
  let v30 := v29 / v15
  let v31 := m02 * m10
  let v32 := m00 * m12
  let v33 := v31 - v32
  let v34 := v33 / v15
  let v35 := v13 / v15
  let v36 := m01 * m20
  let v37 := m00 * m21
  let v38 := v36 - v37
  let v39 := v38 / v15
  let v40 := m00 * m11
  let v41 := m01 * m10
  let v42 := v40 - v41
  let v43 := v42 / v15
  [v16, v20, v24, v26, v30, v34, v35, v39, v43]

def det (m00 m01 m02 m10 m11 m12 m20 m21 m22 : K) : K := m00 * (m11 * m22 - m12 * m21) - m01 * (m10 * m22 - m12 * m20) + m02 * (m10 * m21 - m11 * m20)

/-- (m * invert m) = identity, entry by entry, whenever det ≠ 0 -/
theorem invert_right (m00 m01 m02 m10 m11 m12 m20 m21 m22 : K) (h : det m00 m01 m02 m10 m11 m12 m20 m21 m22 ≠ 0) :
    let i := invert m00 m01 m02 m10 m11 m12 m20 m21 m22
    [m00 * i[0]! + m01 * i[3]! + m02 * i[6]!, m00 * i[1]! + m01 * i[4]! + m02 * i[7]!, m00 * i[2]! + m01 * i[5]! + m02 * i[8]!,
     m10 * i[0]! + m11 * i[3]! + m12 * i[6]!, m10 * i[1]! + m11 * i[4]! + m12 * i[7]!, m10 * i[2]! + m11 * i[5]! + m12 * i[8]!,
     m20 * i[0]! + m21 * i[3]! + m22 * i[6]!, m20 * i[1]! + m21 * i[4]! + m22 * i[7]!, m20 * i[2]! + m21 * i[5]! + m22 * i[8]!]
      = [1, 0, 0, 0, 1, 0, 0, 0, 1] := by
  unfold det at h
  simp only [invert, List.getElem!_cons_zero, List.getElem!_cons_succ]
  simp only [List.cons.injEq, and_true]
  generalize hD : m00 * (m11 * m22 - m12 * m21) - m01 * (m10 * m22 - m12 * m20) + m02 * (m10 * m21 - m11 * m20) = D at h ⊢
  refine ⟨?_, ?_, ?_, ?_, ?_, ?_, ?_, ?_, ?_⟩ <;> field_simp <;> rw [← hD] <;> ring

