import Mathlib.Analysis.SpecialFunctions.Integrals.Basic
import Mathlib.Analysis.Calculus.Deriv.Pow
import Mathlib.Analysis.Calculus.Deriv.Add
import Mathlib.Analysis.Calculus.Deriv.Mul
import Mathlib.Tactic.Ring
open intervalIntegral

noncomputable section
def cubx (a b c d t : ℝ) : ℝ := (1 - t) * (1 - t) * (1 - t) * a + 3 * (1 - t) * (1 - t) * t * b + 3 * (1 - t) * t * t * c + t * t * t * d
def quadx (a b c t : ℝ) : ℝ := (1 - t) * (1 - t) * a + 2 * (1 - t) * t * b + t * t * c
/-- CubicBezier.area as in the source -/
def area (p0x p0y p1x p1y p2x p2y p3x p3y : ℝ) : ℝ :=
  (10 * (p3x * p3y - p0x * p0y) + 6 * (p1x * p0y - p0x * p1y + p3x * p2y - p2x * p3y)
    + 3 * (p2x * p0y - p0x * p2y + p2x * p1y - p1x * p2y + p3x * p1y - p1x * p3y)
    + p3x * p0y - p0x * p3y) / 20

def c0 (p0x p0y p1x p1y p2x p2y p3x p3y : ℝ) : ℝ := 0
def c1 (p0x p0y p1x p1y p2x p2y p3x p3y : ℝ) : ℝ := -3*p0x*p0y + 3*p0y*p1x
def c2 (p0x p0y p1x p1y p2x p2y p3x p3y : ℝ) : ℝ := 15*p0x*p0y/2 - 9*p0x*p1y/2 - 21*p0y*p1x/2 + 3*p0y*p2x + 9*p1x*p1y/2
def c3 (p0x p0y p1x p1y p2x p2y p3x p3y : ℝ) : ℝ := -10*p0x*p0y + 12*p0x*p1y - 3*p0x*p2y + 18*p0y*p1x - 9*p0y*p2x + p0y*p3x - 18*p1x*p1y + 3*p1x*p2y + 6*p1y*p2x
def c4 (p0x p0y p1x p1y p2x p2y p3x p3y : ℝ) : ℝ := 15*p0x*p0y/2 - 27*p0x*p1y/2 + 27*p0x*p2y/4 - 3*p0x*p3y/4 - 33*p0y*p1x/2 + 45*p0y*p2x/4 - 9*p0y*p3x/4 + 27*p1x*p1y - 45*p1x*p2y/4 + 3*p1x*p3y/4 - 63*p1y*p2x/4 + 9*p1y*p3x/4 + 9*p2x*p2y/2
def c5 (p0x p0y p1x p1y p2x p2y p3x p3y : ℝ) : ℝ := -3*p0x*p0y + 36*p0x*p1y/5 - 27*p0x*p2y/5 + 6*p0x*p3y/5 + 39*p0y*p1x/5 - 33*p0y*p2x/5 + 9*p0y*p3x/5 - 18*p1x*p1y + 63*p1x*p2y/5 - 12*p1x*p3y/5 + 72*p1y*p2x/5 - 18*p1y*p3x/5 - 9*p2x*p2y + 6*p2x*p3y/5 + 9*p2y*p3x/5
def c6 (p0x p0y p1x p1y p2x p2y p3x p3y : ℝ) : ℝ := p0x*p0y/2 - 3*p0x*p1y/2 + 3*p0x*p2y/2 - p0x*p3y/2 - 3*p0y*p1x/2 + 3*p0y*p2x/2 - p0y*p3x/2 + 9*p1x*p1y/2 - 9*p1x*p2y/2 + 3*p1x*p3y/2 - 9*p1y*p2x/2 + 3*p1y*p3x/2 + 9*p2x*p2y/2 - 3*p2x*p3y/2 - 3*p2y*p3x/2 + p3x*p3y/2

/-- antiderivative of y(t)·x'(t); coefficients computed by sympy but CHECKED by Lean below -/
def F (p0x p0y p1x p1y p2x p2y p3x p3y t : ℝ) : ℝ := c0 p0x p0y p1x p1y p2x p2y p3x p3y * t ^ 0 + c1 p0x p0y p1x p1y p2x p2y p3x p3y * t ^ 1 + c2 p0x p0y p1x p1y p2x p2y p3x p3y * t ^ 2 + c3 p0x p0y p1x p1y p2x p2y p3x p3y * t ^ 3 + c4 p0x p0y p1x p1y p2x p2y p3x p3y * t ^ 4 + c5 p0x p0y p1x p1y p2x p2y p3x p3y * t ^ 5 + c6 p0x p0y p1x p1y p2x p2y p3x p3y * t ^ 6

theorem F_deriv (p0x p0y p1x p1y p2x p2y p3x p3y t : ℝ) :
    HasDerivAt (F p0x p0y p1x p1y p2x p2y p3x p3y)
      (cubx p0y p1y p2y p3y t * quadx ((p1x - p0x) * 3) ((p2x - p1x) * 3) ((p3x - p2x) * 3) t) t := by
  have h := ((((((((hasDerivAt_pow 0 t).const_mul (c0 p0x p0y p1x p1y p2x p2y p3x p3y))).add ((hasDerivAt_pow 1 t).const_mul (c1 p0x p0y p1x p1y p2x p2y p3x p3y))).add ((hasDerivAt_pow 2 t).const_mul (c2 p0x p0y p1x p1y p2x p2y p3x p3y))).add ((hasDerivAt_pow 3 t).const_mul (c3 p0x p0y p1x p1y p2x p2y p3x p3y))).add ((hasDerivAt_pow 4 t).const_mul (c4 p0x p0y p1x p1y p2x p2y p3x p3y))).add ((hasDerivAt_pow 5 t).const_mul (c5 p0x p0y p1x p1y p2x p2y p3x p3y))).add ((hasDerivAt_pow 6 t).const_mul (c6 p0x p0y p1x p1y p2x p2y p3x p3y))
  have h2 := h.congr_deriv (g' := cubx p0y p1y p2y p3y t * quadx ((p1x - p0x) * 3) ((p2x - p1x) * 3) ((p3x - p2x) * 3) t) (by
    simp only [cubx, quadx, c0, c1, c2, c3, c4, c5, c6]; norm_num; ring)
  have e : F p0x p0y p1x p1y p2x p2y p3x p3y = ((((((fun y : ℝ => c0 p0x p0y p1x p1y p2x p2y p3x p3y * y ^ 0) + fun y => c1 p0x p0y p1x p1y p2x p2y p3x p3y * y ^ 1) + fun y => c2 p0x p0y p1x p1y p2x p2y p3x p3y * y ^ 2) + fun y => c3 p0x p0y p1x p1y p2x p2y p3x p3y * y ^ 3) + fun y => c4 p0x p0y p1x p1y p2x p2y p3x p3y * y ^ 4) + fun y => c5 p0x p0y p1x p1y p2x p2y p3x p3y * y ^ 5) + fun y => c6 p0x p0y p1x p1y p2x p2y p3x p3y * y ^ 6 := by
    funext s; simp only [F, Pi.add_apply]
  rw [e]; exact h2

theorem area_is_integral (p0x p0y p1x p1y p2x p2y p3x p3y : ℝ) :
    ∫ t in (0:ℝ)..1, cubx p0y p1y p2y p3y t * quadx ((p1x - p0x) * 3) ((p2x - p1x) * 3) ((p3x - p2x) * 3) t
      = area p0x p0y p1x p1y p2x p2y p3x p3y := by
  rw [integral_eq_sub_of_hasDerivAt (fun t _ => F_deriv p0x p0y p1x p1y p2x p2y p3x p3y t)]
  · simp only [F, area, c0, c1, c2, c3, c4, c5, c6]; ring
  · apply Continuous.intervalIntegrable
    unfold cubx quadx; fun_prop
#print axioms area_is_integral
end
