import Probe.Basic

def parseRat (s : String) : Option ℚ :=
  match s.splitOn "/" with
  | [n] => n.toInt?.map (fun i => (i : ℚ))
  | [n, d] => do
      let n ← n.toInt?
      let d ← d.toNat?
      if d = 0 then none else some ((n : ℚ) / (d : ℚ))
  | _ => none

def showRat (q : ℚ) : String := s!"{q.num}/{q.den}"

def step (line : String) : String :=
  match (line.trim.splitOn " ") with
  | "cubx" :: args =>
    match args.mapM parseRat with
    | some [a, b, c, d, t] => showRat (cubx a b c d t)
    | _ => "bad-op"
  | "qroots" :: args =>
    match args.mapM parseRat with
    | some [a, b, c] => " ".intercalate ((qroots a b c).map showRat)
    | _ => "bad-op"
  | _ => "bad-op"

partial def loop (h : IO.FS.Stream) : IO Unit := do
  let line ← h.getLine
  if line.isEmpty then return ()
  IO.println (step line)
  loop h

def main : IO Unit := do loop (← IO.getStdin)
