import Mathlib.Tactic.Ring
import Mathlib.Tactic.FieldSimp
import Mathlib.Tactic.Linarith
import Mathlib.Algebra.Order.Field.Basic

structure Pt (K : Type) where
  x : K
  y : K
deriving Repr, DecidableEq

namespace Pt
variable {K : Type} [Field K]
def add (p q : Pt K) : Pt K := ⟨p.x + q.x, p.y + q.y⟩
def sub (p q : Pt K) : Pt K := ⟨p.x - q.x, p.y - q.y⟩
def smul (p : Pt K) (k : K) : Pt K := ⟨p.x * k, p.y * k⟩
def lerp (p q : Pt K) (t : K) : Pt K := add (smul p (1 - t)) (smul q t)
end Pt

structure Cubic (K : Type) where
  p0 : Pt K
  p1 : Pt K
  p2 : Pt K
  p3 : Pt K

namespace Cubic
variable {K : Type} [Field K]
def pointAtTime (c : Cubic K) (t : K) : Pt K :=
  ⟨(1 - t) * (1 - t) * (1 - t) * c.p0.x + 3 * (1 - t) * (1 - t) * t * c.p1.x + 3 * (1 - t) * t * t * c.p2.x + t * t * t * c.p3.x,
   (1 - t) * (1 - t) * (1 - t) * c.p0.y + 3 * (1 - t) * (1 - t) * t * c.p1.y + 3 * (1 - t) * t * t * c.p2.y + t * t * t * c.p3.y⟩
def splitAtTime (c : Cubic K) (t : K) : Cubic K × Cubic K :=
  let p4 := c.p0.lerp c.p1 t
  let p5 := c.p1.lerp c.p2 t
  let p6 := c.p2.lerp c.p3 t
  let p7 := p4.lerp p5 t
  let p8 := p5.lerp p6 t
  let p9 := p7.lerp p8 t
  (⟨c.p0, p4, p7, p9⟩, ⟨p9, p8, p6, c.p3⟩)
def area (c : Cubic K) : K :=
  (10 * (c.p3.x * c.p3.y - c.p0.x * c.p0.y)
    + 6 * (c.p1.x * c.p0.y - c.p0.x * c.p1.y + c.p3.x * c.p2.y - c.p2.x * c.p3.y)
    + 3 * (c.p2.x * c.p0.y - c.p0.x * c.p2.y + c.p2.x * c.p1.y - c.p1.x * c.p2.y + c.p3.x * c.p1.y - c.p1.x * c.p3.y)
    + c.p3.x * c.p0.y - c.p0.x * c.p3.y) / 20

theorem split_left (c : Cubic K) (t s : K) :
    (c.splitAtTime t).1.pointAtTime s = c.pointAtTime (s * t) := by
  simp only [splitAtTime, pointAtTime, Pt.lerp, Pt.add, Pt.smul]
  congr 1 <;> ring

theorem split_right (c : Cubic K) (t s : K) :
    (c.splitAtTime t).2.pointAtTime s = c.pointAtTime (t + s * (1 - t)) := by
  simp only [splitAtTime, pointAtTime, Pt.lerp, Pt.add, Pt.smul]
  congr 1 <;> ring

theorem area_split [CharZero K] (c : Cubic K) (t : K) :
    (c.splitAtTime t).1.area + (c.splitAtTime t).2.area = c.area := by
  simp only [splitAtTime, area, Pt.lerp, Pt.add, Pt.smul]
  ring
end Cubic

#print axioms Cubic.split_left
#print axioms Cubic.area_split
#eval (Cubic.pointAtTime (K := ℚ) ⟨⟨0,0⟩,⟨1,2⟩,⟨3,4⟩,⟨5,0⟩⟩ (1/3))
