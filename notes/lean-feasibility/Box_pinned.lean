import Mathlib.Algebra.Order.Field.Basic
import Mathlib.Tactic.Linarith
import Mathlib.Tactic.Ring
variable {K : Type} [Field K] [LinearOrder K] [IsStrictOrderedRing K]

def overlaps (l1 b1 r1 t1 l2 b2 r2 t2 : K) : Bool :=
  if l2 > r1 then
    false
  else
    if r2 < l1 then
      false
    else
      if b2 > t1 then
        false
      else
        if t2 < b1 then
          false
        else
          true

def includes (l1 b1 r1 t1 px py : K) : Bool :=
  if l1 ≥ px then
    if r1 ≤ px then
      if b1 ≥ py then
        if t1 ≤ py then
          true
        else
          false
      else
        if b1 ≥ py then
          true
        else
          false
    else
      if r1 ≤ px then
        true
      else
        false
  else
    if l1 ≥ px then
      true
    else
      false

def quadraticRoots (sqrt : K → K) (a b c : K) : List K :=
  if a ≠ (0 : K) then
    if ((b * b) - (((4 : K) * a) * c)) > (0 : K) then
      if (((-b) / ((2 : K) * a)) - ((sqrt ((b * b) - (((4 : K) * a) * c))) / ((2 : K) * a))) ≥ (0 : K) then
        if (((-b) / ((2 : K) * a)) - ((sqrt ((b * b) - (((4 : K) * a) * c))) / ((2 : K) * a))) ≤ (1 : K) then
          if (((-b) / ((2 : K) * a)) + ((sqrt ((b * b) - (((4 : K) * a) * c))) / ((2 : K) * a))) ≥ (0 : K) then
            if (((-b) / ((2 : K) * a)) + ((sqrt ((b * b) - (((4 : K) * a) * c))) / ((2 : K) * a))) ≤ (1 : K) then
              [(((-b) / ((2 : K) * a)) - ((sqrt ((b * b) - (((4 : K) * a) * c))) / ((2 : K) * a))), (((-b) / ((2 : K) * a)) + ((sqrt ((b * b) - (((4 : K) * a) * c))) / ((2 : K) * a)))]
            else
              [(((-b) / ((2 : K) * a)) - ((sqrt ((b * b) - (((4 : K) * a) * c))) / ((2 : K) * a)))]
          else
            [(((-b) / ((2 : K) * a)) - ((sqrt ((b * b) - (((4 : K) * a) * c))) / ((2 : K) * a)))]
        else
          if (((-b) / ((2 : K) * a)) + ((sqrt ((b * b) - (((4 : K) * a) * c))) / ((2 : K) * a))) ≥ (0 : K) then
            if (((-b) / ((2 : K) * a)) + ((sqrt ((b * b) - (((4 : K) * a) * c))) / ((2 : K) * a))) ≤ (1 : K) then
              [(((-b) / ((2 : K) * a)) + ((sqrt ((b * b) - (((4 : K) * a) * c))) / ((2 : K) * a)))]
            else
              []
          else
            []
      else
        if (((-b) / ((2 : K) * a)) + ((sqrt ((b * b) - (((4 : K) * a) * c))) / ((2 : K) * a))) ≥ (0 : K) then
          if (((-b) / ((2 : K) * a)) + ((sqrt ((b * b) - (((4 : K) * a) * c))) / ((2 : K) * a))) ≤ (1 : K) then
            [(((-b) / ((2 : K) * a)) + ((sqrt ((b * b) - (((4 : K) * a) * c))) / ((2 : K) * a)))]
          else
            []
        else
          []
    else
      []
  else
    []

theorem overlaps_iff (l1 b1 r1 t1 l2 b2 r2 t2 : K) :
    overlaps l1 b1 r1 t1 l2 b2 r2 t2 = true ↔ (l2 ≤ r1 ∧ l1 ≤ r2) ∧ (b2 ≤ t1 ∧ b1 ≤ t2) := by
  unfold overlaps
  split_ifs <;> simp_all <;> (try constructor) <;> linarith
theorem overlaps_symm (l1 b1 r1 t1 l2 b2 r2 t2 : K) :
    overlaps l1 b1 r1 t1 l2 b2 r2 t2 = overlaps l2 b2 r2 t2 l1 b1 r1 t1 := by
  rw [Bool.eq_iff_iff, overlaps_iff, overlaps_iff]; tauto
theorem includes_iff (l1 b1 r1 t1 px py : K) :
    includes l1 b1 r1 t1 px py = true ↔ (l1 ≤ px ∧ px ≤ r1) ∧ (b1 ≤ py ∧ py ≤ t1) := by
  unfold includes
  split_ifs <;> simp_all <;> (try constructor) <;> linarith

