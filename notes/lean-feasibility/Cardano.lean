import Mathlib.Analysis.SpecialFunctions.Trigonometric.Inverse
import Mathlib.Analysis.SpecialFunctions.Pow.Real
import Mathlib.Analysis.SpecialFunctions.Sqrt
import Mathlib.Tactic.Ring
import Mathlib.Tactic.Linarith
import Mathlib.Tactic.FieldSimp
import Mathlib.Tactic.LinearCombination
import Mathlib.Tactic.Positivity

open Real

/-- depressed-cubic bookkeeping shared by all Cardano branches (monic cubic t³ + a t² + b t + c) -/
theorem depress (a b c y : ℝ) :
    (y - a / 3) ^ 3 + a * (y - a / 3) ^ 2 + b * (y - a / 3) + c
      = y ^ 3 + ((3 * b - a * a) / 3) * y + (2 * a * a * a - 9 * a * b + 27 * c) / 27 := by
  ring

/-- three-real-roots branch (discriminant < 0) of `CubicBezier._findRoots`, root k ∈ {0,1,2}:
    `2·cbrt(r)·cos((φ + 2kπ)/3) − a/3` with `r = sqrt((−p/3)³)`, `φ = acos(−q/(2r))`. -/
theorem cardano_trig (a b c : ℝ) (k : ℕ)
    (hdisc : ((2 * a * a * a - 9 * a * b + 27 * c) / 27 / 2) ^ 2 + ((3 * b - a * a) / 3 / 3) ^ 3 < 0) :
    let p := (3 * b - a * a) / 3
    let q := (2 * a * a * a - 9 * a * b + 27 * c) / 27
    let r := sqrt ((-p / 3) ^ 3)
    let φ := arccos (max (min (-q / (2 * r)) 1) (-1))
    let t := 2 * r ^ ((1:ℝ) / 3) * cos ((φ + 2 * k * π) / 3) - a / 3
    t ^ 3 + a * t ^ 2 + b * t + c = 0 := by
  intro p q r φ t
  -- m := sqrt(-p/3) > 0, r = m^3
  have hp3 : (p / 3) ^ 3 < 0 := by
    have : (q / 2) ^ 2 ≥ 0 := sq_nonneg _
    have h := hdisc
    change (q / 2) ^ 2 + (p / 3) ^ 3 < 0 at h
    linarith
  have hpneg : p < 0 := by
    by_contra hcon
    push_neg at hcon
    have : (p / 3) ^ 3 ≥ 0 := by positivity
    linarith
  set m := sqrt (-p / 3) with hm
  have hmpos : 0 < m := sqrt_pos.mpr (by linarith)
  have hm2 : m ^ 2 = -p / 3 := by rw [hm]; exact sq_sqrt (by linarith)
  have hr : r = m ^ 3 := by
    show sqrt ((-p / 3) ^ 3) = m ^ 3
    rw [← hm2, ← pow_mul]
    have : m ^ (2 * 3) = (m ^ 3) ^ 2 := by ring
    rw [this, sqrt_sq (by positivity)]
  have hcbrt : r ^ ((1:ℝ) / 3) = m := by
    rw [hr]
    have := Real.pow_rpow_inv_natCast hmpos.le (n := 3) (by norm_num)
    simpa using this
  -- |q/(2r)| < 1
  have hrpos : 0 < r := by rw [hr]; positivity
  have hq2 : (q / 2) ^ 2 < r ^ 2 := by
    have h := hdisc
    change (q / 2) ^ 2 + (p / 3) ^ 3 < 0 at h
    have : r ^ 2 = -(p / 3) ^ 3 := by
      rw [hr]; have : (m ^ 3) ^ 2 = (m ^ 2) ^ 3 := by ring
      rw [this, hm2]; ring
    linarith
  have habs : |q / 2| < r := by
    have := abs_lt_of_sq_lt_sq hq2 hrpos.le
    exact this
  have hlow : -1 ≤ -q / (2 * r) := by
    rw [le_div_iff₀ (by positivity)]
    have := (abs_lt.mp habs).2
    linarith
  have hhigh : -q / (2 * r) ≤ 1 := by
    rw [div_le_iff₀ (by positivity)]
    have := (abs_lt.mp habs).1
    linarith
  have hclamp : max (min (-q / (2 * r)) 1) (-1) = -q / (2 * r) := by
    rw [min_eq_left hhigh, max_eq_left hlow]
  have hcosφ : cos φ = -q / (2 * r) := by
    show cos (arccos _) = _
    rw [hclamp]; exact cos_arccos hlow hhigh
  -- triple angle
  have h3 : cos (3 * ((φ + 2 * k * π) / 3)) = cos φ := by
    have : 3 * ((φ + 2 * k * π) / 3) = φ + k * (2 * π) := by ring
    rw [this, cos_add_nat_mul_two_pi]
  have htriple := cos_three_mul ((φ + 2 * k * π) / 3)
  set θ := (φ + 2 * k * π) / 3 with hθ
  have hy : (2 * m * cos θ) ^ 3 + p * (2 * m * cos θ) + q = 0 := by
    have hp' : p = -3 * m ^ 2 := by linarith [hm2]
    have e1 : 4 * cos θ ^ 3 - 3 * cos θ = -q / (2 * r) := by rw [← htriple, h3, hcosφ]
    have e2 : 2 * r * (4 * cos θ ^ 3 - 3 * cos θ) = -q := by
      rw [e1]; field_simp
    rw [hr] at e2
    rw [hp']
    linear_combination e2
  show t ^ 3 + a * t ^ 2 + b * t + c = 0
  have ht : t = 2 * m * cos θ - a / 3 := by show 2 * r ^ ((1:ℝ) / 3) * cos θ - a / 3 = _; rw [hcbrt]
  rw [ht, depress]
  exact hy
#print axioms cardano_trig
