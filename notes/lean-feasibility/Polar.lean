import Mathlib.Analysis.SpecialFunctions.Complex.Arg
import Mathlib.Tactic.Ring
import Mathlib.Tactic.FieldSimp

open Real

/-- polar form used by Point.rotated / Point.fromAngle / Line.tangentAtTime:
    |δ|·(cos, sin)(atan2(δy, δx) + θ) is δ rotated by θ. `atan2 y x` is `Complex.arg ⟨x, y⟩`. -/
theorem polar_rotate (dx dy θ : ℝ) :
    let φ := Complex.arg ⟨dx, dy⟩
    let m := sqrt (dx * dx + dy * dy)
    m * cos (φ + θ) = dx * cos θ - dy * sin θ ∧ m * sin (φ + θ) = dx * sin θ + dy * cos θ := by
  intro φ m
  have hm : m = ‖(⟨dx, dy⟩ : ℂ)‖ := by
    show sqrt (dx * dx + dy * dy) = _
    rw [Complex.norm_def, Complex.normSq_apply]
  by_cases hz : (⟨dx, dy⟩ : ℂ) = 0
  · have hx : dx = 0 := by simpa using congrArg Complex.re hz
    have hy : dy = 0 := by simpa using congrArg Complex.im hz
    have : m = 0 := by rw [hm, hz]; simp
    rw [this, hx, hy]; simp
  · have hpos : ‖(⟨dx, dy⟩ : ℂ)‖ ≠ 0 := by simpa using hz
    have hc : cos φ = dx / m := by rw [hm]; exact Complex.cos_arg hz
    have hs : sin φ = dy / m := by rw [hm]; exact Complex.sin_arg _
    have hm0 : m ≠ 0 := by rw [hm]; exact hpos
    rw [cos_add, sin_add, hc, hs]
    constructor <;> field_simp <;> ring
#print axioms polar_rotate
