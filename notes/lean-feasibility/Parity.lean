-- Feasibility spike for C11: a closed chain crosses a level an even number of times.
def changes : List Bool → Nat
  | a :: b :: rest => (a != b).toNat + changes (b :: rest)
  | _ => 0

def lastOr (d : Bool) : List Bool → Bool
  | [] => d
  | a :: l => lastOr a l

theorem changes_parity (a : Bool) (l : List Bool) :
    changes (a :: l) % 2 = (a != lastOr a l).toNat := by
  induction l generalizing a with
  | nil => simp [changes, lastOr]
  | cons b l ih =>
    simp only [changes, lastOr]
    have hb := ih b
    generalize changes (b :: l) = n at hb ⊢
    generalize lastOr b l = z at hb ⊢
    cases a <;> cases b <;> cases z <;> simp at hb ⊢ <;> omega

/-- closing the chain: total number of level crossings (including the closing edge) is even -/
theorem closed_even (a : Bool) (l : List Bool) :
    (changes (a :: l) + (lastOr a l != a).toNat) % 2 = 0 := by
  have h := changes_parity a l
  generalize changes (a :: l) = n at h ⊢
  generalize lastOr a l = z at h ⊢
  cases a <;> cases z <;> simp at h ⊢ <;> omega
#print axioms closed_even
