import Mathlib.Tactic.Ring
import Mathlib.Tactic.FieldSimp
import Mathlib.Tactic.NormNum
import Mathlib.Algebra.Field.Basic
import Mathlib.Data.Rat.Defs

variable {K : Type} [Field K]

/-! C15: Line.tOfPoint inverts Line.pointAtTime (x-branch; code: (p.x - s.x)/(e.x - s.x)) -/
theorem line_tOfPoint_inverse (sx ex t : K) (h : ex - sx ≠ 0) :
    ((sx * (1 - t) + ex * t) - sx) / (ex - sx) = t := by
  field_simp; ring

/-! C03: the re-mapping `mapx v d = (v - d)/(1 - d)` makes the second cut land where it should:
    cutting the right piece R(s) = B(t1 + s(1-t1)) at mapx t2 t1 gives the piece B(t1 + s(t2-t1)). -/
theorem mapx_compose (t1 t2 s : K) (h : 1 - t1 ≠ 0) :
    t1 + (s * ((t2 - t1) / (1 - t1))) * (1 - t1) = t1 + s * (t2 - t1) := by
  field_simp

/-! C18: quadratic curvature numerator/denominator with the correct second derivative (after F7)
    versus the exact derivatives x' = 2((1-t)(P1-P0) + t(P2-P1)), x'' = 2(P2 - 2P1 + P0). -/
theorem quad_curv_num (p0x p0y p1x p1y p2x p2y t : K) :
    let dx := (p1x - p0x) * 2 * (1 - t) + (p2x - p1x) * 2 * t      -- d.pointAtTime(t).x  (Line lerp)
    let dy := (p1y - p0y) * 2 * (1 - t) + (p2y - p1y) * 2 * t
    let d2x := (p2x - p1x) * 2 - (p1x - p0x) * 2                  -- d.end - d.start
    let d2y := (p2y - p1y) * 2 - (p1y - p0y) * 2
    dx * d2y - dy * d2x =
      (2 * ((1 - t) * (p1x - p0x) + t * (p2x - p1x))) * (2 * (p2y - 2 * p1y + p0y))
      - (2 * ((1 - t) * (p1y - p0y) + t * (p2y - p1y))) * (2 * (p2x - 2 * p1x + p0x)) := by
  intro dx dy d2x d2y; ring

/-- pinned code uses `self.end - self.start` as second derivative: wrong already on one example -/
example : let p0x : ℚ := 0; let p0y : ℚ := 0; let p1x : ℚ := 50; let p1y : ℚ := 100; let p2x : ℚ := 100; let p2y : ℚ := 0
    let t : ℚ := 3/10
    let dx := (p1x - p0x) * 2 * (1 - t) + (p2x - p1x) * 2 * t
    let dy := (p1y - p0y) * 2 * (1 - t) + (p2y - p1y) * 2 * t
    dx * (p2y - p0y) - dy * (p2x - p0x) ≠ dx * (2 * (p2y - 2 * p1y + p0y)) - dy * (2 * (p2x - 2 * p1x + p0x)) := by
  norm_num
