import Mathlib.Analysis.Calculus.Deriv.Polynomial
import Mathlib.Tactic.Ring

open Polynomial

def cubx (a b c d t : ℝ) : ℝ := (1 - t) * (1 - t) * (1 - t) * a + 3 * (1 - t) * (1 - t) * t * b + 3 * (1 - t) * t * t * c + t * t * t * d
def quadx (a b c t : ℝ) : ℝ := (1 - t) * (1 - t) * a + 2 * (1 - t) * t * b + t * t * c

noncomputable def cubPoly (a b c d : ℝ) : ℝ[X] :=
  (1 - X) * (1 - X) * (1 - X) * C a + 3 * (1 - X) * (1 - X) * X * C b + 3 * (1 - X) * X * X * C c + X * X * X * C d

theorem cubPoly_eval (a b c d t : ℝ) : (cubPoly a b c d).eval t = cubx a b c d t := by
  simp [cubPoly, cubx]

theorem cub_deriv (a b c d t : ℝ) :
    HasDerivAt (cubx a b c d) (quadx ((b - a) * 3) ((c - b) * 3) ((d - c) * 3) t) t := by
  have h := (cubPoly a b c d).hasDerivAt t
  have e : (fun s => (cubPoly a b c d).eval s) = cubx a b c d := funext (cubPoly_eval a b c d)
  rw [e] at h
  have e2 : eval t (derivative (cubPoly a b c d)) = quadx ((b - a) * 3) ((c - b) * 3) ((d - c) * 3) t := by
    simp [cubPoly, derivative_mul, quadx]; ring
  rwa [e2] at h
#print axioms cub_deriv
