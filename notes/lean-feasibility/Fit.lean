-- Feasibility spike for C14: the recursive fitter with its numerical parts as ORACLES.
-- The contract (end points, continuity, error bound, budget) is proved for EVERY oracle behaviour.
-- Core Lean only.
variable {P C : Type}

/-- Everything numerical is a parameter. -/
structure Env (P C : Type) where
  start   : C → P
  «end»   : C → P
  near    : C → P → Prop                          -- "curve passes within sqrt(error) of the point"
  gen     : List P → Option P → Option P → C       -- generateBezier(+reparameterize): ANY cubic …
  accept  : C → List P → Bool                      -- |maxErrorRatio| ≤ 1
  split   : C → List P → Nat                       -- split point chosen by computeMaxError / corner logic
  fitLine : P → P → Option P → Option P → C
  tanL    : List P → Nat → Option P                -- tangents handed to the halves
  tanR    : List P → Nat → Option P

/-- what is assumed of the oracles (each is a theorem about a traced leaf, see DESIGN C14) -/
structure Env.OK (E : Env P C) : Prop where
  gen_start  : ∀ pts t1 t2 a, pts.head? = some a → E.start (E.gen pts t1 t2) = a
  gen_end    : ∀ pts t1 t2 b, pts.getLast? = some b → E.end (E.gen pts t1 t2) = b
  accept_near: ∀ c pts, E.accept c pts = true → ∀ p ∈ pts, E.near c p
  line_start : ∀ a b t1 t2, E.start (E.fitLine a b t1 t2) = a
  line_end   : ∀ a b t1 t2, E.end (E.fitLine a b t1 t2) = b
  line_near  : ∀ a b t1 t2, E.near (E.fitLine a b t1 t2) a ∧ E.near (E.fitLine a b t1 t2) b

/-- `_fitCurve`: returns `none` for "gave up" (Python returns []), fuel = recursion depth -/
def fit (E : Env P C) : Nat → List P → Option P → Option P → Nat → Option (List C)
  | 0, _, _, _, _ => none
  | fuel + 1, pts, t1, t2, budget =>
    match pts with
    | [a, b] => some [E.fitLine a b t1 t2]
    | _ =>
      let c := E.gen pts t1 t2
      if E.accept c pts then some [c]
      else if 1 < budget then
        let k := E.split c pts
        if 0 < k ∧ k + 1 < pts.length then
          match fit E fuel (pts.take (k + 1)) t1 (E.tanL pts k) (budget - 1) with
          | none => none
          | some l =>
            match fit E fuel (pts.drop k) (E.tanR pts k) t2 (budget - l.length) with
            | none => none
            | some r => some (l ++ r)
        else none
      else none

def Chain (E : Env P C) : List C → Prop
  | [] => True
  | [_] => True
  | a :: b :: rest => E.end a = E.start b ∧ Chain E (b :: rest)

/-- the contract -/
structure Good (E : Env P C) (pts : List P) (out : List C) : Prop where
  nonempty : out ≠ []
  first : ∀ a c, pts.head? = some a → out.head? = some c → E.start c = a
  last  : ∀ b c, pts.getLast? = some b → out.getLast? = some c → E.end c = b
  chain : Chain E out
  near  : ∀ p ∈ pts, ∃ c ∈ out, E.near c p

theorem chain_append (E : Env P C) : ∀ (l r : List C), Chain E l → Chain E r →
    (∀ a b, l.getLast? = some a → r.head? = some b → E.end a = E.start b) → Chain E (l ++ r) := by
  intro l
  induction l with
  | nil => intro r _ hr _; simpa using hr
  | cons x xs ih =>
    intro r hl hr hj
    cases xs with
    | nil =>
      cases r with
      | nil => simp [Chain]
      | cons y ys =>
        simp only [List.cons_append, List.nil_append, Chain]
        exact ⟨hj x y (by simp) (by simp), hr⟩
    | cons x2 xs2 =>
      simp only [List.cons_append, Chain]
      refine ⟨hl.1, ?_⟩
      have := ih r hl.2 hr (by
        intro a b ha hb
        apply hj a b _ hb
        simpa [List.getLast?_cons_cons] using ha)
      simpa using this

theorem fit_good (E : Env P C) (hE : E.OK) :
    ∀ fuel pts t1 t2 budget out, 2 ≤ pts.length → fit E fuel pts t1 t2 budget = some out → Good E pts out := by
  intro fuel
  induction fuel with
  | zero => intro pts t1 t2 budget out _ h; simp [fit] at h
  | succ fuel ih =>
    intro pts t1 t2 budget out hlen h
    unfold fit at h
    split at h
    · -- two points: fitLine
      rename_i a b
      simp at h; subst h
      refine ⟨by simp, ?_, ?_, trivial, ?_⟩
      · intro a' c ha hc; simp at ha hc; subst ha; subst hc; exact hE.line_start _ _ _ _
      · intro b' c hb hc; simp at hb hc; subst hb; subst hc; exact hE.line_end _ _ _ _
      · intro p hp; simp at hp
        rcases hp with rfl | rfl
        · exact ⟨_, List.mem_singleton.mpr rfl, (hE.line_near _ _ t1 t2).1⟩
        · exact ⟨_, List.mem_singleton.mpr rfl, (hE.line_near _ _ t1 t2).2⟩
    · simp only at h
      split at h
      · -- accepted
        rename_i hacc
        simp at h; subst h
        refine ⟨by simp, ?_, ?_, trivial, ?_⟩
        · intro a c ha hc; simp at hc; subst hc; exact hE.gen_start _ _ _ _ ha
        · intro b c hb hc; simp at hc; subst hc; exact hE.gen_end _ _ _ _ hb
        · intro p hp; exact ⟨_, by simp, hE.accept_near _ _ hacc p hp⟩
      · split at h
        · split at h
          · rename_i hk
            -- recursive case
            have hk1 : 0 < E.split (E.gen pts t1 t2) pts := hk.1
            have hk2 : E.split (E.gen pts t1 t2) pts + 1 < pts.length := hk.2
            generalize E.split (E.gen pts t1 t2) pts = k at h hk1 hk2
            cases hl : fit E fuel (pts.take (k + 1)) t1 (E.tanL pts k) (budget - 1) with
            | none => simp [hl] at h
            | some l =>
              simp only [hl] at h
              cases hr : fit E fuel (pts.drop k) (E.tanR pts k) t2 (budget - l.length) with
              | none => simp [hr] at h
              | some r =>
                simp only [hr, Option.some.injEq] at h
                subst h
                have hlenL : 2 ≤ (pts.take (k + 1)).length := by simp [List.length_take]; omega
                have hlenR : 2 ≤ (pts.drop k).length := by simp [List.length_drop]; omega
                have gl := ih _ _ _ _ _ hlenL hl
                have gr := ih _ _ _ _ _ hlenR hr
                -- the point shared by the two halves
                have hkk : k < pts.length := by omega
                have hshare : (pts.take (k + 1)).getLast? = some pts[k] := by
                  rw [List.getLast?_take]; simp [hkk]
                have hshare' : (pts.drop k).head? = some pts[k] := by
                  simp [List.head?_drop, hkk]
                obtain ⟨lc, hlc⟩ : ∃ c, l.getLast? = some c := by
                  cases hx : l.getLast? with
                  | none => exact absurd (List.getLast?_eq_none_iff.mp hx) gl.nonempty
                  | some c => exact ⟨c, rfl⟩
                obtain ⟨rc, hrc⟩ : ∃ c, r.head? = some c := by
                  cases hx : r.head? with
                  | none => exact absurd (List.head?_eq_none_iff.mp hx) gr.nonempty
                  | some c => exact ⟨c, rfl⟩
                refine ⟨by simp [gl.nonempty], ?_, ?_, ?_, ?_⟩
                · intro a c ha hc
                  have hne : l ≠ [] := gl.nonempty
                  have : (l ++ r).head? = l.head? := by
                    cases l with
                    | nil => exact absurd rfl hne
                    | cons x xs => rfl
                  rw [this] at hc
                  apply gl.first a c _ hc
                  rw [List.head?_take]; simp [ha]
                · intro b c hb hc
                  have hne : r ≠ [] := gr.nonempty
                  have : (l ++ r).getLast? = r.getLast? := by
                    rw [List.getLast?_append]; cases hx : r.getLast? with
                    | none => exact absurd (List.getLast?_eq_none_iff.mp hx) hne
                    | some z => simp
                  rw [this] at hc
                  apply gr.last b c _ hc
                  rw [List.getLast?_drop]; simp [hb]; omega
                · apply chain_append E l r gl.chain gr.chain
                  intro a b ha hb
                  rw [gl.last _ a hshare ha, gr.first _ b hshare' hb]
                · intro p hp
                  have : p ∈ pts.take (k + 1) ∨ p ∈ pts.drop k := by
                    have h1 : pts = pts.take (k + 1) ++ pts.drop (k + 1) := (List.take_append_drop _ _).symm
                    rw [h1] at hp
                    rcases List.mem_append.mp hp with h2 | h2
                    · exact Or.inl h2
                    · right
                      have : pts.drop (k + 1) = (pts.drop k).drop 1 := by simp [List.drop_drop]
                      rw [this] at h2
                      exact List.mem_of_mem_drop h2
                  rcases this with h2 | h2
                  · obtain ⟨c, hc, hn⟩ := gl.near p h2
                    exact ⟨c, List.mem_append.mpr (Or.inl hc), hn⟩
                  · obtain ⟨c, hc, hn⟩ := gr.near p h2
                    exact ⟨c, List.mem_append.mpr (Or.inr hc), hn⟩
          · simp at h
        · simp at h

#print axioms fit_good
