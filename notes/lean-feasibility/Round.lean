import Mathlib.Tactic.Ring
import Mathlib.Tactic.Linarith
import Mathlib.Tactic.Positivity
import Mathlib.Tactic.NormNum
import Mathlib.Algebra.Order.AbsoluteValue.Basic
import Mathlib.Algebra.Order.Field.Basic
import Mathlib.Data.Real.Basic

/-- `x̂` approximates `x` with absolute error ε, and `x` is bounded by B -/
structure Ap (xh x ε B : ℝ) : Prop where
  err : |xh - x| ≤ ε
  bnd : |x| ≤ B

/-- one rounded addition under the standard model fl(s) = s(1+δ), |δ| ≤ u -/
theorem ap_add {ah a εa Ba bh b εb Bb u δ : ℝ} (ha : Ap ah a εa Ba) (hb : Ap bh b εb Bb)
    (hδ : |δ| ≤ u) (hu : 0 ≤ u) :
    Ap ((ah + bh) * (1 + δ)) (a + b) (εa + εb + u * (Ba + Bb + εa + εb)) (Ba + Bb) := by
  have hεa : 0 ≤ εa := le_trans (abs_nonneg _) ha.err
  have hεb : 0 ≤ εb := le_trans (abs_nonneg _) hb.err
  constructor
  · have e : (ah + bh) * (1 + δ) - (a + b) = (ah - a) + (bh - b) + (ah + bh) * δ := by ring
    have h1 : |ah + bh| ≤ Ba + Bb + εa + εb := by
      have : ah + bh = (a + b) + ((ah - a) + (bh - b)) := by ring
      rw [this]
      calc |a + b + (ah - a + (bh - b))| ≤ |a + b| + |ah - a + (bh - b)| := abs_add_le _ _
        _ ≤ (|a| + |b|) + (|ah - a| + |bh - b|) := add_le_add (abs_add_le _ _) (abs_add_le _ _)
        _ ≤ Ba + Bb + εa + εb := by linarith [ha.bnd, hb.bnd, ha.err, hb.err]
    rw [e]
    calc |ah - a + (bh - b) + (ah + bh) * δ| ≤ |ah - a + (bh - b)| + |(ah + bh) * δ| := abs_add_le _ _
      _ ≤ (|ah - a| + |bh - b|) + |ah + bh| * |δ| := add_le_add (abs_add_le _ _) (le_of_eq (abs_mul _ _))
      _ ≤ εa + εb + (Ba + Bb + εa + εb) * u := by
          have : |ah + bh| * |δ| ≤ (Ba + Bb + εa + εb) * u :=
            mul_le_mul h1 hδ (abs_nonneg _) (by linarith [abs_nonneg (ah + bh)])
          linarith [ha.err, hb.err]
      _ = εa + εb + u * (Ba + Bb + εa + εb) := by ring
  · calc |a + b| ≤ |a| + |b| := abs_add_le _ _
      _ ≤ Ba + Bb := add_le_add ha.bnd hb.bnd

/-- one rounded multiplication -/
theorem ap_mul {ah a εa Ba bh b εb Bb u δ : ℝ} (ha : Ap ah a εa Ba) (hb : Ap bh b εb Bb)
    (hδ : |δ| ≤ u) (hu : 0 ≤ u) :
    Ap ((ah * bh) * (1 + δ)) (a * b)
       ((Ba + εa) * εb + Bb * εa + u * ((Ba + εa) * (Bb + εb))) (Ba * Bb) := by
  have hεa : 0 ≤ εa := le_trans (abs_nonneg _) ha.err
  have hεb : 0 ≤ εb := le_trans (abs_nonneg _) hb.err
  have hBa : 0 ≤ Ba := le_trans (abs_nonneg _) ha.bnd
  have hBb : 0 ≤ Bb := le_trans (abs_nonneg _) hb.bnd
  have hah : |ah| ≤ Ba + εa := by
    have : ah = a + (ah - a) := by ring
    rw [this]; exact le_trans (abs_add_le _ _) (add_le_add ha.bnd ha.err)
  have hbh : |bh| ≤ Bb + εb := by
    have : bh = b + (bh - b) := by ring
    rw [this]; exact le_trans (abs_add_le _ _) (add_le_add hb.bnd hb.err)
  constructor
  · have e : ah * bh * (1 + δ) - a * b = ah * (bh - b) + b * (ah - a) + ah * bh * δ := by ring
    rw [e]
    have t1 : |ah * (bh - b)| ≤ (Ba + εa) * εb := by
      rw [abs_mul]; exact mul_le_mul hah hb.err (abs_nonneg _) (by linarith)
    have t2 : |b * (ah - a)| ≤ Bb * εa := by
      rw [abs_mul]; exact mul_le_mul hb.bnd ha.err (abs_nonneg _) hBb
    have t3 : |ah * bh * δ| ≤ (Ba + εa) * (Bb + εb) * u := by
      rw [abs_mul, abs_mul]
      exact mul_le_mul (mul_le_mul hah hbh (abs_nonneg _) (by linarith)) hδ (abs_nonneg _) (by positivity)
    calc |ah * (bh - b) + b * (ah - a) + ah * bh * δ|
        ≤ |ah * (bh - b)| + |b * (ah - a)| + |ah * bh * δ| := by
          exact le_trans (abs_add_le _ _) (add_le_add (abs_add_le _ _) le_rfl)
      _ ≤ (Ba + εa) * εb + Bb * εa + u * ((Ba + εa) * (Bb + εb)) := by linarith
  · rw [abs_mul]; exact mul_le_mul ha.bnd hb.bnd (abs_nonneg _) hBa

/-- an exact input -/
theorem ap_exact (x B : ℝ) (h : |x| ≤ B) : Ap x x 0 B := ⟨by simp, h⟩

/-- tiny end-to-end example: fl(fl(a*t) + fl(b*s)) with |a|,|b| ≤ M, |t|,|s| ≤ 1 -/
example (a b t s M u δ1 δ2 δ3 : ℝ) (hM : 0 ≤ M) (ha : |a| ≤ M) (hb : |b| ≤ M) (ht : |t| ≤ 1) (hs : |s| ≤ 1)
    (hu : 0 ≤ u) (hu' : u ≤ 1 / 2 ^ 52) (h1 : |δ1| ≤ u) (h2 : |δ2| ≤ u) (h3 : |δ3| ≤ u) :
    |((a * t) * (1 + δ1) + (b * s) * (1 + δ2)) * (1 + δ3) - (a * t + b * s)| ≤ 5 * u * M := by
  have A := ap_mul (ap_exact a M ha) (ap_exact t 1 ht) h1 hu
  have B := ap_mul (ap_exact b M hb) (ap_exact s 1 hs) h2 hu
  have S := ap_add A B h3 hu
  refine le_trans S.err ?_
  have hu1 : u ≤ 1 := le_trans hu' (by norm_num)
  nlinarith [mul_nonneg hu hM, mul_nonneg (mul_nonneg hu hu) hM]
#print axioms ap_mul
